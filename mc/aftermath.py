"""
"After an error": a fixed series of public calls with invalid input, each of which is expected to fail (raise) or be refused.

The series is part of the hostile process environment (mc/core.enter_hostile_process): every check re-executes a sample of
its jobs in fresh interpreters in which all of these failures have already happened - the analogue of a crash point in a
history for module- and class-level state (caches filled before validation, flags / registries / work buffers / numpy error
state / logging configuration changed inside a try block without a finally).  Nothing here asserts anything: a failing call
that does NOT fail is merely counted; what is judged is the check's own jobs afterwards.

Object-level aftermath (one object half-updated by a failing setter and then used again) is explored by the checks that own
such objects (C12, C14, C07, C15, ...) in their own histories.
"""
import os
import tempfile

import numpy as np


def _provocations():
    from chmpy.core.element import Element, chemical_formula
    from chmpy.core.molecule import Molecule
    from chmpy.crystal import AsymmetricUnit, Crystal, SpaceGroup, SymmetryOperation, UnitCell
    from chmpy.crystal.symmetry_operation import expanded_symmetry_list
    from chmpy.crystal.wulff import WulffConstruction
    from chmpy.fmt.cif import Cif, parse_value
    from chmpy.fmt.sdf import parse_sdf_contents
    from chmpy.interpolate.density import PromoleculeDensity, StockholderWeight
    from chmpy.mc import marching_cubes
    from chmpy import sampling
    from chmpy.shape.shape_descriptors import make_invariants, promolecule_density_descriptor, stockholder_weight_descriptor
    from chmpy.shape.sht import SHT
    from chmpy.util.num import kabsch_rotation_matrix, rmsd_points

    d = tempfile.mkdtemp(prefix="verif_aftermath_")
    bad_cif = os.path.join(d, "broken.cif")
    open(bad_cif, "w").write("data_x\nloop_\n_atom_site_label\n_atom_site_fract_x\nC1 0.1 0.2\n_cell_length_a 'unterminated\n")
    bad_xyz = os.path.join(d, "broken.xyz")
    open(bad_xyz, "w").write("3\ncomment\nH 0 0\nQq 1 2 3\n")
    bad_sdf = os.path.join(d, "broken.sdf")
    open(bad_sdf, "w").write("name\nprog\n\n  2  1  0  0  0  0  0  0  0  0999 V2000\n    0.0000    0.0000\n")
    bad_res = os.path.join(d, "broken.res")
    open(bad_res, "w").write("TITL x\nCELL 0.7 a b c\nLATT 9\nSYMM x,y\nSFAC C\nC1 1 0.1 0.2\nEND\n")
    bad_poscar = os.path.join(d, "POSCAR")
    open(bad_poscar, "w").write("x\n1.0\n1 0 0\n0 1\n")

    water = Molecule([Element["O"], Element["H"], Element["H"]], np.array([[0.0, 0.0, 0.1], [0.76, 0.59, 0.0], [-0.76, 0.59, 0.0]]))
    cell = UnitCell.from_lengths_and_angles([7.0, 8.0, 9.0], [90.0, 104.0, 90.0], unit="degrees")
    crystal = Crystal(cell, SpaceGroup(14), AsymmetricUnit([Element["C"], Element["O"]], np.array([[0.1, 0.2, 0.3], [0.4, 0.1, 0.7]])))
    sht = SHT(4)
    vol = np.zeros((4, 4, 4), dtype=np.float32)
    vol[1:3, 1:3, 1:3] = 1.0
    return d, [
        # elements
        lambda: Element["Xx"], lambda: Element["Qq9"], lambda: Element[0], lambda: Element[-5], lambda: Element[500], lambda: Element.from_string(""),
        lambda: Element.from_atomic_number(104), lambda: Element.from_string("notanelement"), lambda: Element[None], lambda: Element[3.7],
        lambda: chemical_formula([Element["C"], "zz", 5]), lambda: chemical_formula(None),
        # symmetry
        lambda: SpaceGroup(0), lambda: SpaceGroup(231), lambda: SpaceGroup(14, choice="nope"), lambda: SpaceGroup.from_symmetry_operations([]),
        lambda: SpaceGroup.from_symmetry_operations([SymmetryOperation.from_string_code("x,y,z"), SymmetryOperation.from_string_code("-x,y,z+1/7")]),
        lambda: SymmetryOperation.from_string_code("x,y"), lambda: SymmetryOperation.from_string_code("a,b,c"), lambda: SymmetryOperation.from_string_code("x,y,z,w"),
        lambda: SymmetryOperation.from_string_code("1/0+x,y,z"), lambda: SymmetryOperation.from_integer_code(-1), lambda: SymmetryOperation.from_integer_code(10 ** 12),
        lambda: SymmetryOperation(np.eye(2), np.zeros(3)) + "t", lambda: expanded_symmetry_list([], 99), lambda: expanded_symmetry_list(None, 1),
        lambda: crystal.choose_trigonal_lattice("X"), lambda: crystal.choose_trigonal_lattice("R"),
        # cells
        lambda: UnitCell.from_lengths_and_angles([1.0, 2.0], [90.0, 90.0, 90.0]), lambda: UnitCell(np.zeros((2, 2))), lambda: UnitCell.cubic("a"),
        lambda: UnitCell.from_lengths_and_angles([7.0, 8.0, 9.0], [90.0, 104.0, 90.0], unit="gradians"), lambda: UnitCell.from_unique_parameters((1.0,), cell_type="nope"),
        lambda: cell.set_lengths_and_angles([1.0, 2.0, 3.0], [1.0, 2.0]), lambda: UnitCell(np.eye(3)).set_vectors(np.zeros((3, 2))), lambda: cell.to_cartesian(np.zeros((2, 5))),
        # crystals and their files
        lambda: Crystal.load(os.path.join(d, "nothing.cif")), lambda: Crystal.load(os.path.join(d, "file.unknownext")), lambda: Crystal.load(bad_cif), lambda: Crystal.load(bad_res),
        lambda: Crystal.load(bad_poscar), lambda: Crystal.from_cif_string("garbage"), lambda: Crystal.from_cif_string("data_x\n_cell_length_a 1\n"),
        lambda: Crystal.from_shelx_string("TITL\nCELL x"), lambda: Crystal.from_vasp_string("x\n"), lambda: crystal.save(os.path.join(d, "out.unknownext")),
        lambda: crystal.atoms_in_radius("far"), lambda: crystal.atomic_surroundings(radius=None), lambda: crystal.as_P1_supercell((1, 2)), lambda: crystal.slab(bounds=((0, 0), (1, 1))),
        lambda: Crystal(cell, SpaceGroup(14), AsymmetricUnit([Element["C"]], np.zeros((2, 3)))).unit_cell_atoms(),
        lambda: crystal.unit_cell_connectivity(tolerance="x"), lambda: crystal.molecular_shape_descriptors(l_max=-1),
        # CIF text
        lambda: Cif.from_string("loop_\n_a\n_b\n1\n"), lambda: Cif.from_string("data_x\nloop_\n_a_1\n_a_2\n1 2 3\n"), lambda: Cif.from_string(None), lambda: Cif.from_file(os.path.join(d, "no.cif")),
        lambda: Cif({"b": {"x": object()}}).to_string(), lambda: Cif({"b": {"col": [1, 2], "col2": [1, 2, 3]}}).to_string(), lambda: parse_value(None), lambda: parse_value("1.2.3(4)(5)", with_uncertainty=True),
        # molecules and their files
        lambda: Molecule.from_xyz_string("3\n\nH 0 0\n"), lambda: Molecule.from_xyz_string("x\n"), lambda: Molecule.load(bad_xyz), lambda: Molecule.load(bad_sdf), lambda: Molecule.load(os.path.join(d, "m.unknownext")),
        lambda: parse_sdf_contents("garbage"), lambda: parse_sdf_contents("a\nb\nc\n  x  y V2000\n"), lambda: water.save(os.path.join(d, "w.unknownext")),
        lambda: Molecule([Element["O"]], np.zeros((2, 3))).to_sdf_string(), lambda: Molecule.from_sdf_dict({}), lambda: water.rotate(np.eye(2)), lambda: water.translate(np.zeros(5)),
        # densities and surfaces
        lambda: PromoleculeDensity((np.array([0]), np.zeros((1, 3)))), lambda: PromoleculeDensity((np.array([104, 1]), np.zeros((2, 3)))), lambda: PromoleculeDensity((np.array([8, 1]), np.zeros((3, 3)))).rho(np.zeros((2, 3))),
        lambda: PromoleculeDensity((np.array([8]), np.zeros((1, 3)))).rho(np.zeros((4, 2))), lambda: StockholderWeight.from_arrays(np.array([8]), np.zeros((1, 3)), np.array([0]), np.ones((1, 3))),
        lambda: StockholderWeight.from_arrays(np.array([8, 1]), np.zeros((1, 3)), np.array([1]), np.ones((1, 3))).weights(np.zeros((2, 3))),
        lambda: marching_cubes(np.zeros((1, 1, 1), dtype=np.float32), 0.0), lambda: marching_cubes(vol, 5.0), lambda: marching_cubes(vol, 0.5, spacing=(1.0, 1.0)), lambda: marching_cubes(vol, 0.5, gradient_direction="sideways"),
        lambda: marching_cubes(vol[0], 0.5), lambda: marching_cubes(np.full((4, 4, 4), np.nan, dtype=np.float32), 0.5), lambda: water.promolecule_density_isosurface(separation=-1.0),
        lambda: water.promolecule_density_isosurface(isovalue=1e9, separation=0.5),
        # harmonics and descriptors
        lambda: SHT(-1), lambda: SHT("4"), lambda: sht.analysis(np.zeros((3, 3))), lambda: sht.synthesis(np.zeros(5, dtype=np.complex128)), lambda: sht.evaluate_at_points(np.zeros(7, dtype=np.complex128), 0.3, 0.2),
        lambda: sht.power_spectrum(np.zeros(7)), lambda: make_invariants(3, np.zeros(4, dtype=np.complex128)), lambda: make_invariants(2, np.zeros(9, dtype=np.complex128), kinds="Q"),
        lambda: promolecule_density_descriptor(sht, np.array([8, 1, 1]), water.positions, bounds=(50.0, 60.0)), lambda: promolecule_density_descriptor(sht, np.array([0]), np.zeros((1, 3))),
        lambda: stockholder_weight_descriptor(sht, np.array([8]), np.zeros((1, 3)), np.array([8]), np.zeros((1, 3)), bounds=(0.1, 0.2)), lambda: water.shape_descriptors(l_max=4, with_property="nope"),
        lambda: water.atomic_shape_descriptors(l_max=-2),
        # whole finite domains, where a failure may leave something behind per member
        lambda: [_try(lambda n=n: SpaceGroup(n, choice="nope")) for n in range(1, 231)],
        lambda: [_try(lambda z=z: Element[Element.from_atomic_number(z).symbol + "q7"]) for z in range(1, 104)],
        # texts that fail late (after part of them has been accepted)
        lambda: Cif.from_string("data_draft\n_cell_length_a 5.5\nloop_\n_atom_site_label\n_atom_site_fract_x\nC1 0.1\n_refine_special_details\n;never terminated\n"),
        lambda: Cif.from_string("data_draft2\n_cell_length_b 6.5\n_x 'unterminated quote\nloop_\n_q\n"),
        lambda: Molecule.from_xyz_string("2\ndecimal commas\nH 0,74 0,0 0,0\nH 0,0 0,0 0,0\n"), lambda: Molecule.from_xyz_string("2\n\nH 0.0 0.0 0.0\nH 0.74 zero 0.0\n"),
        lambda: parse_sdf_contents("m\np\n\n  2  1  0  0  0  0  0  0  0  0999 V2000\n    0.0000    0.0000    0.0000 H   0  0\n    bad line\n"),
        lambda: Crystal.from_shelx_string("TITL t\nCELL 0.7 7 8 9 90 104 90\nLATT 1\nSYMM -x,1/2+y,1/2-z\nSFAC C O\nC1 1 0.1 0.2 0.3\nO1 2 0.4 oops 0.6\nEND\n"),
        lambda: sampling.quasirandom(4, 3, method="KGF"), lambda: sampling.quasirandom(4, 3, method="Sobol"), lambda: sampling.quasirandom(3, method="Kgf", seed=5),
        lambda: PromoleculeDensity((np.array([8, 1, 1]), np.zeros((3, 3), dtype=np.float32).T[:, ::-1])), lambda: PromoleculeDensity((np.array([8, 1, 1]), np.zeros(9))),
        lambda: PromoleculeDensity((np.array([6]), np.zeros(3))), lambda: WulffConstruction(np.array([[1.0, 0, 0], [-1.0, 0, 0], [0, 1.0, 0], [0, -1.0, 0], [0, 0, 1.0]]), np.ones(5)),
        lambda: WulffConstruction(np.array([[1.0, 0, 0], [-1.0, 0, 0], [0, 1.0, 0], [0, -1.0, 0], [0, 0, 1.0], [0, 0, -1.0]]), np.array([1.0, 1.0, 1.0, 1.0, 1.0, -1.0])),
        # sampling, alignment, Wulff
        lambda: sampling.quasirandom(3, 2, method="nope"), lambda: sampling.quasirandom(-3, 2), lambda: sampling.quasirandom_sobol(1, 5000),
        # (quasirandom_sobol(0, D) is NOT in the series: its seed check is a Cython assert, which python -O disables, and the call then
        # crashes the interpreter - an observation outside the listed properties, see DESIGN.md) lambda: sampling.quasirandom_kgf(-1, 3),
        lambda: sampling.quasirandom_sobol_batch(5, 1, 3), lambda: sampling.quasirandom_kgf_batch(1, 4, 0), lambda: sampling.quasirandom("3", "2"),
        lambda: kabsch_rotation_matrix(np.zeros((3, 3)), np.zeros((4, 3))), lambda: kabsch_rotation_matrix(np.zeros((3, 2)), np.zeros((3, 2))), lambda: kabsch_rotation_matrix(np.full((3, 3), np.nan), np.ones((3, 3))),
        lambda: rmsd_points(np.zeros((2, 3)), np.zeros((3, 3))),
        lambda: WulffConstruction(np.zeros((2, 3)), np.ones(3)), lambda: WulffConstruction(np.array([[1.0, 0, 0], [0, 1.0, 0], [0, 0, 1.0]]), np.ones(3)), lambda: WulffConstruction(np.eye(3), np.array([1.0, np.nan, 1.0])),
        lambda: WulffConstruction(np.array([[1.0, 0, 0], [-1.0, 0, 0], [0, 1.0, 0], [0, -1.0, 0], [0, 0, 1.0], [0, 0, -1.0]]), np.ones(6)).to_trimesh().nothing,
    ]


def _try(f):
    try:
        f()
    except Exception:
        pass


def provoke_all():
    """runs every provocation once; returns (number that failed as expected, number that did not fail)"""
    import shutil
    import warnings

    failed = passed = 0
    try:
        d, calls = _provocations()
    except Exception:
        return 0, -1
    with warnings.catch_warnings():
        warnings.simplefilter("ignore")
        raising = []
        for f in calls:
            try:
                f()
                passed += 1
            except BaseException as e:      # noqa: B036 - a failing call may end in any exception; SystemExit / KeyboardInterrupt are not expected here
                if isinstance(e, (KeyboardInterrupt, SystemExit)):
                    raise
                failed += 1
                raising.append(f)
        # second pass, failing calls only: whatever a failure leaves behind is then not tidied up by a later SUCCESSFUL call of the
        # same family inside this series (a parser that clears its staging area on success, a flag reset on the success path)
        for f in raising:
            try:
                f()
            except BaseException as e:      # noqa: B036
                if isinstance(e, (KeyboardInterrupt, SystemExit)):
                    raise
    shutil.rmtree(d, ignore_errors=True)
    return failed, passed

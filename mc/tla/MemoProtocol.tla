---------------------------- MODULE MemoProtocol ----------------------------
(* Memoisation protocol of chmpy.Crystal for a trigonal (R-lattice) crystal.
   setting : current axes, "H" or "R"
   memo[m] : for each memo attribute, the setting it was computed in, or "none"
             uc = _unit_cell_atom_dict, gr = _uc_graph, mo = _unit_cell_molecules, un = _symmetry_unique_molecules
   cif     : the setting the attached source-CIF dictionary describes, or "none"
   Queries fill the memos they need (in dependency order) if absent and never change the setting;
   switching the setting drops every memo and the source-CIF dictionary.
   Invariant: nothing that is served was computed for another setting. *)
EXTENDS Naturals
VARIABLES setting, memo, cif

Memos == {"uc", "gr", "mo", "un"}
Settings == {"H", "R"}

Fill(ms) == [m \in Memos |-> IF m \in ms /\ memo[m] = "none" THEN setting ELSE memo[m]]

Init == /\ setting \in Settings
        /\ memo = [m \in Memos |-> "none"]
        /\ cif \in {"none", setting}

\* queries, grouped by the set of memos they populate
QueryUc   == /\ memo' = Fill({"uc"})             /\ UNCHANGED <<setting, cif>>   \* unit_cell_atoms, slab, atoms_in_radius, atomic_surroundings, density, poscar
QueryGr   == /\ memo' = Fill({"uc", "gr"})       /\ UNCHANGED <<setting, cif>>   \* unit_cell_connectivity
QueryMo   == /\ memo' = Fill({"uc", "gr", "mo"}) /\ UNCHANGED <<setting, cif>>   \* unit_cell_molecules, as_P1
QueryUn   == /\ memo' = Fill(Memos)              /\ UNCHANGED <<setting, cif>>   \* symmetry_unique_molecules, molecule_environments
QueryNone == UNCHANGED <<setting, memo, cif>>                                      \* to_cif_string, to_shelx_string
Switch(s) == /\ s \in Settings
             /\ IF s = setting
                  THEN UNCHANGED <<setting, memo, cif>>
                  ELSE /\ setting' = s
                       /\ memo' = [m \in Memos |-> "none"]
                       /\ cif' = "none"

SwitchH == Switch("H")
SwitchR == Switch("R")

Next == QueryUc \/ QueryGr \/ QueryMo \/ QueryUn \/ QueryNone \/ SwitchH \/ SwitchR

Spec == Init /\ [][Next]_<<setting, memo, cif>>

NothingStaleIsServed == /\ \A m \in Memos : memo[m] \in {"none", setting}
                        /\ cif \in {"none", setting}
DependenciesClosed == /\ (memo["gr"] # "none" => memo["uc"] # "none")
                      /\ (memo["mo"] # "none" => memo["gr"] # "none")
                      /\ (memo["un"] # "none" => memo["mo"] # "none")
=============================================================================

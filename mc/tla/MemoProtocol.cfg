SPECIFICATION Spec
INVARIANT NothingStaleIsServed
INVARIANT DependenciesClosed

"""
Reference promolecule density: float64 linear interpolation of the tabulated spherically averaged atomic
densities (thakkar_interp.npz, read as data) in the squared distance in bohr^2, first interval flat
(the documented cusp flattening).  Beyond the table end both the last tabulated value (batch path) and 0
(single-point path) are accepted - they differ by <= 1.4e-8.
"""
import os

import numpy as np

BOHR = 0.5291772108

_T = None


def table(repo_src=None):
    from mc.paths import REPO_SRC

    repo_src = repo_src or REPO_SRC
    global _T
    if _T is None:
        d = np.load(os.path.join(repo_src, "chmpy", "interpolate", "thakkar_interp.npz"))
        _T = (d["domain"].astype(np.float64), d["rho"].astype(np.float64))
    return _T


def atom_rho(z, r_angstrom):
    """(value, alt) arrays: alt is the alternative admissible value beyond the table end"""
    dom, rho = table()
    y = rho[z - 1]
    x = (np.asarray(r_angstrom, dtype=np.float64) / BOHR) ** 2
    dx = dom[1] - dom[0]
    j = np.floor((x - dom[0]) / dx).astype(np.int64)
    n = len(dom)
    jj = np.clip(j, 1, n - 2)
    t = (x - dom[jj]) / dx
    v = (1 - t) * y[jj] + t * y[jj + 1]
    v = np.where(j <= 0, y[0], v)
    alt = np.where(j >= n - 1, 0.0, v)
    v = np.where(j >= n - 1, y[n - 1], v)
    return v, alt


def promolecule_rho(zs, pos, pts):
    pos = np.asarray(pos, dtype=np.float64)
    pts = np.asarray(pts, dtype=np.float64)
    tot = np.zeros(len(pts))
    tot_alt = np.zeros(len(pts))
    for z, p in zip(zs, pos):
        r = np.linalg.norm(pts - p, axis=1)
        v, a = atom_rho(int(z), r)
        tot += v
        tot_alt += a
    return tot, tot_alt

"""
Optimal proper rotation by Horn's closed-form quaternion method (J. Opt. Soc. Am. A 4, 629 (1987)):
the maximum of sum_i b_i . (R a_i) over proper rotations is the largest eigenvalue of a symmetric 4x4
matrix built from the correlation matrix.  No SVD, no determinant fix - a different algorithm from Kabsch.
No centring is applied (the library routine rotates about the origin).
"""
import numpy as np


def optimal_rmsd(A, B):
    """min over proper rotations R (row convention A @ R) of rmsd(A @ R, B); returns (rmsd, R)"""
    A = np.asarray(A, dtype=float)
    B = np.asarray(B, dtype=float)
    S = A.T @ B  # S[x,y] = sum a_x b_y
    Sxx, Sxy, Sxz = S[0]
    Syx, Syy, Syz = S[1]
    Szx, Szy, Szz = S[2]
    N = np.array([
        [Sxx + Syy + Szz, Syz - Szy, Szx - Sxz, Sxy - Syx],
        [Syz - Szy, Sxx - Syy - Szz, Sxy + Syx, Szx + Sxz],
        [Szx - Sxz, Sxy + Syx, -Sxx + Syy - Szz, Syz + Szy],
        [Sxy - Syx, Szx + Sxz, Syz + Szy, -Sxx - Syy + Szz],
    ])
    w, v = np.linalg.eigh(N)
    lam = w[-1]
    q = v[:, -1]
    q0, qx, qy, qz = q
    # rotation matrix acting on column vectors: b ~ Rc a
    Rc = np.array([
        [q0 * q0 + qx * qx - qy * qy - qz * qz, 2 * (qx * qy - q0 * qz), 2 * (qx * qz + q0 * qy)],
        [2 * (qy * qx + q0 * qz), q0 * q0 - qx * qx + qy * qy - qz * qz, 2 * (qy * qz - q0 * qx)],
        [2 * (qz * qx - q0 * qy), 2 * (qz * qy + q0 * qx), q0 * q0 - qx * qx - qy * qy + qz * qz],
    ])
    # the deviation is evaluated directly with the rotation found (an achievable value, so an upper bound of the optimum that
    # is tight to rounding); the closed form |A|^2+|B|^2-2*lambda cancels catastrophically for nearly congruent sets
    diff = A @ Rc.T - B
    return float(np.sqrt(np.vdot(diff, diff) / len(A))), Rc.T


def improper_optimum(A, B):
    """best RMSD over improper rotations (reflection composed with a rotation), for diagnosis"""
    r, _ = optimal_rmsd(-np.asarray(A, dtype=float), B)
    return r

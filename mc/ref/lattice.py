"""
Reference lattice geometry (independent of chmpy): cell matrix from lengths/angles by the textbook
formula (a along x, b in the xy plane), perpendicular widths, brute-force periodic neighbour search.
Rows of the matrix are the lattice vectors; cart = frac @ M.
"""
import math
import numpy as np


def cell_matrix(a, b, c, al, be, ga):
    """angles in degrees"""
    al, be, ga = (math.radians(x) for x in (al, be, ga))
    ca, cb, cg = math.cos(al), math.cos(be), math.cos(ga)
    sg = math.sin(ga)
    cx = c * cb
    cy = c * (ca - cb * cg) / sg
    cz2 = c * c - cx * cx - cy * cy
    if cz2 <= 0:
        raise ValueError("degenerate cell")
    return np.array([[a, 0.0, 0.0], [b * cg, b * sg, 0.0], [cx, cy, math.sqrt(cz2)]])


def volume(M):
    return abs(np.linalg.det(M))


def metric_ok(a, b, c, al, be, ga):
    ca, cb, cg = (math.cos(math.radians(x)) for x in (al, be, ga))
    return 1 - ca * ca - cb * cb - cg * cg + 2 * ca * cb * cg > 0


def perpendicular_widths(M):
    """distance between opposite faces of the cell: 1/|a*_i|"""
    inv = np.linalg.inv(M)  # columns are reciprocal vectors
    return 1.0 / np.linalg.norm(inv, axis=0)


def monoclinic_axis(choice):
    for ch in choice:
        if ch in "abc":
            return ch
    return "b"


def compatible_cells(number, choice):
    """
    two metrically compatible cells (a 'round' one and a long/oblique one) for a table setting;
    returns list of (a,b,c,alpha,beta,gamma) in Angstrom / degrees
    """
    if number <= 2:
        return [(7.0, 8.0, 9.0, 81.0, 97.0, 104.0), (5.1, 11.3, 23.7, 60.0, 65.0, 115.0), (6.3, 7.9, 9.1, 62.0, 131.0, 118.0)]
    if number <= 15:
        ax = monoclinic_axis(choice)
        out = []
        for (a, b, c, ang) in ((7.0, 8.0, 9.0, 104.0), (4.9, 17.3, 11.1, 125.0), (6.1, 7.7, 9.3, 138.0)):
            if ax == "b":
                out.append((a, b, c, 90.0, ang, 90.0))
            elif ax == "c":
                out.append((a, b, c, 90.0, 90.0, ang))
            else:
                out.append((a, b, c, ang, 90.0, 90.0))
        return out
    if number <= 74:
        return [(7.0, 8.0, 9.0, 90.0, 90.0, 90.0), (3.1, 9.2, 30.3, 90.0, 90.0, 90.0)]
    if number <= 142:
        return [(7.0, 7.0, 9.0, 90.0, 90.0, 90.0), (4.2, 4.2, 27.5, 90.0, 90.0, 90.0)]
    if number <= 194:
        if choice == "R":
            return [(7.0, 7.0, 7.0, 77.0, 77.0, 77.0), (7.78, 7.78, 7.78, 113.1, 113.1, 113.1)]
        return [(7.0, 7.0, 9.0, 90.0, 90.0, 120.0), (34.45, 34.45, 11.24, 90.0, 90.0, 120.0)]
    return [(7.0, 7.0, 7.0, 90.0, 90.0, 90.0), (13.7, 13.7, 13.7, 90.0, 90.0, 90.0)]


def pseudo_special_cell(number, choice):
    """
    a metrically compatible cell whose FREE parameters sit a hair away from special values (pseudo-symmetric and relaxed cells): lengths
    4e-5 .. 3e-4 off whole numbers, free angles 5e-4 .. 6e-4 degrees off 90 / 120.  Anything that decides "is this 90 degrees / a whole
    number / equal to that one" with a loose relative tolerance changes such a cell
    """
    a, b, c = 7.00004, 8.99996, 40.0003
    if number <= 2:
        return (a, b, c, 90.0006, 89.9995, 119.9994)
    if number <= 15:
        ax = monoclinic_axis(choice)
        ang = 90.0006 if number % 2 else 89.9995
        return (a, b, c, 90.0, ang, 90.0) if ax == "b" else (a, b, c, 90.0, 90.0, ang) if ax == "c" else (a, b, c, ang, 90.0, 90.0)
    if number <= 74:
        return (a, b, c, 90.0, 90.0, 90.0)
    if number <= 142:
        return (a, a, c, 90.0, 90.0, 90.0)
    if number <= 194:
        if choice == "R":
            return (a, a, a, 89.9995, 89.9995, 89.9995) if number % 2 else (a, a, a, 60.0006, 60.0006, 60.0006)
        return (a, a, c, 90.0, 90.0, 120.0)
    return (a, a, a, 90.0, 90.0, 90.0)


def long_obtuse_cell(number, choice):
    """
    a metrically compatible cell with a LONG axis and OBTUSE free angles together: lattice-vector components like -14.2 and -23.5
    (a sign and two integer digits: one character wider than the components of ordinary cells)
    """
    if number <= 2:
        return (7.3, 8.1, 32.0, 115.0, 100.0, 95.0)
    if number <= 15:
        ax = monoclinic_axis(choice)
        return (7.3, 8.1, 41.0, 90.0, 125.0, 90.0) if ax == "b" else (7.3, 41.0, 8.1, 90.0, 90.0, 125.0) if ax == "c" else (7.3, 8.1, 41.0, 125.0, 90.0, 90.0)
    if number <= 74:
        return (7.3, 8.1, 141.0, 90.0, 90.0, 90.0)
    if number <= 142:
        return (7.3, 7.3, 141.0, 90.0, 90.0, 90.0)
    if number <= 194:
        if choice == "R":
            return (23.0, 23.0, 23.0, 113.1, 113.1, 113.1)
        return (27.3, 27.3, 141.0, 90.0, 90.0, 120.0)
    return (141.0, 141.0, 141.0, 90.0, 90.0, 90.0)


def periodic_neighbours(M, uc_frac, centres_cart, radius, band=1e-6):
    """
    brute force: for every centre (cartesian) the images (atom index, cell) of unit-cell atoms (fractional,
    in [0,1)) within `radius`.  The cell range comes from the perpendicular widths plus one shell and is
    self-validated: the outermost shell must contribute nothing.
    Returns list (per centre) of dict with 'required' and 'allowed' sets of (atom, (h,k,l)) and a map to
    position / distance.
    """
    uc_frac = np.asarray(uc_frac, dtype=float)
    inv = np.linalg.inv(M)
    w = perpendicular_widths(M)
    out = []
    for c in np.atleast_2d(centres_cart):
        fc = c @ inv
        n = np.ceil(radius / w).astype(int) + 1
        lo = np.floor(fc - radius / w).astype(int) - 2
        hi = np.ceil(fc + radius / w).astype(int) + 1
        hs = np.arange(lo[0], hi[0] + 1)
        ks = np.arange(lo[1], hi[1] + 1)
        ls = np.arange(lo[2], hi[2] + 1)
        cells = np.array(np.meshgrid(hs, ks, ls, indexing="ij")).reshape(3, -1).T
        # all images
        fr = uc_frac[None, :, :] + cells[:, None, :]
        cart = fr.reshape(-1, 3) @ M
        d = np.linalg.norm(cart - c, axis=1)
        d2 = d.reshape(len(cells), len(uc_frac))
        inside = d2 <= radius + band
        # outermost shell must be empty
        outer = (
            (cells[:, 0] == lo[0]) | (cells[:, 0] == hi[0]) | (cells[:, 1] == lo[1]) | (cells[:, 1] == hi[1])
            | (cells[:, 2] == lo[2]) | (cells[:, 2] == hi[2])
        )
        if inside[outer].any():
            raise AssertionError("reference search range too small")
        req, allowed, info = set(), set(), {}
        ci, ai = np.nonzero(inside)
        for q, a_ in zip(ci, ai):
            key = (int(a_), tuple(int(v) for v in cells[q]))
            dist = d2[q, a_]
            allowed.add(key)
            if dist <= radius - band:
                req.add(key)
            info[key] = (cart.reshape(len(cells), len(uc_frac), 3)[q, a_], dist)
        out.append({"required": req, "allowed": allowed, "info": info})
    return out

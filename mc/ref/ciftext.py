"""
Tiny reference CIF reader (independent of chmpy.fmt.cif).  Looks only at what the CIF 1.1 syntax defines:
data_ headers, loop_, _names, whitespace separated values, '...' / "..." quoted values, ;-delimited text
fields, # comments.  Values stay strings; `quoted` tells whether a value was written in quotes.
"""
import re


class Value(str):
    quoted = False


def _mk(s, q):
    v = Value(s)
    v.quoted = q
    return v


def tokenize(text):
    """yields Value tokens"""
    lines = text.split("\n")
    i = 0
    toks = []
    while i < len(lines):
        line = lines[i]
        if line.startswith(";"):
            buf = [line[1:]]
            i += 1
            while i < len(lines) and not lines[i].startswith(";"):
                buf.append(lines[i])
                i += 1
            i += 1
            toks.append(_mk("\n".join(buf).strip(), True))
            continue
        pos = 0
        n = len(line)
        while pos < n:
            ch = line[pos]
            if ch in " \t\r":
                pos += 1
                continue
            if ch == "#":
                break
            if ch in "'\"":
                # closing quote must be followed by whitespace or end of line
                j = pos + 1
                while True:
                    j = line.find(ch, j)
                    if j < 0:
                        raise ValueError("unterminated quote on line %d" % (i + 1))
                    if j + 1 >= n or line[j + 1] in " \t\r":
                        break
                    j += 1
                toks.append(_mk(line[pos + 1 : j], True))
                pos = j + 1
                continue
            j = pos
            while j < n and line[j] not in " \t\r":
                j += 1
            toks.append(_mk(line[pos:j], False))
            pos = j
        i += 1
    return toks


def parse(text):
    """returns {block: {name: Value or [Value,...]}} with insertion order preserved"""
    toks = tokenize(text)
    data = {}
    cur = None
    i = 0
    while i < len(toks):
        t = toks[i]
        low = t.lower()
        if not t.quoted and low.startswith("data_"):
            cur = {}
            data[str(t[5:])] = cur
            i += 1
        elif not t.quoted and low == "loop_":
            i += 1
            names = []
            while i < len(toks) and not toks[i].quoted and toks[i].startswith("_"):
                names.append(str(toks[i][1:]))
                i += 1
            vals = []
            while i < len(toks):
                u = toks[i]
                if not u.quoted and (u.startswith("_") or u.lower() == "loop_" or u.lower().startswith("data_")):
                    break
                vals.append(u)
                i += 1
            if cur is None:
                cur = data.setdefault("", {})
            if names and len(vals) % len(names):
                raise ValueError("loop with %d names has %d values" % (len(names), len(vals)))
            for k, nme in enumerate(names):
                cur[nme] = vals[k :: len(names)]
        elif not t.quoted and t.startswith("_"):
            if cur is None:
                cur = data.setdefault("", {})
            if i + 1 >= len(toks):
                raise ValueError("name %s without value" % t)
            cur[str(t[1:])] = toks[i + 1]
            i += 2
        else:
            raise ValueError("stray value %r" % str(t))
    return data


_NUM = re.compile(r"^[-+]?(\d+\.?\d*|\.\d+)([eE][-+]?\d+)?(\(\d+\))?$")


def number(v):
    """numeric value of a CIF number with optional (su); None if not a number or quoted"""
    if getattr(v, "quoted", False):
        return None
    m = _NUM.match(v)
    if not m:
        return None
    return float(re.sub(r"\(\d+\)$", "", v))

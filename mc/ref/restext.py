"""Reference readers for the SHELX .res subset and POSCAR text chmpy writes (independent of chmpy)."""
from mc.ref import symm

CENTRING = {1: [], 2: [(6, 6, 6)], 3: [(8, 4, 4), (4, 8, 8)], 4: [(0, 6, 6), (6, 0, 6), (6, 6, 0)],
            5: [(0, 6, 6)], 6: [(6, 0, 6)], 7: [(6, 6, 0)]}


def expand_latt(ops, latt):
    """SHELX semantics: SYMM list (identity implied) x centring translations x (inversion at origin if LATT>0)"""
    full = set()
    base = set(ops) | {symm.IDENTITY}
    for (R, t) in base:
        for c in [(0, 0, 0)] + CENTRING[abs(latt)]:
            tt = tuple((t[i] + c[i]) % 12 for i in range(3))
            full.add((R, tt))
            if latt > 0:
                full.add((tuple(-v for v in R), tuple((-v) % 12 for v in tt)))
    return full


def parse_res(text):
    out = {"SYMM": [], "ATOM": [], "LATT": 1, "SFAC": None, "CELL": None, "TITL": None}
    for line in text.split("\n"):
        s = line.strip()
        if not s:
            continue
        key = s[:4].upper()
        if key.startswith("END"):
            break
        if key == "TITL":
            out["TITL"] = s[4:].strip()
        elif key == "CELL":
            v = [float(x) for x in s.split()[1:]]
            if len(v) != 7:
                raise ValueError("CELL needs wavelength + 6 parameters")
            out["CELL"] = v[1:]
        elif key == "LATT":
            out["LATT"] = int(s.split()[1])
        elif key == "SYMM":
            out["SYMM"].append(symm.parse_string(s[4:]))
        elif key == "SFAC":
            out["SFAC"] = s.split()[1:]
        elif key in ("ZERR", "UNIT", "FVAR", "REM ", "HKLF"):
            continue
        else:
            tok = s.split()
            if len(tok) < 5:
                raise ValueError("bad atom line %r" % s)
            sf = int(tok[1])
            if out["SFAC"] is None or not (1 <= sf <= len(out["SFAC"])):
                raise ValueError("atom line refers to SFAC %d" % sf)
            out["ATOM"].append({"label": tok[0], "symbol": out["SFAC"][sf - 1],
                                "frac": tuple(float(x) for x in tok[2:5]),
                                "occ": float(tok[5]) if len(tok) > 5 else 1.0})
    out["OPS"] = expand_latt(out["SYMM"], out["LATT"])
    return out


def parse_poscar(text):
    lines = text.split("\n")
    name = lines[0].strip()
    scale = float(lines[1].split()[0])
    lat = [[float(x) * scale for x in lines[i].split()[:3]] for i in (2, 3, 4)]
    syms = lines[5].split()
    counts = [int(x) for x in lines[6].split()]
    if len(syms) != len(counts):
        raise ValueError("element/count mismatch")
    mode = lines[7].strip().lower()
    n = sum(counts)
    pos = [tuple(float(x) for x in lines[8 + i].split()[:3]) for i in range(n)]
    els = []
    for s, c in zip(syms, counts):
        els += [s] * c
    return {"name": name, "lattice": lat, "symbols": els, "mode": mode, "positions": pos}

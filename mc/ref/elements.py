"""Hand-written reference list of the first 103 elements: (symbol, English name as spelled by IUPAC, lower case)."""
ELEMENTS = [
    ("H", "hydrogen"), ("He", "helium"), ("Li", "lithium"), ("Be", "beryllium"), ("B", "boron"), ("C", "carbon"),
    ("N", "nitrogen"), ("O", "oxygen"), ("F", "fluorine"), ("Ne", "neon"), ("Na", "sodium"), ("Mg", "magnesium"),
    ("Al", "aluminium"), ("Si", "silicon"), ("P", "phosphorus"), ("S", "sulfur"), ("Cl", "chlorine"), ("Ar", "argon"),
    ("K", "potassium"), ("Ca", "calcium"), ("Sc", "scandium"), ("Ti", "titanium"), ("V", "vanadium"), ("Cr", "chromium"),
    ("Mn", "manganese"), ("Fe", "iron"), ("Co", "cobalt"), ("Ni", "nickel"), ("Cu", "copper"), ("Zn", "zinc"),
    ("Ga", "gallium"), ("Ge", "germanium"), ("As", "arsenic"), ("Se", "selenium"), ("Br", "bromine"), ("Kr", "krypton"),
    ("Rb", "rubidium"), ("Sr", "strontium"), ("Y", "yttrium"), ("Zr", "zirconium"), ("Nb", "niobium"), ("Mo", "molybdenum"),
    ("Tc", "technetium"), ("Ru", "ruthenium"), ("Rh", "rhodium"), ("Pd", "palladium"), ("Ag", "silver"), ("Cd", "cadmium"),
    ("In", "indium"), ("Sn", "tin"), ("Sb", "antimony"), ("Te", "tellurium"), ("I", "iodine"), ("Xe", "xenon"),
    ("Cs", "caesium"), ("Ba", "barium"), ("La", "lanthanum"), ("Ce", "cerium"), ("Pr", "praseodymium"), ("Nd", "neodymium"),
    ("Pm", "promethium"), ("Sm", "samarium"), ("Eu", "europium"), ("Gd", "gadolinium"), ("Tb", "terbium"), ("Dy", "dysprosium"),
    ("Ho", "holmium"), ("Er", "erbium"), ("Tm", "thulium"), ("Yb", "ytterbium"), ("Lu", "lutetium"), ("Hf", "hafnium"),
    ("Ta", "tantalum"), ("W", "tungsten"), ("Re", "rhenium"), ("Os", "osmium"), ("Ir", "iridium"), ("Pt", "platinum"),
    ("Au", "gold"), ("Hg", "mercury"), ("Tl", "thallium"), ("Pb", "lead"), ("Bi", "bismuth"), ("Po", "polonium"),
    ("At", "astatine"), ("Rn", "radon"), ("Fr", "francium"), ("Ra", "radium"), ("Ac", "actinium"), ("Th", "thorium"),
    ("Pa", "protactinium"), ("U", "uranium"), ("Np", "neptunium"), ("Pu", "plutonium"), ("Am", "americium"), ("Cm", "curium"),
    ("Bk", "berkelium"), ("Cf", "californium"), ("Es", "einsteinium"), ("Fm", "fermium"), ("Md", "mendelevium"),
    ("No", "nobelium"), ("Lr", "lawrencium"),
]
assert len(ELEMENTS) == 103
# approximate standard atomic weights (4 significant figures suffice to catch a swapped row)
MASS = [1.008, 4.003, 6.941, 9.012, 10.81, 12.01, 14.01, 16.00, 19.00, 20.18, 22.99, 24.31, 26.98, 28.09, 30.97, 32.07, 35.45,
        39.95, 39.10, 40.08, 44.96, 47.87, 50.94, 52.00, 54.94, 55.85, 58.93, 58.69, 63.55, 65.41, 69.72, 72.64, 74.92, 78.96,
        79.90, 83.80, 85.47, 87.62, 88.91, 91.22, 92.91, 95.94, 98.0, 101.1, 102.9, 106.4, 107.9, 112.4, 114.8, 118.7, 121.8,
        127.6, 126.9, 131.3, 132.9, 137.3, 138.9, 140.1, 140.9, 144.2, 145.0, 150.4, 152.0, 157.3, 158.9, 162.5, 164.9, 167.3,
        168.9, 173.0, 175.0, 178.5, 180.9, 183.8, 186.2, 190.2, 192.2, 195.1, 197.0, 200.6, 204.4, 207.2, 209.0, 209.0, 210.0,
        222.0, 223.0, 226.0, 227.0, 232.0, 231.0, 238.0, 237.0, 244.0, 243.0, 247.0, 247.0, 251.0, 252.0, 257.0, 258.0, 259.0, 262.0]
assert len(MASS) == 103

"""
Reference reader / writer for MDL V2000 connection tables by fixed columns (CTfile specification):
  counts line : aaabbblllfffcccsssxxxrrrpppiiimmmvvvvvv  (atoms 1-3, bonds 4-6, version ' V2000' 34-39)
  atom line   : xxxxx.xxxxyyyyy.yyyyzzzzz.zzzz aaaddcccssshhhbbbvvvHHHrrriiimmmnnneee
                (x 1-10, y 11-20, z 21-30, blank 31, symbol 32-34)
  bond line   : 111222tttsssxxxrrrccc
  'M  END', record terminator '$$$$'
Independent of chmpy.
"""


def read_records(text):
    """returns list of dicts(symbols, xyz, bonds); raises ValueError on layout violations"""
    lines = text.split("\n")
    recs = []
    i = 0
    n = len(lines)
    while i < n:
        # skip trailing empties
        if all(not l.strip() for l in lines[i:]):
            break
        if i + 3 >= n:
            raise ValueError("truncated header at line %d" % (i + 1))
        counts = lines[i + 3]
        if len(counts) < 39 or counts[34:39] != "V2000":
            raise ValueError("counts line %d: 'V2000' not in columns 35-39: %r" % (i + 4, counts))
        try:
            na = int(counts[0:3])
            nb = int(counts[3:6])
        except ValueError:
            raise ValueError("counts line %d: atoms/bonds not in columns 1-3/4-6: %r" % (i + 4, counts))
        j = i + 4
        syms, xyz = [], []
        for k in range(na):
            if j >= n:
                raise ValueError("missing atom line")
            l = lines[j]
            if len(l) < 34:
                raise ValueError("atom line %d too short: %r" % (j + 1, l))
            try:
                x, y, z = float(l[0:10]), float(l[10:20]), float(l[20:30])
            except ValueError:
                raise ValueError("atom line %d: coordinates not in columns 1-10/11-20/21-30: %r" % (j + 1, l))
            if l[30] != " ":
                raise ValueError("atom line %d: column 31 not blank: %r" % (j + 1, l))
            s = l[31:34].strip()
            if not s or not s.isalpha():
                raise ValueError("atom line %d: symbol not in columns 32-34: %r" % (j + 1, l))
            syms.append(s)
            xyz.append((x, y, z))
            j += 1
        bonds = []
        for k in range(nb):
            if j >= n:
                raise ValueError("missing bond line")
            l = lines[j]
            try:
                a, b, t = int(l[0:3]), int(l[3:6]), int(l[6:9])
            except ValueError:
                raise ValueError("bond line %d: fields not in 3-column layout: %r" % (j + 1, l))
            if not (1 <= a <= na and 1 <= b <= na):
                raise ValueError("bond line %d refers to atom out of range: %r" % (j + 1, l))
            bonds.append((a, b, t))
            j += 1
        # property block: lines starting with 'M  ' (or other valid prefixes) until 'M  END'
        while j < n and lines[j].rstrip() != "M  END":
            if not lines[j].startswith(("M  ", "A  ", "V  ", "G  ", "S  ")):
                raise ValueError("line %d: expected property line or 'M  END', found %r" % (j + 1, lines[j]))
            j += 1
        if j >= n:
            raise ValueError("record without 'M  END'")
        j += 1
        # data items until $$$$
        term = False
        while j < n:
            if lines[j].rstrip() == "$$$$":
                term = True
                j += 1
                break
            j += 1
        recs.append({"symbols": syms, "xyz": xyz, "bonds": bonds, "terminated": term})
        i = j
    return recs


def write_record(symbols, xyz, bonds=(), title="ref"):
    out = [title, "  reference", ""]
    out.append("%3d%3d  0  0  0  0  0  0  0  0999 V2000" % (len(symbols), len(bonds)))
    for s, (x, y, z) in zip(symbols, xyz):
        out.append("%10.4f%10.4f%10.4f %-3s 0  0  0  0  0  0  0  0  0  0  0  0" % (x, y, z, s))
    for a, b, t in bonds:
        out.append("%3d%3d%3d  0  0  0  0" % (a, b, t))
    out.append("M  END")
    out.append("$$$$")
    return "\n".join(out) + "\n"

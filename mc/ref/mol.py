"""
Reference generator of rigid-molecule crystals and their exact symmetry images (independent of the
library's expansion / connectivity code).  Covalent radii and masses are read from the library's element
table *as data* (the bonding rule d < cov_a + cov_b + 0.4 is the documented definition).
"""
import itertools
import math

import numpy as np
from scipy.spatial import cKDTree

from mc.ref import lattice, symm

BOND_TOL = 0.4
MARGIN = 0.5

# name -> (symbols, cartesian coordinates (A), bonds)
TEMPLATES = {
    "CO": (["C", "O"], [(0.0, 0.0, 0.0), (1.128, 0.0, 0.0)], [(0, 1)]),
    "H2O": (["O", "H", "H"], [(0.0, 0.0, 0.0), (0.757, 0.586, 0.0), (-0.757, 0.586, 0.0)], [(0, 1), (0, 2)]),
    "CO2": (["C", "O", "O"], [(0.0, 0.0, 0.0), (1.16, 0.0, 0.0), (-1.16, 0.0, 0.0)], [(0, 1), (0, 2)]),
    "CH4": (["C", "H", "H", "H", "H"],
            [(0.0, 0.0, 0.0), (0.629, 0.629, 0.629), (-0.629, -0.629, 0.629), (-0.629, 0.629, -0.629), (0.629, -0.629, -0.629)],
            [(0, 1), (0, 2), (0, 3), (0, 4)]),
    # same molecules with the bridging atom listed last: the bond walk must then step from a higher to a lower index
    "OOC": (["O", "O", "C"], [(1.16, 0.0, 0.0), (-1.16, 0.0, 0.0), (0.0, 0.0, 0.0)], [(0, 2), (1, 2)]),
    # a chain H-O-O-H listed so that an INNER atom comes after the neighbour it is reached from and before the next one
    "HOOH_scr": (["H", "O", "H", "O"], [(1.062, 0.6445, 0.6445), (-0.73, 0.0, 0.0), (-1.062, 0.6445, -0.6445), (0.73, 0.0, 0.0)], [(0, 3), (3, 1), (1, 2)]),
    "HOOH_rev": (["O", "H", "O", "H"], [(0.73, 0.0, 0.0), (-1.062, 0.6445, -0.6445), (-0.73, 0.0, 0.0), (1.062, 0.6445, 0.6445)], [(3, 0), (0, 2), (2, 1)]),
    # dihydrogen: a bond between two hydrogens (0.74 A, threshold 1.02 A)
    "H2": (["H", "H"], [(0.0, 0.0, 0.0), (0.74, 0.0, 0.0)], [(0, 1)]),
    # a molecule that is one atom (argon, a lone oxygen as in an oxide ion)
    "Ar": (["Ar"], [(0.0, 0.0, 0.0)], []),
    "O1": (["O"], [(0.0, 0.0, 0.0)], []),
    "HHO": (["H", "H", "O"], [(0.757, 0.586, 0.0), (-0.757, 0.586, 0.0), (0.0, 0.0, 0.0)], [(0, 2), (1, 2)]),
}

ZPRIME = {
    "1": ["H2O"],
    "2eq": ["H2O", "H2O"],
    "2diff": ["H2O", "CO"],
    "1co2": ["CO2"],
    "1ch4": ["CH4"],
    "2ch4co2": ["CH4", "CO2"],
    "1ooc": ["OOC"],
    "2hho_co": ["HHO", "CO"],
    "1hooh_scr": ["HOOH_scr"],
    "2h2_h2o": ["H2", "H2O"],
    "2hooh_rev_h2o": ["HOOH_rev", "H2O"],
    # degenerate sizes: a one-atom molecule before / after an ordinary one, alone, and two of them
    "2ar_h2o": ["Ar", "H2O"],
    "2h2o_ar": ["H2O", "Ar"],
    "1ar": ["Ar"],
    "2o_ar": ["O1", "Ar"],
}

CENTRES = (0.017, 0.137, 0.289, 0.611, 0.983)


def rot(axis, angle):
    axis = np.asarray(axis, dtype=float)
    axis /= np.linalg.norm(axis)
    x, y, z = axis
    c, s = math.cos(angle), math.sin(angle)
    C = 1 - c
    return np.array([[c + x * x * C, x * y * C - z * s, x * z * C + y * s],
                     [y * x * C + z * s, c + y * y * C, y * z * C - x * s],
                     [z * x * C - y * s, z * y * C + x * s, c + z * z * C]])


def orientations(seed=0):
    return [np.eye(3), rot((1, 2, 3), 0.7 + 0.11 * seed), rot((-2, 1, 0.5), 2.1 + 0.07 * seed)]


_ELDATA = None


def element_data():
    """{symbol: (Z, cov, mass)} from the library table, used as data"""
    global _ELDATA
    if _ELDATA is None:
        from chmpy.core.element import Element

        _ELDATA = {}
        for z in range(1, 104):
            e = Element.from_atomic_number(z)
            _ELDATA[e.symbol] = (z, float(e.cov), float(e.mass))
    return _ELDATA


def scaled_cell(number, choice, nops, zprime_n, variant=0):
    """a metrically compatible cell scaled so that every edge >= 12 A and volume ~ 110 A^3 per molecule"""
    base = lattice.compatible_cells(number, choice)[variant]
    M = lattice.cell_matrix(*base)
    v = lattice.volume(M)
    target = max(110.0 * nops * zprime_n, 1.0)
    s = (target / v) ** (1.0 / 3.0)
    s = max(s, 12.0 / min(base[:3]))
    return tuple(round(x * s, 4) for x in base[:3]) + tuple(base[3:])


def build(row, cell, centre, orient, zkind, second_shift=(0.31, 0.23, 0.41)):
    """asymmetric unit (symbols, fractional coordinates, molecule index per atom, template bonds)"""
    M = lattice.cell_matrix(*cell)
    Minv = np.linalg.inv(M)
    symbols, frac, molidx, bonds = [], [], [], []
    for mi, name in enumerate(ZPRIME[zkind]):
        syms, xyz, bnd = TEMPLATES[name]
        xyz = np.asarray(xyz) @ orient.T
        c = np.asarray(centre, dtype=float) + (np.asarray(second_shift) * mi)
        cart = c @ M + xyz
        off = len(symbols)
        symbols += syms
        frac += [tuple(p) for p in (cart @ Minv)]
        molidx += [mi] * len(syms)
        bonds += [(off + a, off + b) for a, b in bnd]
    return {"symbols": symbols, "frac": np.array(frac), "molidx": molidx, "bonds": bonds, "cell": cell, "M": M}


def images(row_ops, asym):
    """
    all symmetry images as whole molecules: list of dict(op index, mol index, frac (n,3) with the centre of
    mass wrapped into [0,1), atoms (asym indices))
    """
    el = element_data()
    out = []
    frac = asym["frac"]
    molidx = np.asarray(asym["molidx"])
    for gi, (R, t) in enumerate(row_ops):
        Rm = np.array(R, dtype=float).reshape(3, 3)
        tv = np.array(t, dtype=float) / 12.0
        img = frac @ Rm.T + tv
        for mi in sorted(set(asym["molidx"])):
            idx = np.nonzero(molidx == mi)[0]
            f = img[idx]
            m = np.array([el[asym["symbols"][i]][2] for i in idx])
            com = (f * m[:, None]).sum(0) / m.sum()
            shift = -np.floor(com + 1e-12)
            out.append({"op": gi, "mol": mi, "frac": f + shift, "atoms": idx, "com": com + shift})
    return out


def precondition(asym, imgs):
    """
    property's precondition, decided by the reference: molecules on general positions (all images distinct and
    apart), every intermolecular contact >= bonding threshold + MARGIN, template bonds at bonding distance,
    non-bonded intramolecular pairs clearly not bonded, centre of mass not within 1e-6 of a cell face.
    Returns (ok, reason).
    """
    el = element_data()
    M = asym["M"]
    syms = asym["symbols"]
    cov = np.array([el[s][1] for s in syms])
    # intramolecular
    cart0 = asym["frac"] @ M
    bonded = set(tuple(sorted(b)) for b in asym["bonds"])
    n = len(syms)
    for i in range(n):
        for j in range(i + 1, n):
            d = np.linalg.norm(cart0[i] - cart0[j])
            thr = cov[i] + cov[j] + BOND_TOL
            if (i, j) in bonded:
                if not d < thr - 0.05:
                    return False, "template bond too long"
            elif d < thr + MARGIN:
                return False, "asymmetric-unit molecules too close"
    for im in imgs:
        if np.any(np.abs(im["com"] - np.rint(im["com"])) < 1e-6):
            return False, "centre of mass on a cell face"
    # intermolecular, periodic: replicate all atoms over the neighbouring cells
    pts, owner, covs = [], [], []
    for k, im in enumerate(imgs):
        pts.append(im["frac"])
        owner += [k] * len(im["atoms"])
        covs += [cov[a] for a in im["atoms"]]
    pts = np.vstack(pts)
    owner = np.array(owner)
    covs = np.array(covs)
    maxthr = 2 * covs.max() + BOND_TOL + MARGIN
    base = pts @ M
    tree = cKDTree(base)
    # neighbouring cells: enough shells to cover the fractional extent of the atoms (molecules are wrapped by their centre
    # of mass only, so a long molecule reaches several cells away)
    reach = [int(np.ceil(pts[:, k].max() - pts[:, k].min())) for k in range(3)]
    for cell in itertools.product(*[range(-r, r + 1) for r in reach]):
        shifted = (pts + np.array(cell)) @ M
        t2 = cKDTree(shifted)
        pairs = tree.sparse_distance_matrix(t2, maxthr, output_type="coo_matrix")
        for i, j, d in zip(pairs.row, pairs.col, pairs.data):
            if owner[i] == owner[j] and cell == (0, 0, 0):
                continue
            if d < covs[i] + covs[j] + BOND_TOL + MARGIN:
                if owner[i] == owner[j]:
                    return False, "molecule touches its own lattice translate"
                return False, "intermolecular contact below threshold+margin (special position or crowded)"
    return True, ""

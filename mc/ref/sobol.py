"""
Reference Sobol evaluation, direct (non-recurrent in the point index): x_i = XOR over the set bits of
gray(i) of the direction numbers V_k; direction numbers from the first Joe-Kuo (new-joe-kuo-6) rows,
hard-coded here.  Point index i >= 0 corresponds to the library's seed i+1.
"""
# dimension d -> (s, a, [m_1..m_s])
JOE_KUO = {
    2: (1, 0, [1]),
    3: (2, 1, [1, 3]),
    4: (3, 1, [1, 3, 1]),
    5: (3, 2, [1, 1, 1]),
    6: (4, 1, [1, 1, 3, 3]),
    7: (4, 4, [1, 3, 5, 13]),
    8: (5, 2, [1, 1, 5, 5, 17]),
    9: (5, 4, [1, 1, 5, 5, 5]),
    10: (5, 7, [1, 1, 7, 11, 19]),
    11: (5, 11, [1, 1, 5, 1, 1]),
    12: (5, 13, [1, 1, 1, 3, 11]),
    13: (5, 14, [1, 3, 5, 5, 31]),
}
BITS = 32


def directions(d, nbits):
    """V_1..V_nbits scaled by 2^32 for dimension d (1-based)"""
    V = [0] * (nbits + 1)
    if d == 1:
        for k in range(1, nbits + 1):
            V[k] = 1 << (BITS - k)
        return V
    s, a, m = JOE_KUO[d]
    for k in range(1, nbits + 1):
        if k <= s:
            V[k] = m[k - 1] << (BITS - k)
        else:
            v = V[k - s] ^ (V[k - s] >> s)
            for l in range(1, s):
                if (a >> (s - 1 - l)) & 1:
                    v ^= V[k - l]
            V[k] = v
    return V


def point(i, d):
    """coordinate d (1-based) of point index i (0-based) as an integer scaled by 2^32"""
    g = i ^ (i >> 1)
    nbits = max(1, g.bit_length())
    V = directions(d, nbits)
    x = 0
    k = 1
    while g:
        if g & 1:
            x ^= V[k]
        g >>= 1
        k += 1
    return x

"""
Reference spherical harmonics (orthonormal, Condon-Shortley phase) from scipy.special.sph_harm_y, an
independent Gauss-Legendre x uniform quadrature, coefficient layouts, and rotation of coefficient
vectors by re-projection.  Independent of chmpy's SHT.
Layouts:  complex: index l(l+1)+m, m=-l..l ;  real (m-major): m=0: l=0..L, m=1: l=1..L, ...
"""
import numpy as np
from scipy.special import sph_harm_y, roots_legendre


def Y(l, m, theta, phi):
    return sph_harm_y(l, m, theta, phi)


def idx_c(l, m):
    return l * (l + 1) + m


def idx_r(L, l, m):
    """position of (l, m>=0) in the m-major real layout"""
    return sum(L + 1 - mm for mm in range(m)) + (l - m)


def lm_complex(L):
    return [(l, m) for l in range(L + 1) for m in range(-l, l + 1)]


def lm_real(L):
    return [(l, m) for m in range(L + 1) for l in range(m, L + 1)]


def quadrature(L, extra=4):
    """nodes (theta, phi) and weights integrating products of two band-limit-L functions exactly"""
    nt = L + 1 + extra
    x, w = roots_legendre(nt)
    theta = np.arccos(x)
    nphi = 2 * L + 2 + extra
    phi = np.arange(nphi) * 2 * np.pi / nphi
    T, P = np.meshgrid(theta, phi, indexing="ij")
    W = np.repeat(w[:, None], nphi, axis=1) * (2 * np.pi / nphi)
    return T, P, W


def basis_matrix(L, theta, phi, lms=None):
    """(len(lms), npoints) matrix of Y_lm at the points"""
    lms = lms or lm_complex(L)
    th = np.asarray(theta).ravel()
    ph = np.asarray(phi).ravel()
    return np.array([Y(l, m, th, ph) for (l, m) in lms])


def synth_complex(L, c, theta, phi):
    th = np.asarray(theta, dtype=float).ravel()
    ph = np.asarray(phi, dtype=float).ravel()
    out = np.zeros(th.shape, dtype=complex)
    c = np.asarray(c)
    for k, (l, m) in enumerate(lm_complex(L)):
        if c[k] != 0:
            out += c[k] * Y(l, m, th, ph)
    return out.reshape(np.shape(theta))


def synth_real(L, c, theta, phi):
    """real-function synthesis from the real (m-major) layout"""
    th = np.asarray(theta, dtype=float).ravel()
    ph = np.asarray(phi, dtype=float).ravel()
    c = np.asarray(c)
    out = np.zeros(th.shape)
    for k, (l, m) in enumerate(lm_real(L)):
        if c[k] != 0:
            out += (1.0 if m == 0 else 2.0) * (c[k] * Y(l, m, th, ph)).real
    return out.reshape(np.shape(theta))


def complete(L, c_real):
    """full complex-layout vector of a real function from its real layout: c(l,-m) = (-1)^m conj c(l,m)"""
    out = np.zeros((L + 1) ** 2, dtype=complex)
    for k, (l, m) in enumerate(lm_real(L)):
        out[idx_c(l, m)] = c_real[k]
        if m > 0:
            out[idx_c(l, -m)] = (-1) ** m * np.conj(c_real[k])
    return out


def project(L, values, T, P, W):
    """complex-layout coefficients of a function sampled on the reference quadrature"""
    th, ph = np.asarray(T).ravel(), np.asarray(P).ravel()
    wv = W.ravel() * np.asarray(values).ravel()
    return np.array([np.sum(np.conj(Y(l, m, th, ph)) * wv) for (l, m) in lm_complex(L)])


def rotate_coefficients(L, c, R):
    """
    coefficients (complex layout) of the rotated function g(x) = f(R^-1 x): synthesise f at R^-1-rotated
    quadrature nodes and re-project (exact for band-limited f)
    """
    T, P, W = quadrature(L)
    xyz = np.stack([np.sin(T) * np.cos(P), np.sin(T) * np.sin(P), np.cos(T)], axis=-1).reshape(-1, 3)
    src = xyz @ np.asarray(R)  # row vectors: R^-1 x = R^T x -> x_row @ R
    th = np.arccos(np.clip(src[:, 2], -1, 1))
    ph = np.arctan2(src[:, 1], src[:, 0])
    vals = synth_complex(L, c, th, ph)
    return project(L, vals, T, P, W)


def rotation_blocks(L, R):
    """
    Wigner-type blocks D^l (complex layout, m = -l..l) of the rotation g(x) = f(R^-1 x):
    c'_l = D^l c_l with D^l[m, m'] = integral conj(Y_lm(x)) Y_lm'(R^-1 x) dx, by exact quadrature.
    """
    T, P, W = quadrature(L)
    th, ph = T.ravel(), P.ravel()
    xyz = np.stack([np.sin(th) * np.cos(ph), np.sin(th) * np.sin(ph), np.cos(th)], axis=-1)
    src = xyz @ np.asarray(R, dtype=float)  # R^-1 x = R^T x  (row vectors: x @ R)
    th2 = np.arccos(np.clip(src[:, 2], -1.0, 1.0))
    ph2 = np.arctan2(src[:, 1], src[:, 0])
    w = W.ravel()
    blocks = []
    for l in range(L + 1):
        A = np.array([Y(l, m, th, ph) for m in range(-l, l + 1)])
        B = np.array([Y(l, m, th2, ph2) for m in range(-l, l + 1)])
        blocks.append((np.conj(A) * w[None, :]) @ B.T)
    return blocks


def apply_blocks(L, blocks, c):
    out = np.zeros((L + 1) ** 2, dtype=complex)
    c = np.asarray(c)
    for l in range(L + 1):
        out[l * l:(l + 1) ** 2] = blocks[l] @ c[l * l:(l + 1) ** 2]
    return out


def real_layout_from_full(L, full):
    return np.array([full[idx_c(l, m)] for (l, m) in lm_real(L)])

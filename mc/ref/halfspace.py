"""
Reference half-space intersection {x : n_i.x <= e_i} by brute force (no polar dual, no convex hull):
vertices = intersections of all plane triples that satisfy every inequality.  Independent of chmpy.
"""
import itertools

import numpy as np


def vertices(normals, energies, tol=1e-9, dedupe_rel=1e-7):
    n = np.asarray(normals, dtype=float)
    e = np.asarray(energies, dtype=float)
    m = len(n)
    idx = np.array(list(itertools.combinations(range(m), 3)))
    if len(idx) == 0:
        return np.zeros((0, 3))
    A = n[idx]  # (T,3,3)
    b = e[idx]  # (T,3)
    det = np.linalg.det(A)
    scale = np.abs(e).max()
    ok = np.abs(det) > 1e-10
    A = A[ok]
    b = b[ok]
    x = np.linalg.solve(A, b[..., None])[..., 0]
    inside = np.all(x @ n.T <= e[None, :] + tol * max(1.0, scale), axis=1)
    x = x[inside]
    return dedupe(x, dedupe_rel * max(1.0, scale))


def dedupe(x, tol):
    out = []
    for p in x:
        for q in out:
            if np.abs(p - q).max() < tol:
                break
        else:
            out.append(p)
    return np.array(out).reshape(-1, 3)


def bounded(normals):
    return np.linalg.matrix_rank(np.asarray(normals, dtype=float), tol=1e-9) == 3 and _positively_spanning(np.asarray(normals, dtype=float))


def _positively_spanning(n):
    # the polyhedron is bounded iff no direction d has n_i.d <= 0 for all i  <=> max_d min_i(-n_i.d) over the box is 0
    from scipy.optimize import linprog

    # maximise t subject to n_i.d + t <= 0, -1 <= d <= 1, t <= 1
    m = len(n)
    c = np.array([0.0, 0.0, 0.0, -1.0])
    A = np.c_[n, np.ones(m)]
    res = linprog(c, A_ub=A, b_ub=np.zeros(m), bounds=[(-1, 1)] * 3 + [(None, 1)], method="highs")
    return not (res.status == 0 and -res.fun > 1e-9)


def volume_and_facets(normals, energies, verts, tol=1e-7):
    """volume = sum_i e_i * area_i / 3 with facet polygons ordered around their normal"""
    n = np.asarray(normals, dtype=float)
    e = np.asarray(energies, dtype=float)
    vol = 0.0
    nfac = 0
    scale = max(1.0, np.abs(e).max())
    for i, (ni, ei) in enumerate(zip(n, e)):
        # a half-space listed twice bounds the region once: its face counts once
        if any(np.abs(n[j] - ni).max() < 1e-12 and abs(e[j] - ei) < 1e-12 * scale for j in range(i)):
            continue
        on = verts[np.abs(verts @ ni - ei) < tol * scale]
        if len(on) < 3:
            continue
        c = on.mean(axis=0)
        u = on[0] - c
        if np.linalg.norm(u) < 1e-12:
            u = on[1] - c
        u /= np.linalg.norm(u)
        w = np.cross(ni, u)
        ang = np.arctan2((on - c) @ w, (on - c) @ u)
        P = on[np.argsort(ang)]
        area = 0.0
        for k in range(1, len(P) - 1):
            area += 0.5 * np.linalg.norm(np.cross(P[k] - P[0], P[k + 1] - P[0]))
        if area > 1e-12:
            nfac += 1
        vol += ei * area / 3.0
    return vol, nfac

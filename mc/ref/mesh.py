"""Reference mesh predicates: directed-edge manifold test, signed volume, winding number. Independent of chmpy."""
import numpy as np


def merge_vertices(verts, faces, tol):
    """merge coincident vertices (grid hashing + exact check), drop degenerate faces; returns (verts, faces, n_degenerate)"""
    verts = np.asarray(verts, dtype=float)
    faces = np.asarray(faces, dtype=np.int64)
    key = np.round(verts / tol).astype(np.int64)
    _, first, inv = np.unique(key, axis=0, return_index=True, return_inverse=True)
    inv = inv.reshape(-1)
    nv = verts[first]
    nf = inv[faces]
    deg = (nf[:, 0] == nf[:, 1]) | (nf[:, 1] == nf[:, 2]) | (nf[:, 0] == nf[:, 2])
    return nv, nf[~deg], int(deg.sum())


def manifold_report(faces, nverts):
    """
    closed oriented 2-manifold edge condition: every directed edge occurs exactly once and its reverse exactly once.
    returns dict(ok, reason)
    """
    faces = np.asarray(faces, dtype=np.int64)
    if faces.size == 0:
        return {"ok": False, "reason": "no faces"}
    if faces.min() < 0 or faces.max() >= nverts:
        return {"ok": False, "reason": "face index out of range"}
    if ((faces[:, 0] == faces[:, 1]) | (faces[:, 1] == faces[:, 2]) | (faces[:, 0] == faces[:, 2])).any():
        return {"ok": False, "reason": "face with a repeated vertex"}
    e = np.concatenate([faces[:, [0, 1]], faces[:, [1, 2]], faces[:, [2, 0]]])
    code = e[:, 0] * (nverts + 1) + e[:, 1]
    u, c = np.unique(code, return_counts=True)
    if (c > 1).any():
        return {"ok": False, "reason": "%d directed edge(s) used more than once (inconsistent orientation or non-manifold edge)" % int((c > 1).sum())}
    rev = e[:, 1] * (nverts + 1) + e[:, 0]
    missing = ~np.isin(rev, u)
    if missing.any():
        return {"ok": False, "reason": "%d edge(s) without an opposite partner (mesh not closed)" % int(missing.sum())}
    return {"ok": True, "reason": ""}


def signed_volume(verts, faces):
    v = np.asarray(verts, dtype=float)
    f = np.asarray(faces, dtype=np.int64)
    a, b, c = v[f[:, 0]], v[f[:, 1]], v[f[:, 2]]
    return float(np.einsum("ij,ij->i", a, np.cross(b, c)).sum() / 6.0)


def winding_numbers(verts, faces, points):
    """generalised winding number (solid angle / 4 pi) of the oriented mesh around each point"""
    v = np.asarray(verts, dtype=float)
    f = np.asarray(faces, dtype=np.int64)
    P = np.asarray(points, dtype=float).reshape(-1, 3)
    out = np.zeros(len(P))
    for k, p in enumerate(P):
        a = v[f[:, 0]] - p
        b = v[f[:, 1]] - p
        c = v[f[:, 2]] - p
        la, lb, lc = np.linalg.norm(a, axis=1), np.linalg.norm(b, axis=1), np.linalg.norm(c, axis=1)
        num = np.einsum("ij,ij->i", a, np.cross(b, c))
        den = la * lb * lc + np.einsum("ij,ij->i", a, b) * lc + np.einsum("ij,ij->i", b, c) * la + np.einsum("ij,ij->i", c, a) * lb
        out[k] = np.arctan2(num, den).sum() / (2 * np.pi)
    return out

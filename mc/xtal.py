"""
Helpers around the real chmpy Crystal: construction from plain data, public-state extraction,
generic canonicalisation of arbitrary object graphs (state digests, DESIGN 1.3) and tolerant structural
comparison of answers.
"""
import numpy as np

from mc.core import digest

ROUND = 9


def make_crystal(number, choice, cell, symbols, frac, labels=None, occupation=None, **props):
    from chmpy.crystal import Crystal, SpaceGroup, UnitCell, AsymmetricUnit
    from chmpy.core.element import Element

    uc = UnitCell.from_lengths_and_angles(list(cell[:3]), list(cell[3:]), unit="degrees")
    sg = SpaceGroup(number, choice=choice)
    els = [Element.from_string(s) if isinstance(s, str) else Element.from_atomic_number(int(s)) for s in symbols]
    kw = {}
    if occupation is not None:
        kw["occupation"] = np.asarray(occupation, dtype=float)
    asym = AsymmetricUnit(els, np.array(frac, dtype=float), labels=labels, **kw)
    return Crystal(uc, sg, asym, **props)


def public_state(c):
    """plain-data copy of what defines the crystal: cell, space group, asymmetric unit"""
    sg = c.space_group
    asym = c.asymmetric_unit
    return {
        "direct": np.array(c.unit_cell.direct, dtype=float).copy(),
        "lengths": [float(x) for x in c.unit_cell.lengths],
        "angles": [float(x) for x in c.unit_cell.angles],
        "number": int(sg.international_tables_number),
        "choice": sg.choice,
        "codes": sorted(int(s.integer_code) for s in sg.symmetry_operations),
        "Z": [int(z) for z in asym.atomic_numbers],
        "labels": [str(x) for x in asym.labels],
        "pos": np.array(asym.positions, dtype=float).copy(),
        "occ": None if "occupation" not in asym.properties else np.array(asym.properties["occupation"], dtype=float).copy(),
    }


def fresh_from_state(ps):
    """a freshly constructed Crystal with the same cell, space group and asymmetric unit"""
    from chmpy.crystal import Crystal, SpaceGroup, UnitCell, AsymmetricUnit
    from chmpy.core.element import Element

    uc = UnitCell(ps["direct"].copy())
    sg = SpaceGroup(ps["number"], choice=ps["choice"])
    kw = {}
    if ps["occ"] is not None:
        kw["occupation"] = ps["occ"].copy()
    asym = AsymmetricUnit([Element.from_atomic_number(z) for z in ps["Z"]], ps["pos"].copy(), labels=list(ps["labels"]), **kw)
    return Crystal(uc, sg, asym)


def canon(obj, _depth=0, _seen=None):
    """canonical nested-tuple form of an arbitrary object graph (floats rounded to 1e-9)"""
    import scipy.sparse as sp

    if _seen is None:
        _seen = set()
    if _depth > 12:
        return ("<deep>",)
    if obj is None or isinstance(obj, (bool, int, str, bytes)):
        return obj
    if isinstance(obj, (float, np.floating)):
        return round(float(obj), ROUND) + 0.0
    if isinstance(obj, (np.integer,)):
        return int(obj)
    if isinstance(obj, (np.bool_,)):
        return bool(obj)
    if isinstance(obj, complex):
        return (round(obj.real, ROUND), round(obj.imag, ROUND))
    if isinstance(obj, np.ndarray):
        if obj.dtype.kind in "fc":
            return ("nd", obj.shape, digest(np.round(obj, ROUND).astype(obj.dtype).tobytes() if obj.dtype.kind == "f"
                                           else np.round(obj, ROUND).tobytes()))
        if obj.dtype.kind in "iub":
            return ("nd", obj.shape, digest(np.ascontiguousarray(obj).astype(np.int64).tobytes()))
        return ("ndo", obj.shape, tuple(canon(x, _depth + 1, _seen) for x in obj.ravel().tolist()))
    if sp.issparse(obj):
        coo = obj.tocoo()
        items = sorted(zip(coo.row.tolist(), coo.col.tolist(), [round(float(v), ROUND) for v in coo.data]))
        return ("sparse", obj.shape, tuple(items))
    if isinstance(obj, dict):
        return ("dict", tuple(sorted(((repr(k), canon(v, _depth + 1, _seen)) for k, v in obj.items()), key=lambda kv: kv[0])))
    if isinstance(obj, (list, tuple)):
        return ("seq", tuple(canon(v, _depth + 1, _seen) for v in obj))
    if isinstance(obj, (set, frozenset)):
        return ("set", tuple(sorted(repr(canon(v, _depth + 1, _seen)) for v in obj)))
    if callable(obj) and not hasattr(obj, "__dict__"):
        return ("callable", getattr(obj, "__name__", "?"))
    oid = id(obj)
    if oid in _seen:
        return ("<cycle %s>" % type(obj).__name__,)
    _seen.add(oid)
    try:
        d = vars(obj)
    except TypeError:
        return ("repr", repr(obj))
    out = ("obj", type(obj).__name__, tuple(sorted((k, canon(v, _depth + 1, _seen)) for k, v in d.items())))
    _seen.discard(oid)
    return out


def state_digest(c):
    """digest of the full instance state of a crystal (public fields + memo footprint + properties)"""
    return digest(repr(canon(c)))


def public_digest(c):
    ps = public_state(c)
    return digest(repr(canon(ps)))


class Mismatch(Exception):
    pass


def compare(a, b, tol=1e-7, path="ans"):
    """tolerant structural equality; raises Mismatch(path, detail)"""
    import scipy.sparse as sp

    if isinstance(a, (float, np.floating, int, np.integer)) and isinstance(b, (float, np.floating, int, np.integer)) \
            and not isinstance(a, bool) and not isinstance(b, bool):
        if not abs(float(a) - float(b)) <= tol * max(1.0, abs(float(b))):
            raise Mismatch("%s: %r != %r" % (path, a, b))
        return
    if isinstance(a, np.ndarray) or isinstance(b, np.ndarray):
        a = np.asarray(a)
        b = np.asarray(b)
        if a.shape != b.shape:
            raise Mismatch("%s: shape %s != %s" % (path, a.shape, b.shape))
        if a.dtype.kind in "fiu" and b.dtype.kind in "fiu":
            if a.size and not np.allclose(a, b, rtol=0, atol=tol * max(1.0, float(np.abs(b).max()))):
                raise Mismatch("%s: arrays differ by %g" % (path, float(np.abs(a - b).max())))
        else:
            if not np.array_equal(a, b):
                raise Mismatch("%s: arrays differ" % path)
        return
    if sp.issparse(a) or sp.issparse(b):
        if not (sp.issparse(a) and sp.issparse(b)) or a.shape != b.shape:
            raise Mismatch("%s: sparse shape" % path)
        d = abs(a.tocsr() - b.tocsr())
        if d.nnz and d.max() > tol:
            raise Mismatch("%s: sparse matrices differ by %g" % (path, d.max()))
        return
    if isinstance(a, dict) and isinstance(b, dict):
        if set(map(repr, a.keys())) != set(map(repr, b.keys())):
            raise Mismatch("%s: keys %s != %s" % (path, sorted(map(repr, a.keys())), sorted(map(repr, b.keys()))))
        kb = {repr(k): k for k in b}
        for k in a:
            compare(a[k], b[kb[repr(k)]], tol, "%s[%r]" % (path, k))
        return
    if isinstance(a, (list, tuple)) and isinstance(b, (list, tuple)):
        if len(a) != len(b):
            raise Mismatch("%s: length %d != %d" % (path, len(a), len(b)))
        for i, (x, y) in enumerate(zip(a, b)):
            compare(x, y, tol, "%s[%d]" % (path, i))
        return
    if isinstance(a, (str, bytes, bool, type(None))) or isinstance(b, (str, bytes, bool, type(None))):
        if a != b:
            raise Mismatch("%s: %r != %r" % (path, a, b))
        return
    if type(a).__name__ != type(b).__name__:
        raise Mismatch("%s: type %s != %s" % (path, type(a).__name__, type(b).__name__))
    if hasattr(a, "__dict__"):
        compare(_objproj(a), _objproj(b), tol, path + "<%s>" % type(a).__name__)
        return
    if a != b:
        raise Mismatch("%s: %r != %r" % (path, a, b))


def plain(o, _depth=0):
    """answers as plain picklable data: library objects replaced by what a user can observe of them (see _objproj)"""
    import scipy.sparse as sp

    if _depth > 10 or o is None or isinstance(o, (bool, int, float, str, bytes, complex, np.generic, np.ndarray)) or sp.issparse(o):
        return o
    if isinstance(o, dict):
        return {k: plain(v, _depth + 1) for k, v in o.items()}
    if isinstance(o, (list, tuple)):
        return [plain(v, _depth + 1) for v in o]
    if isinstance(o, (set, frozenset)):
        return sorted(repr(plain(v, _depth + 1)) for v in o)
    if hasattr(o, "__dict__"):
        return {"__type__": type(o).__name__, "proj": plain(_objproj(o), _depth + 1)}
    return repr(o)


def _objproj(o):
    """projection of library objects to plain data (only what a user can observe)"""
    n = type(o).__name__
    if n == "Molecule":
        return {"Z": np.asarray(o.atomic_numbers), "pos": np.asarray(o.positions),
                "props": {k: v for k, v in o.properties.items() if k in ("unit_cell_atoms", "asymmetric_unit_atoms",
                                                                           "asymmetric_unit_labels", "generator_symop")}}
    if n == "Crystal":
        return public_state(o)
    if n == "Element":
        return {"Z": o.atomic_number}
    return {k: v for k, v in vars(o).items() if not callable(v)}


def image_separation(ops, frac, M=None):
    """
    smallest separation between two distinct symmetry images (periodic) of the given sites: in fractional units
    (Euclidean norm of the fractional difference) if M is None, else in Angstrom.  Exactly coinciding images of the
    SAME site (a special position) are ignored; coinciding images of DIFFERENT sites count as separation 0.
    """
    from scipy.spatial import cKDTree
    import itertools as it

    frac = np.asarray(frac, dtype=float).reshape(-1, 3)
    pts, parent = [], []
    for (R, t) in ops:
        Rm = np.array(R, dtype=float).reshape(3, 3)
        pts.append(np.mod(frac @ Rm.T + np.array(t, dtype=float) / 12.0, 1.0))
        parent.append(np.arange(len(frac)))
    P = np.vstack(pts)
    par = np.concatenate(parent)
    P[P >= 1.0] = 0.0
    kmax = min(len(P), 2 + 2 * len(ops))
    best = np.inf

    def scan(d, idx):
        nonlocal best
        d = np.atleast_2d(d)
        idx = np.atleast_2d(idx)
        same_site = par[idx] == par[:, None]
        coincide = d < 1e-9
        if (coincide & ~same_site).any():
            best = 0.0
        nz = d[~coincide]
        if nz.size:
            best = min(best, float(nz.min()))

    if M is None:
        tree = cKDTree(P, boxsize=1.0 + 1e-15)
        d, idx = tree.query(P, k=kmax)
        scan(d, idx)
        return best
    C0 = P @ M
    tree = cKDTree(C0)
    for cell in it.product((-1, 0, 1), repeat=3):
        d, idx = tree.query((P + np.array(cell)) @ M, k=kmax)
        scan(d, idx)
    return best


def answer_digest(ans):
    """digest of an answer as a user can observe it (library objects through their projections), order-sensitive"""
    def proj(o, depth=0):
        import scipy.sparse as sp

        if depth > 10:
            return "<deep>"
        if isinstance(o, (list, tuple)):
            return [proj(x, depth + 1) for x in o]
        if isinstance(o, dict):
            return {repr(k): proj(v, depth + 1) for k, v in o.items()}
        if isinstance(o, np.ndarray) or sp.issparse(o) or isinstance(o, (str, bytes, int, float, bool, type(None), np.generic)):
            return o
        if hasattr(o, "__dict__"):
            return proj(_objproj(o), depth + 1)
        return o
    return digest(repr(canon(proj(ans))))

"""entry point: ./check <Cxx> [--tier quick|thorough] [--replay file]"""
import argparse
import importlib
import json
import os
import subprocess
import sys
import traceback

HERE = os.path.dirname(os.path.abspath(__file__))
VERIF = os.path.dirname(HERE)
REPO_SRC = os.path.join(os.environ.get("VERIF_REPO", "/repo"), "src")
sys.path.insert(0, VERIF)
sys.path.insert(0, REPO_SRC)
sys.dont_write_bytecode = True

import logging  # noqa: E402

logging.disable(logging.CRITICAL)
import warnings  # noqa: E402

warnings.filterwarnings("ignore")


def validate_evidence(path):
    schema = "/root/.vp/EVIDENCE.schema.json"
    if not os.path.exists(schema):
        schema = os.path.join(VERIF, "mc", "EVIDENCE.schema.json")
    code = (
        "import json,jsonschema,sys;"
        "jsonschema.validate(json.load(open(sys.argv[1])), json.load(open(sys.argv[2])))"
    )
    try:
        r = subprocess.run(["python3-vt", "-c", code, path, schema], capture_output=True, text=True, timeout=60)
    except Exception as e:  # tooling interpreter missing: not fatal
        print("note: evidence schema self-validation skipped (%s)" % e)
        return True
    if r.returncode != 0:
        print("HARNESS-ERROR evidence file does not validate:\n" + r.stderr[-2000:])
        return False
    return True


def main():
    ap = argparse.ArgumentParser()
    ap.add_argument("pid")
    ap.add_argument("--tier", default=os.environ.get("VERIF_TIER", "quick"))
    ap.add_argument("--replay", default=None)
    ap.add_argument("--no-confirm", action="store_true")
    a = ap.parse_args()
    pid = a.pid.upper()
    tier = a.tier if a.tier in ("quick", "thorough") else "quick"
    try:
        seed = int(os.environ.get("VERIF_SEED", "0"))
    except ValueError:
        seed = 0

    import chmpy  # noqa: F401  (fail early and loudly if the tree does not import)
    from mc.core import Ctx

    mod = importlib.import_module("mc.checks.%s" % pid.lower())
    ctx = Ctx(pid, tier, seed, mod.LEVEL)
    if a.replay:
        rec = json.load(open(a.replay))
        if isinstance(rec.get("case"), dict) and rec["case"].get("__env__") == "hostile" and os.environ.get("VERIF_ENVMODE") != "hostile":
            # the case was seen in the hostile environment only: replay it there (fresh interpreter, python -O, DEBUG logging, ...)
            from mc.core import HOSTILE_ENV
            import tempfile

            d = tempfile.mkdtemp(prefix="verif_hostile_replay_")
            try:
                r = subprocess.run([sys.executable, "-O", "-B", os.path.abspath(__file__), pid, "--tier", tier, "--replay", os.path.abspath(a.replay)],
                                   env=dict(os.environ, **dict(HOSTILE_ENV, PYTHONHASHSEED=str(rec["case"].get("__hashseed__", HOSTILE_ENV["PYTHONHASHSEED"])))), cwd=d)
            finally:
                import shutil

                shutil.rmtree(d, ignore_errors=True)
            return r.returncode
        if os.environ.get("VERIF_ENVMODE") == "hostile":
            from mc.core import enter_hostile_process

            enter_hostile_process()
        ctx.log("replaying", a.replay, "key=", rec.get("key"))
        if isinstance(rec["case"], dict) and rec["case"].get("kind") == "exception":
            print("replay: this violation was an exception inside a worker chunk; re-running the whole check")
            mod.run(ctx)
        else:
            from mc.core import guarded

            guarded(lambda part, chunk: mod.replay(part, chunk), ctx, rec["case"], {})
        # a replay reports only the failure it was asked about (or any, if it changed key)
        rc, _ = ctx.finish(replay_mode=True)
        if rc == 0:
            print("replay: case passes")
        return rc
    try:
        mod.run(ctx)
    except Exception:
        traceback.print_exc()
        print("HARNESS-ERROR property=%s check crashed" % pid)
        return 2
    rc, paths = ctx.finish()
    ok = validate_evidence(os.path.join(os.environ.get("VERIF_OUT", VERIF), "evidence", "%s.json" % pid))
    ctx.log(
        "evaluations=%d states=%d transitions=%d traces=%d outcomes=%d exhaustive=%s wall=%.1fs"
        % (ctx.evaluations, len(ctx.states) + ctx.state_count, ctx.transitions, ctx.traces, len(ctx.outcomes), ctx.exhaustive,
           __import__("time").time() - ctx.t0)
    )
    if rc == 1 and paths and not a.no_confirm:
        # determinism: the first violating case must fail again in a fresh process
        env = dict(os.environ)
        r = subprocess.run(
            [sys.executable, "-B", os.path.abspath(__file__), pid, "--tier", tier, "--replay", paths[0]],
            capture_output=True, text=True, env=env,
        )
        if r.returncode != 1:
            print("HARNESS-NONDETERMINISM property=%s: replay of %s did not reproduce (rc=%d)\n%s"
                  % (pid, paths[0], r.returncode, (r.stdout + r.stderr)[-1500:]))
            return 2
        print("replay in a fresh process reproduced the first violation")
    if not ok and rc == 0:
        return 2
    return rc


if __name__ == "__main__":
    sys.exit(main())

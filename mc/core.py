"""
Common machinery of the bounded-exhaustive checks (DESIGN.md section 1).

A check module (mc/checks/cXX.py) exposes

    PROPERTY = "Cxx"
    LEVEL    = "model_checking" | "exploration"
    def run(ctx)            # enumerate the bounded space, call the real code, feed ctx
    def replay(ctx, case)   # re-execute exactly one case (a dict written to a replay file)

Everything a check learns goes through the `Ctx` object: counters for the
evidence file, distinct states / outcomes, failures.  A *failure* carries a
canonical `key` (what fails, specific enough that a different failure of the
same property has another key), a human readable `what`, and a JSON `case`
from which the single execution can be replayed without the explorer.

Failures whose key is listed in /verif/known_findings.jsonl (status "known")
are printed as KNOWN-FINDING and do not fail the check; every other failure is
a VIOLATION.  The file is only ever read here.
"""
import hashlib
import json
import os
import sys
import time
import fnmatch
import multiprocessing as mp

VERIF = os.path.dirname(os.path.dirname(os.path.abspath(__file__)))
# runs against a scratch tree (tools/seedtest.sh sets VERIF_OUT) keep their evidence / replay files away from /verif's own
EVIDENCE_DIR = os.path.join(os.environ.get("VERIF_OUT", VERIF), "evidence")
REPLAY_DIR = os.path.join(os.environ.get("VERIF_OUT", VERIF), "replay")
KNOWN_FILE = os.path.join(VERIF, "known_findings.jsonl")

NPROC = int(os.environ.get("VERIF_NPROC", "16"))


def digest(obj):
    """stable short digest of a JSON-able / repr-able object"""
    if not isinstance(obj, (bytes, bytearray)):
        obj = repr(obj).encode()
    return hashlib.blake2b(obj, digest_size=8).hexdigest()


def jsonable(x):
    """convert numpy containers to plain python for replay files / samples"""
    import numpy as np

    if isinstance(x, dict):
        return {str(k): jsonable(v) for k, v in x.items()}
    if isinstance(x, (list, tuple, set, frozenset)):
        return [jsonable(v) for v in x]
    if isinstance(x, np.ndarray):
        return jsonable(x.tolist())
    if isinstance(x, (np.integer,)):
        return int(x)
    if isinstance(x, (np.floating,)):
        return float(x)
    if isinstance(x, (np.bool_,)):
        return bool(x)
    if isinstance(x, complex):
        return [x.real, x.imag]
    if isinstance(x, (str, int, float, bool)) or x is None:
        return x
    return repr(x)


class Failure:
    __slots__ = ("key", "what", "case")

    def __init__(self, key, what, case):
        self.key = key
        self.what = what
        self.case = case

    def to_tuple(self):
        return (self.key, self.what, self.case)


class Part:
    """
    Partial result of one worker chunk; picklable, mergeable.  Workers never
    print and never decide known/unknown, they only record.
    """

    def __init__(self):
        self.evaluations = 0
        self.transitions = 0
        self.traces = 0
        self.states = set()
        self.state_count = 0  # states counted in bulk (distinct by construction)
        self.outcomes = set()
        self.nontrivial = set()
        self.failures = []
        self.samples = []
        self.worst = {}
        self.counters = {}
        self.skipped = {}
        self.extra = []  # free-form results returned to the driver (merged in chunk order)

    # --- recording -------------------------------------------------------
    def ev(self, n=1):
        self.evaluations += n

    def tr(self, n=1):
        self.transitions += n

    def trace(self, n=1):
        self.traces += n

    def nstates(self, n):
        self.state_count += n

    def state(self, key):
        self.states.add(key if isinstance(key, (int, str)) else digest(key))

    def outcome(self, key):
        self.outcomes.add(key if isinstance(key, (int, str)) else digest(key))

    def nontriv(self, key):
        self.nontrivial.add(key if isinstance(key, (int, str)) else digest(key))

    def sample(self, obj, limit=3):
        if len(self.samples) < limit:
            self.samples.append(jsonable(obj))

    def dev(self, name, value):
        value = float(value)
        if value != value:
            value = float("inf")
        if value > self.worst.get(name, -1.0):
            self.worst[name] = value

    def count(self, name, n=1):
        self.counters[name] = self.counters.get(name, 0) + n

    def skip(self, why, n=1):
        self.skipped[why] = self.skipped.get(why, 0) + n

    def fail(self, key, what, case):
        # keep at most a handful of failures per key per chunk
        k = sum(1 for f in self.failures if f[0] == key)
        if k < 2:
            self.failures.append((key, what, jsonable(case)))
        self.count("failures_total")

    def merge(self, other):
        self.evaluations += other.evaluations
        self.transitions += other.transitions
        self.traces += other.traces
        self.states |= other.states
        self.state_count += other.state_count
        self.outcomes |= other.outcomes
        self.nontrivial |= other.nontrivial
        self.failures.extend(other.failures)
        for s in other.samples:
            if len(self.samples) < 6:
                self.samples.append(s)
        for k, v in other.worst.items():
            if v > self.worst.get(k, -1.0):
                self.worst[k] = v
        for k, v in other.counters.items():
            self.counters[k] = self.counters.get(k, 0) + v
        for k, v in other.skipped.items():
            self.skipped[k] = self.skipped.get(k, 0) + v
        self.extra.extend(other.extra)


def load_known():
    known, fixed = {}, []
    if os.path.exists(KNOWN_FILE):
        for line in open(KNOWN_FILE):
            line = line.strip()
            if not line or line.startswith("#"):
                continue
            rec = json.loads(line)
            if rec.get("status") == "known":
                known.setdefault(rec["property"], []).append(rec)
            else:
                fixed.append(rec)
    return known, fixed


def guarded(fn, part, chunk, kw):
    """
    run one chunk; an exception escaping the oracle code (typically because the library returned something
    malformed that the comparison could not even digest) is reported as a failure of the property, with the
    innermost frames as its description, instead of crashing the run
    """
    import traceback

    try:
        fn(part, chunk, **kw)
    except Exception as e:  # noqa: BLE001
        tb = traceback.extract_tb(e.__traceback__)
        where = ["%s:%s" % (os.path.basename(f.filename), f.name) for f in tb[-3:]]
        part.fail("exception:%s:%s" % (type(e).__name__, where[-1] if where else "?"),
                  "unhandled %s while checking: %s [%s]" % (type(e).__name__, str(e)[:160], " < ".join(reversed(where))),
                  {"kind": "exception", "chunk": jsonable(chunk) if len(repr(chunk)) < 2000 else repr(chunk)[:2000]})


def _call(args):
    fn, chunk, kw = args
    part = Part()
    guarded(fn, part, chunk, kw)
    return part


# ---------------------------------------------------------------------------------------------------------
# the process environment as one more explored dimension.  A property must not depend on things outside the
# arguments: whether asserts are compiled in (python -O), the logging level (the repository's own pytest.ini runs
# at DEBUG), the string hash seed, the working directory, numpy's print options.  Besides the ordinary pass, a
# fixed sample of the jobs of every pmap call (the last job of every job kind) is executed once more in a FRESH
# interpreter started in that "hostile" environment; the job function and its arguments travel by pickle, the
# resulting Part comes back by pickle.  Failures seen there carry the key prefix "env-hostile:" and replay there.
HOSTILE_ENV = {"PYTHONHASHSEED": "4242", "VERIF_ENVMODE": "hostile"}
HOSTILE_WHAT = "python -O, DEBUG logging on the root and chmpy loggers, another PYTHONHASHSEED (cycling through 8 values), another working directory, numpy print options precision=0/threshold=4, after ~115 public calls with invalid input have failed in the same process"
HOSTILE_MAX_JOBS = 8


def enter_hostile_process():
    """called first thing in the fresh interpreter"""
    import logging

    import numpy as np

    logging.getLogger().addHandler(logging.NullHandler())
    logging.getLogger().setLevel(logging.DEBUG)
    logging.getLogger("chmpy").setLevel(logging.DEBUG)
    np.set_printoptions(precision=0, threshold=4, edgeitems=1)
    # ... and a process in which ~115 public calls with invalid input have already failed (mc/aftermath.py): "after an error"
    if os.environ.get("VERIF_NO_AFTERMATH"):
        return 0, 0
    from mc import aftermath

    return aftermath.provoke_all()


def _hostile_main(infile, outfile):
    import importlib
    import pickle

    nfailed, npassed = enter_hostile_process()
    modname, fname, chunk, kw = pickle.load(open(infile, "rb"))
    fn = getattr(importlib.import_module(modname), fname)
    part = Part()
    if npassed < 0:
        part.fail("harness:aftermath-setup", "the series of failing calls could not be set up", {"kind": "harness"})
    part.counters["aftermath_failed_calls_before_the_job"] = nfailed
    guarded(fn, part, chunk, kw)
    pickle.dump(part, open(outfile, "wb"))


HOSTILE_HASH_SEEDS = ("4242", "2", "5", "7", "1", "3", "11", "13")


def run_hostile(fn, chunk, kw, index=0):
    """execute fn(part, chunk, **kw) in a fresh interpreter in the hostile environment; returns the Part (or one holding a harness failure)"""
    import pickle
    import subprocess
    import sys
    import tempfile

    from mc.paths import REPO_SRC

    d = tempfile.mkdtemp(prefix="verif_hostile_")
    try:
        pickle.dump((fn.__module__, fn.__name__, chunk, kw), open(os.path.join(d, "in.pkl"), "wb"))
        code = "import sys; sys.path[:0] = [%r, %r]; from mc import core; core._hostile_main(sys.argv[1], sys.argv[2])" % (VERIF, REPO_SRC)
        r = subprocess.run([sys.executable, "-O", "-B", "-c", code, os.path.join(d, "in.pkl"), os.path.join(d, "out.pkl")],
                           capture_output=True, text=True, env=dict(os.environ, **dict(HOSTILE_ENV, PYTHONHASHSEED=HOSTILE_HASH_SEEDS[index % len(HOSTILE_HASH_SEEDS)])), cwd=d)
        if r.returncode != 0 or not os.path.exists(os.path.join(d, "out.pkl")):
            part = Part()
            part.fail("harness:hostile-interpreter", "the fresh interpreter for %s failed: %s" % (fn.__name__, r.stderr[-300:]), {"kind": "harness"})
            return part
        part = pickle.load(open(os.path.join(d, "out.pkl"), "rb"))
    finally:
        import shutil

        shutil.rmtree(d, ignore_errors=True)
    for i, (key, what, case) in enumerate(part.failures):
        if not key.startswith("harness:"):
            case = dict(case) if isinstance(case, dict) else {"case": case}
            case["__env__"] = "hostile"
            case["__hashseed__"] = HOSTILE_HASH_SEEDS[index % len(HOSTILE_HASH_SEEDS)]
            part.failures[i] = ("env-hostile:" + key, what + " [in a fresh interpreter with " + HOSTILE_WHAT + "]", case)
    part.counters["hostile_env_jobs"] = part.counters.get("hostile_env_jobs", 0) + 1
    return part


def _call_hostile(args):
    return run_hostile(*args)


def hostile_sample(fn, chunks, thorough=False):
    """
    jobs to repeat in the hostile environment: going backwards through the chunks, every chunk that holds a job KIND not seen yet
    (kind = the leading strings / booleans of a tuple job, the "kind" of a dict job; a chunk that is a list of jobs has the kinds of
    all its jobs), at most HOSTILE_MAX_JOBS; the thorough tier also takes the first chunk of every kind and three times as many
    """
    def kind1(c):
        if isinstance(c, dict):
            return ("d", c.get("kind"))
        if isinstance(c, (tuple, list)) and len(c):
            flags = tuple(x for x in c if isinstance(x, (str, bool)) or x is None)[:2]
            if flags:
                return ("t",) + flags
            if isinstance(c[0], dict) and "kind" in c[0]:
                return ("td", c[0]["kind"])
        return None

    def kinds(c):
        k = kind1(c)
        if k is not None:
            return {k}
        if isinstance(c, (tuple, list)) and len(c) and isinstance(c[0], (tuple, list, dict)):
            ks = {kind1(e) for e in c}
            ks.discard(None)
            if ks:
                return ks
        return {("f", fn.__name__)}

    limit = HOSTILE_MAX_JOBS * (3 if thorough else 1)
    out, covered = [], set()
    for c in reversed(chunks):
        ks = kinds(c)
        if not ks <= covered:
            out.append(c)
            covered |= ks
    if thorough:
        seen = set()
        for c in chunks:
            ks = kinds(c)
            if not ks <= seen and not any(c is o for o in out):
                out.append(c)
            seen |= ks
    return out[:limit]


class Ctx(Part):
    def __init__(self, pid, tier, seed, level):
        super().__init__()
        self.pid = pid
        self.tier = tier
        self.seed = seed
        self.level = level
        self.t0 = time.time()
        self.rule = ""
        self.exhaustive = True
        self.assumptions = []
        self.bounds = {}
        self.notes = []
        self.caps = []
        self.known, _ = load_known()

    @property
    def thorough(self):
        return self.tier == "thorough"

    def log(self, *a):
        print("[%s %6.1fs]" % (self.pid, time.time() - self.t0), *a, flush=True)

    # --- parallel map over chunks ---------------------------------------
    def pmap(self, fn, chunks, nproc=None, hostile_all=False, **kw):
        """
        fn(part, chunk, **kw) is executed for every chunk in a pool of forked
        workers (chmpy already imported in the parent); partial results are
        merged in chunk order so output is identical from run to run.
        """
        chunks = list(chunks)
        nproc = min(nproc or NPROC, max(1, len(chunks)))
        # hostile_all: cheap sweeps are repeated in the hostile environment completely, not by sample
        sample = [] if (os.environ.get("VERIF_ENVMODE") == "hostile" or os.environ.get("VERIF_NO_HOSTILE")) else (list(chunks) if hostile_all else hostile_sample(fn, chunks, self.thorough))
        if nproc == 1 or os.environ.get("VERIF_SERIAL"):
            for c in chunks:
                p = Part()
                guarded(fn, p, c, kw)
                self.merge(p)
            for i, c in enumerate(sample):
                self.merge_hostile(run_hostile(fn, c, kw, i))
            return
        with mp.get_context("fork").Pool(nproc) as pool:
            hostile = pool.map_async(_call_hostile, [(fn, c, kw, i) for i, c in enumerate(sample)], chunksize=1) if sample else None
            # a worker killed from outside (out of memory) makes multiprocessing.Pool wait for ever: every result is awaited with a
            # timeout, and a lost job is a failure of the run (exit 2 through a harness failure), never a hang
            it = pool.imap(_call, [(fn, c, kw) for c in chunks], chunksize=1)
            limit = float(os.environ.get("VERIF_JOB_TIMEOUT", "3600"))
            for i in range(len(chunks)):
                try:
                    p = it.next(timeout=limit)
                except mp.TimeoutError:
                    self.fail("harness:job-lost", "no result for job %d of %s within %.0f s (worker killed or hung); the run is incomplete" % (i, fn.__name__, limit), {"kind": "harness"})
                    self.cap("job %d of %s lost" % (i, fn.__name__))
                    pool.terminate()
                    return
                self.merge(p)
            if hostile is not None:
                for p in hostile.get():
                    self.merge_hostile(p)

    def merge_hostile(self, part):
        """results of a job re-run in the hostile environment: failures already reported by the ordinary pass are not repeated"""
        have = {k for k, _, _ in self.failures}
        part.failures = [(k, w, c) for (k, w, c) in part.failures if k[len("env-hostile:"):] not in have]
        part.extra = []
        self.merge(part)

    def hostile(self, fn, chunk=None, all_hash_seeds=False, **kw):
        """run fn(part, chunk, **kw) here AND once more in the hostile environment (for work done outside pmap); with
        all_hash_seeds once per hash seed of the cycle (for code whose behaviour could depend on set / dict iteration order)"""
        guarded(fn, self, chunk, kw)
        if os.environ.get("VERIF_ENVMODE") != "hostile" and not os.environ.get("VERIF_NO_HOSTILE"):
            for i in (range(len(HOSTILE_HASH_SEEDS)) if all_hash_seeds else (0,)):
                self.merge_hostile(run_hostile(fn, chunk, kw, i))

    def cap(self, what):
        self.exhaustive = False
        self.caps.append(what)

    # --- finishing --------------------------------------------------------
    def is_known(self, key):
        for rec in self.known.get(self.pid, []):
            if fnmatch.fnmatchcase(key, rec["key"]):
                return rec
        return None

    def finish(self, replay_mode=False):
        """print findings / violations, write evidence, return exit code"""
        seen_known = {}
        violations = {}
        for key, what, case in self.failures:
            rec = self.is_known(key)
            if rec is not None:
                seen_known.setdefault(rec["key"], (rec, 0))
                seen_known[rec["key"]] = (rec, seen_known[rec["key"]][1] + 1)
            else:
                violations.setdefault(key, (what, case))
        for k, (rec, n) in sorted(seen_known.items()):
            print(
                "KNOWN-FINDING: property=%s %s [key=%s, %d case(s) this run]"
                % (self.pid, rec["what"], k, n),
                flush=True,
            )
        rc = 0
        replay_paths = []
        if violations:
            rc = 1
            d = os.path.join(REPLAY_DIR, self.pid)
            os.makedirs(d, exist_ok=True)
            for i, (key, (what, case)) in enumerate(sorted(violations.items())):
                if i >= 8:
                    print("... %d more distinct violation keys" % (len(violations) - 8))
                    break
                path = os.path.join(d, "%s.json" % digest(key))
                if not replay_mode:
                    with open(path, "w") as f:
                        json.dump(
                            {"property": self.pid, "key": key, "what": what, "case": case},
                            f,
                            indent=1,
                        )
                replay_paths.append(path)
                print("  what: %s | key=%s" % (what, key), flush=True)
                print("VIOLATION property=%s replay=%s" % (self.pid, path), flush=True)
        if not replay_mode:
            self.write_evidence(len(violations), len(seen_known))
            # vacuity guard: one single outcome from many executions means nothing was compared
            if rc == 0 and self.evaluations > 1 and len(self.outcomes) < 2:
                print(
                    "HARNESS-ERROR property=%s vacuous run: %d evaluations, %d distinct outcomes"
                    % (self.pid, self.evaluations, len(self.outcomes))
                )
                rc = 2
        return rc, replay_paths

    def write_evidence(self, nviol, nknown):
        os.makedirs(EVIDENCE_DIR, exist_ok=True)
        cov = {
            "evaluations": int(self.evaluations),
            "distinct_nontrivial": int(len(self.nontrivial) or (len(self.states) + self.state_count)),
            "rule": self.rule,
            "samples": self.samples[:6] or ["(no sample recorded)"],
            "states": int(len(self.states) + self.state_count),
            "transitions": int(self.transitions),
            "traces_validated_against_impl": int(self.traces),
            "distinct_outcomes": int(len(self.outcomes)),
            "exhaustive": bool(self.exhaustive),
            "bounds": self.bounds,
            "worst_deviation": {k: v for k, v in sorted(self.worst.items())},
            "counters": dict(sorted(self.counters.items())),
            "skipped_by_precondition": dict(sorted(self.skipped.items())),
            "caps_hit": self.caps,
            "known_findings_met": nknown,
            "notes": self.notes,
        }
        ev = {
            "property_id": self.pid,
            "tier": self.tier,
            "seed": int(self.seed),
            "level": self.level,
            "coverage": cov,
            "assumptions": self.assumptions,
            "wall_s": round(time.time() - self.t0, 3),
            "violations": int(nviol),
        }
        path = os.path.join(EVIDENCE_DIR, "%s.json" % self.pid)
        tmp = path + ".tmp"
        with open(tmp, "w") as f:
            json.dump(ev, f, indent=1, default=str)
        os.replace(tmp, path)
        return path


def chunked(seq, n):
    seq = list(seq)
    return [seq[i : i + n] for i in range(0, len(seq), n)]

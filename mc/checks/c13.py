"""
C13 - re-expressing a crystal (P1, supercell, trigonal axes) preserves the structure.

(a) P1 / supercells of the C04 generator's molecular crystals, both API routes, incl. cells given by
    lattice vectors in a non-standard orientation;
(b) hexagonal <-> rhombohedral switch: 7 R-lattice groups x 3 (a, c) x 3 asymmetric units (+ bundled
    R3c example), explicit-state exploration of all words over {H, R} up to length 3 from either
    starting setting.
Oracle: bidirectional coincidence of the two infinite atom arrangements modulo the lattices, atom
count ~ volume, density, round trip.
"""
from mc.paths import TEST_FILES
import itertools

import numpy as np
from scipy.spatial import cKDTree

from mc import xtal
from mc.checks import c04
from mc.ref import lattice, mol, symm

PROPERTY = "C13"
LEVEL = "model_checking"

SIZES_DEFAULT = [(1, 1, 1), (2, 1, 1), (1, 2, 3)]


def arrangement(c):
    """(elements, fractional positions in [0,1), lattice matrix) of a freshly rebuilt copy of crystal c"""
    f = xtal.fresh_from_state(xtal.public_state(c))
    uc = f.unit_cell_atoms()
    return np.asarray(uc["element"]), np.mod(np.asarray(uc["frac_pos"]), 1.0), np.asarray(f.unit_cell.direct, dtype=float)


def covers(X, Y, tol=1e-6, reach=2):
    """every atom of arrangement X (all lattice translates within `reach`) coincides with an atom of Y modulo Y's lattice"""
    ex, fx, Mx = X
    ey, fy, My = Y
    Myi = np.linalg.inv(My)
    tree = cKDTree(np.mod(fy, 1.0), boxsize=1.0)
    worst = 0.0
    for t in itertools.product(range(-reach, reach + 1), repeat=3):
        cart = (fx + np.array(t)) @ Mx
        fr = np.mod(cart @ Myi, 1.0)
        fr[fr >= 1.0] = 0.0
        d, idx = tree.query(fr)
        # distance in Angstrom
        diff = fr - fy[idx]
        diff -= np.rint(diff)
        dist = np.linalg.norm(diff @ My, axis=1)
        worst = max(worst, float(dist.max()))
        bad = (dist > tol) | (ey[idx] != ex)
        if bad.any():
            k = int(np.nonzero(bad)[0][0])
            return False, "atom Z=%d at %s (cell %s) has no partner (nearest %.3g A, Z=%d)" % (ex[k], np.round(fx[k], 4), t, dist[k], ey[idx[k]]), worst
    return True, "", worst


def same_arrangement(part, X, Y, key, what, case, tol=1e-6):
    ok1, why1, w1 = covers(X, Y, tol)
    ok2, why2, w2 = covers(Y, X, tol)
    part.dev("coincidence_A", max(w1, w2) if ok1 and ok2 else 0.0)
    if not ok1:
        part.fail(key, "%s: original -> re-expressed: %s" % (what, why1), case)
        return False
    if not ok2:
        part.fail(key, "%s: re-expressed -> original: %s" % (what, why2), case)
        return False
    vx, vy = abs(np.linalg.det(X[2])), abs(np.linalg.det(Y[2]))
    if not (abs(len(X[0]) / vx - len(Y[0]) / vy) <= 1e-9 * len(X[0]) / vx):
        part.fail(key + ":count", "%s: atom count does not scale with the cell volume (%d in %.3f A^3 vs %d in %.3f A^3)"
                  % (what, len(X[0]), vx, len(Y[0]), vy), case)
        return False
    return True


# ------------------------------------------------------------------------------------------------------
def p1_case(part, row, case):
    sk = "%d:%s" % (row["number"], row["choice"])
    ops, cell, asym, imgs = c04.make(row, case)
    ok, why = mol.precondition(asym, imgs)
    if not ok:
        part.skip(why)
        return
    rotated = case.get("frame") == "rotated"
    occ = None
    if case.get("occ"):
        # split-site style disorder: the atoms of the last molecule of the asymmetric unit are partially occupied
        mi = np.asarray(asym["molidx"])
        occ = np.where(mi == mi.max(), float(case["occ"]), 1.0)
    labels = None
    if case.get("labels") == "misleading":
        # explicit elements with site labels whose leading letters spell ANOTHER element (hydroxyl H "HO1", PDB-style "CA", "OS1" ...)
        pool = {"O": ["OS1", "OH2"], "H": ["HO1", "HE2", "HG3", "HF4"], "C": ["CA", "CD1", "CO2"]}
        seen_l = {}
        labels = []
        for sym in asym["symbols"]:
            k = seen_l.get(sym, 0)
            labels.append(pool[sym][k % len(pool[sym])] + ("" if k < len(pool[sym]) else str(k)))
            seen_l[sym] = k + 1
    c = xtal.make_crystal(row["number"], row["choice"], cell, asym["symbols"], asym["frac"], occupation=occ, labels=labels)
    if case.get("provenance") == "deposited-cif":
        # the crystal is read from a CIF that also carries the usual deposited metadata (formula weight, density, Z, temperature ...):
        # what the crystal reports must still be a function of cell, group and sites
        from chmpy.crystal import Crystal as _C

        extra = ["_exptl_crystal_density_diffrn 1.271", "_exptl_crystal_density_meas 1.27", "_chemical_formula_weight 31.00", "_cell_formula_units_Z 4",
                 "_cell_volume 1234.5", "_cell_measurement_temperature 100", "_exptl_crystal_F_000 999"]
        txt = c.to_cif_string().rstrip("\n").split("\n")
        at = next(i for i, l in enumerate(txt) if l.strip().startswith("loop_"))
        c = _C.from_cif_string("\n".join(txt[:at] + extra + txt[at:]) + "\n")
    if rotated:
        from chmpy.crystal import Crystal, UnitCell

        Q = mol.rot((1, -2, 0.5), 0.9)
        c = Crystal(UnitCell(np.asarray(c.unit_cell.direct) @ Q.T), c.space_group, c.asymmetric_unit)
    X = arrangement(c)
    dens = float(c.density)
    for size in case["sizes"]:
        for route in ("as_P1_supercell", "to_translational_symmetry"):
            part.ev()
            part.tr()
            cc = dict(case, sizes=[list(size)], route=route)
            tag = "%s:%s%s" % (route, "rotated-frame" if rotated else "standard-frame", ":partial-occupancy" if occ is not None else ":misleading-labels" if labels else ":deposited-cif" if case.get("provenance") else "")
            try:
                if case.get("provenance"):
                    import copy

                    cfresh = copy.deepcopy(c)          # the crystal AS READ from the file (with whatever it carries along), not a rebuilt one
                else:
                    cfresh = xtal.fresh_from_state(xtal.public_state(c))
                p = cfresh.as_P1_supercell(size) if route == "as_P1_supercell" else cfresh.to_translational_symmetry(supercell=size)
            except Exception as e:
                part.fail("raise:%s" % tag, "%s%s raised %r in %s" % (route, size, e, sk), cc)
                continue
            if p.space_group.international_tables_number != 1 or len(p.space_group.symmetry_operations) != 1:
                part.fail("not-P1:%s" % tag, "%s result is not in P1" % route, cc)
            Y = arrangement(p)
            n = size[0] * size[1] * size[2]
            if len(Y[0]) != n * len(X[0]):
                part.fail("count:%s" % tag, "%s%s of %s holds %d atoms, expected %d x %d" % (route, size, sk, len(Y[0]), n, len(X[0])), cc)
                continue
            vr = abs(np.linalg.det(Y[2])) / abs(np.linalg.det(X[2]))
            if not (abs(vr - n) <= 1e-9 * n):
                part.fail("volume:%s" % tag, "%s%s: cell volume ratio %.9f, expected %d" % (route, size, vr, n), cc)
            if not rotated:
                same_arrangement(part, X, Y, "arrangement:%s" % tag, "%s%s of %s" % (route, size, sk), cc)
            else:
                # frames may differ by a rigid rotation: compare in fractional coordinates of the supercell
                # (the supercell's a,b,c are n_i times the original's by construction)
                Xf = (X[0], X[1], np.eye(3))
                Ysc = (Y[0], Y[1] * np.array(size), np.diag(np.array(size, dtype=float)))
                okA, whyA, _ = covers(Xf, (Ysc[0], np.mod(Y[1], 1.0), np.diag(1.0 / np.array(size, dtype=float)) @ np.eye(3)), 1e-6) if False else (True, "", 0)
                # build both arrangements in one common metric: original cell metric M0 (standard orientation)
                M0 = lattice.cell_matrix(*cell)
                Xc = (X[0], X[1], M0)
                Yc = (Y[0], Y[1], np.diag(np.array(size, dtype=float)) @ M0)
                same_arrangement(part, Xc, Yc, "arrangement:%s" % tag, "%s%s of %s given by rotated lattice vectors" % (route, size, sk), cc)
            if case.get("provenance") == "deposited-cif" and route == "as_P1_supercell":
                # the expanded crystal written as CIF / .res and read again is still that arrangement (whatever the parent carried
                # along from its own source file must not leak into the child's export)
                from chmpy.crystal import Crystal as _C2

                for fmt_ in ("cif", "res"):
                    part.tr()
                    try:
                        q = _C2.from_cif_string(p.to_cif_string()) if fmt_ == "cif" else _C2.from_shelx_string(p.to_shelx_string())
                        Z_ = arrangement(q)
                        if len(Z_[0]) != len(Y[0]):
                            part.fail("export-of-expansion:%s:%s" % (fmt_, tag), "%s%s of %s written as %s and read again holds %d atoms instead of %d" % (route, size, sk, fmt_, len(Z_[0]), len(Y[0])), cc)
                        else:
                            same_arrangement(part, Y, Z_, "export-of-expansion:%s:%s" % (fmt_, tag), "%s%s of %s written as %s and read again" % (route, size, sk, fmt_), cc, tol=1e-5)
                    except Exception as e:
                        part.fail("export-of-expansion-raise:%s:%s" % (fmt_, tag), "%s%s of %s (parent read from a CIF): writing / re-reading as %s raised %s: %s" % (route, size, sk, fmt_, type(e).__name__, str(e)[:80]), cc)
            d2 = float(p.density)
            part.dev("density_rel", abs(d2 - dens) / dens)
            if not (abs(d2 - dens) <= 1e-9 * dens):
                part.fail("density:%s" % tag, "%s%s: density %.9f vs %.9f" % (route, size, d2, dens), cc)
            part.outcome((route, tuple(size), len(X[0]), rotated))
    part.nontriv((sk, case["zkind"], tuple(case["centre"]), case.get("frame")))


def special_position_cases(part, seed):
    """
    molecules ON special positions (Z' < 1): the asymmetric unit holds only part of the molecule and the unit-cell molecule is
    assembled from images under several operations - acetylene (H-C#C-H) and Cl-C#C-H... centred on inversion centres /
    two-fold axes.  Oracle as for general positions: the P1 / supercell description is the same arrangement.
    """
    table = {(r["number"], r["choice"]): r for r in symm.load_table()}
    # (setting, fractional centre that is an inversion centre or lies on a 2-fold axis of that setting)
    sites = [((2, ""), (0.0, 0.0, 0.0)), ((2, ""), (0.5, 0.0, 0.5)), ((14, "b1"), (0.0, 0.0, 0.0)), ((14, "b1"), (0.5, 0.5, 0.0)),
             ((15, "b1"), (0.25, 0.25, 0.0)), ((61, ""), (0.0, 0.0, 0.0)), ((5, "b1"), (0.0, 0.31, 0.0)), ((18, ""), (0.0, 0.0, 0.37))]
    for (key, centre) in sites:
        row = table[key]
        ops = [symm.decode(c) for c in row["symops"]]
        for ci, cell in enumerate(lattice.compatible_cells(*key)[:2]):
            cell = tuple(x * 1.6 for x in cell[:3]) + tuple(cell[3:])
            M = lattice.cell_matrix(*cell)
            Mi = np.linalg.inv(M)
            for oi, axis in enumerate(((1.0, 0.35, 0.2), (0.2, 1.0, -0.4))):
                u = np.array(axis) / np.linalg.norm(axis)
                if key[0] in (5, 18):
                    # on a two-fold axis (b for C2, c for P2_12_12): the molecular axis must be perpendicular to it
                    ax = M[1] / np.linalg.norm(M[1]) if key[0] == 5 else M[2] / np.linalg.norm(M[2])
                    u = u - np.dot(u, ax) * ax
                    u /= np.linalg.norm(u)
                c0 = np.array(centre) @ M
                # half of Cl-C#C-Cl' ... use H-C#C-H with distinct elements per half: asymmetric unit = (C, H) or (C, Cl)
                for syms, ds in ((["C", "H"], (0.60, 1.66)), (["C", "Cl"], (0.60, 2.24))):
                    frac = np.array([c0 + d * u for d in ds]) @ Mi
                    if not (xtal.image_separation(ops, frac, M) >= 0.9):
                        part.skip("special-position molecule crowded by its images")
                        continue
                    case = {"kind": "special", "setting": list(key), "centre": list(centre), "cell": ci, "axis": oi, "symbols": syms}
                    c = xtal.make_crystal(key[0], key[1], cell, syms, frac)
                    try:
                        n_mols = len(c.unit_cell_molecules())
                    except Exception as e:
                        part.fail("special-raise", "unit_cell_molecules raised %r for a molecule on a special position of %s" % (e, key), case)
                        continue
                    X = arrangement(c)
                    dens = float(c.density)
                    for size in ((1, 1, 1), (2, 1, 1), (1, 2, 1)):
                        for route in ("as_P1_supercell", "to_translational_symmetry"):
                            part.ev()
                            part.tr()
                            cf = xtal.fresh_from_state(xtal.public_state(c))
                            try:
                                p = cf.as_P1_supercell(size) if route == "as_P1_supercell" else cf.to_translational_symmetry(supercell=size)
                            except Exception as e:
                                part.fail("special-raise:%s" % route, "%s%s raised %r for a special-position molecule in %s" % (route, size, e, key), case)
                                continue
                            Y = arrangement(p)
                            tag = "%s:special-position" % route
                            n = size[0] * size[1] * size[2]
                            if len(Y[0]) != n * len(X[0]):
                                part.fail("count:%s" % tag, "%s%s of %s holds %d atoms, expected %d x %d" % (route, size, key, len(Y[0]), n, len(X[0])), dict(case, size=list(size)))
                                continue
                            same_arrangement(part, X, Y, "arrangement:%s" % tag, "%s%s of a molecule on a special position of %s" % (route, size, key), dict(case, size=list(size)))
                            if not (abs(float(p.density) - dens) <= 1e-9 * dens):
                                part.fail("density:%s" % tag, "density changes in %s%s" % (route, size), dict(case, size=list(size)))
                            part.outcome((route, tuple(size), key[0], "special"))
                    part.nontriv(("special", key, centre, ci, oi, tuple(syms)))
                    part.state(("special", key, centre, ci, oi, tuple(syms)))


def atom_on_special_cases(part, seed):
    """
    pairwise: an ATOM exactly on a special position (inversion centre, two-fold axis, three-fold axis) TOGETHER WITH partial occupancy
    (1, 1/2, 1/3, 1/4) next to an ordinary general-position atom: the parent lists the site once (coincident images merged), so do its
    P1 and supercell descriptions - same atom count per cell, same arrangement, same density, same total occupancy
    """
    sites = [((2, ""), (0.0, 0.0, 0.0)), ((2, ""), (0.5, 0.0, 0.5)), ((14, "b1"), (0.0, 0.5, 0.5)), ((5, "b1"), (0.0, 0.31, 0.0)), ((148, "H"), (0.0, 0.0, 0.27)),
             ((148, "H"), (0.0, 0.0, 0.0)), ((148, "R"), (0.21, 0.21, 0.21)), ((15, "b1"), (0.25, 0.25, 0.0))]
    for (key, site) in sites:
        cell = lattice.compatible_cells(*key)[0]
        for occ in (1.0, 0.5, 1.0 / 3.0, 0.25):
            case = {"kind": "atom-on-special", "setting": list(key), "site": list(site), "occ": occ}
            try:
                c = xtal.make_crystal(key[0], key[1], cell, ["Zn", "O"], np.array([site, (0.137, 0.289, 0.611)]), occupation=np.array([occ, 1.0]))
                uc = c.unit_cell_atoms()
                X = arrangement(c)
                dens = float(c.density)
                tot = float(np.sum(uc["occupation"]))
            except Exception as e:
                part.fail("atom-on-special:raise", "a crystal with a %.3g-occupied atom on a special position of %s raised %r" % (occ, key, e), case)
                continue
            for size in ((1, 1, 1), (2, 1, 1)):
                for route in ("as_P1_supercell", "to_translational_symmetry"):
                    part.ev()
                    part.tr()
                    try:
                        cf = xtal.fresh_from_state(xtal.public_state(c))
                        p = cf.as_P1_supercell(size) if route == "as_P1_supercell" else cf.to_translational_symmetry(supercell=size)
                        Y = arrangement(p)
                        n = size[0] * size[1] * size[2]
                        pu = xtal.fresh_from_state(xtal.public_state(p)).unit_cell_atoms()
                        ptot = float(np.sum(pu["occupation"]))
                    except Exception as e:
                        part.fail("atom-on-special:raise:%s" % route, "%s%s raised %r (%.3g-occupied atom on a special position of %s)" % (route, size, e, occ, key), case)
                        continue
                    tag = "%s:atom-on-special" % route
                    if len(Y[0]) != n * len(X[0]):
                        part.fail("count:%s" % tag, "%s%s of %s with a %.3g-occupied atom on a special position holds %d atoms, expected %d x %d" % (route, size, key, occ, len(Y[0]), n, len(X[0])), case)
                        continue
                    same_arrangement(part, X, Y, "arrangement:%s" % tag, "%s%s with a %.3g-occupied atom on a special position of %s" % (route, size, occ, key), case)
                    # (total occupancies are not compared: a merged fully occupied site reports the SUM of the merged occupancies in the parent
                    # and 1 in the P1 copy - the density, which both compute from what they hold, is the observable)
                    if not (abs(float(p.density) - dens) <= 1e-9 * dens):
                        part.fail("density:%s" % tag, "%s%s of %s with a %.3g-occupied atom on a special position: density %.6f vs %.6f"
                                  % (route, size, key, occ, float(p.density), dens), case)
                    part.outcome((route, tuple(size), key[0], "atom-on-special", occ < 1))
    part.nstates(len(sites))


def many_sites(ops, M, n_sites, shift, dmin=2.6):
    """n_sites general positions (fractional), every symmetry image of every site at least dmin A from every other image (all lattice
    translates): accepted one by one from a deterministic low-discrepancy sequence"""
    g = 1.22074408460575947536
    alpha = np.array([1 / g, 1 / g ** 2, 1 / g ** 3])
    R = [np.array(r, dtype=float).reshape(3, 3) for r, _ in ops]
    T = [np.array(t, dtype=float) / 12.0 for _, t in ops]
    cells = np.array(list(itertools.product((-1, 0, 1), repeat=3)), dtype=float)
    rf = min(0.49, dmin / float(np.min(lattice.perpendicular_widths(M))))      # fractional radius that contains the dmin sphere
    acc_img = np.zeros((0, 3))
    tree = None
    out = []
    k = 0
    while len(out) < n_sites and k < 40 * n_sites + 400:
        k += 1
        f = np.mod(0.5 + shift + k * alpha, 1.0)
        img = np.mod(np.array([r @ f + t for r, t in zip(R, T)]), 1.0)
        img[img >= 1.0] = 0.0
        # the site's own images among themselves (a site near a symmetry element), then against everything accepted so far
        d = (img[:, None, None, :] - img[None, :, None, :] + cells[None, None, :, :]) @ M
        dist = np.linalg.norm(d, axis=3)
        dist[np.arange(len(img)), np.arange(len(img)), 13] = 1e9
        ok = dist.min() >= dmin
        if ok and tree is not None:
            for j, near in enumerate(tree.query_ball_point(img, rf * 1.7321, p=2.0)):
                if near:
                    dd = (acc_img[near][:, None, :] - img[j] + cells[None, :, :]).reshape(-1, 3) @ M
                    if np.linalg.norm(dd, axis=1).min() < dmin:
                        ok = False
                        break
        if ok:
            out.append(f)
            acc_img = np.vstack([acc_img, img])
            tree = cKDTree(acc_img, boxsize=1.0)
    return np.array(out)


def many_sites_worker(part, job):
    """
    a medium-sized asymmetric unit (tens to a hundred general sites of four elements, far enough apart to stay single atoms): the
    unit cell contents, the P1 cell, a supercell and the translational-symmetry crystal are all the arrangement that the reference
    expansion (every operation applied to every site) gives - whatever the number of sites
    """
    row, n_sites = job
    sk = "%d:%s" % (row["number"], row["choice"])
    ops = [symm.decode(c) for c in row["symops"]]
    cell = mol.scaled_cell(row["number"], row["choice"], len(ops), max(1, int(n_sites * 0.45)), 0)
    M = lattice.cell_matrix(*cell)
    frac = many_sites(ops, M, n_sites, 0.0137 * (row["number"] % 11))
    case = {"kind": "many-sites", "number": row["number"], "choice": row["choice"], "n_sites": n_sites}
    if len(frac) < n_sites:
        part.skip("could not place %d well-separated general sites" % n_sites)
        return
    symbols = [("C", "N", "O", "F")[i % 4] for i in range(n_sites)]
    zs = np.array([(6, 7, 8, 9)[i % 4] for i in range(n_sites)])
    ref_f = np.vstack([np.mod(frac @ np.array(r, dtype=float).reshape(3, 3).T + np.array(t, dtype=float) / 12.0, 1.0) for r, t in ops])
    ref = (np.tile(zs, len(ops)), ref_f, M)
    part.ev()
    try:
        c = xtal.make_crystal(row["number"], row["choice"], cell, symbols, frac)
        X = arrangement(c)
    except Exception as e:
        part.fail("many-sites:raise", "a crystal of %d general sites in %s raised %r" % (n_sites, sk, e), case)
        return
    part.tr()
    tagn = "n>=64" if n_sites >= 64 else "n<64"
    if len(X[0]) != len(ref[0]):
        part.fail("many-sites:unit-cell-count:%s" % tagn, "%d general sites in %s (%d operations): the unit cell holds %d atoms, expected %d" % (n_sites, sk, len(ops), len(X[0]), len(ref[0])), case)
        return
    same_arrangement(part, ref, X, "many-sites:unit-cell:%s" % tagn, "unit cell contents of %d general sites in %s vs every operation applied to every site" % (n_sites, sk), case)
    for route, size in (("as_P1_supercell", (1, 1, 1)), ("as_P1_supercell", (1, 2, 1)), ("to_translational_symmetry", (1, 1, 1))):
        part.tr()
        try:
            cf = xtal.fresh_from_state(xtal.public_state(c))
            p = cf.as_P1_supercell(size) if route == "as_P1_supercell" else cf.to_translational_symmetry(supercell=size) if size != (1, 1, 1) else cf.to_translational_symmetry()
            Y = arrangement(p)
        except Exception as e:
            part.fail("many-sites:raise:%s" % route, "%s%s of %d general sites in %s raised %r" % (route, size, n_sites, sk, e), case)
            continue
        nn = size[0] * size[1] * size[2]
        if len(Y[0]) != nn * len(ref[0]):
            part.fail("many-sites:count:%s:%s" % (route, tagn), "%s%s of %d general sites in %s holds %d atoms, expected %d" % (route, size, n_sites, sk, len(Y[0]), nn * len(ref[0])), case)
            continue
        same_arrangement(part, ref, Y, "many-sites:arrangement:%s:%s" % (route, tagn), "%s%s of %d general sites in %s vs every operation applied to every site" % (route, size, n_sites, sk), case)
    part.state(("many-sites", sk, n_sites))
    part.outcome(("many-sites", len(ops), n_sites // 16))


def p1_worker(part, job, seed, thorough):
    row, mode = job
    centres = [(0.137, 0.289, 0.611), (0.983, 0.289, 0.017)]
    for zk in ("1", "2diff"):
        for ce in centres:
            sizes = SIZES_DEFAULT
            if mode == "all_sizes":
                sizes = list(itertools.product((1, 2, 3), repeat=3))
            case = {"number": row["number"], "choice": row["choice"], "zkind": zk, "centre": list(ce), "orient": 1, "seed": seed,
                    "sizes": [list(s) for s in sizes]}
            p1_case(part, row, case)
            if mode == "all_sizes":
                break
    # deviation: molecules that are single atoms (a lone argon next to a water; an asymmetric unit of one atom)
    for zk in ("2ar_h2o", "1ar"):
        case = {"number": row["number"], "choice": row["choice"], "zkind": zk, "centre": [0.137, 0.289, 0.611], "orient": 1, "seed": seed,
                "sizes": [[1, 1, 1], [2, 1, 1]]}
        p1_case(part, row, case)
    # deviation: partially occupied sites (the descriptions must still agree on the density)
    for zk, o in (("2diff", 0.5), ("1", 0.25)):
        case = {"number": row["number"], "choice": row["choice"], "zkind": zk, "centre": [0.137, 0.289, 0.611], "orient": 1, "seed": seed,
                "sizes": [[1, 1, 1], [2, 1, 3]], "occ": o}
        p1_case(part, row, case)
    # deviation: the crystal comes from a CIF with deposited metadata
    case = {"number": row["number"], "choice": row["choice"], "zkind": "1", "centre": [0.137, 0.289, 0.611], "orient": 1, "seed": seed,
            "sizes": [[1, 1, 1], [1, 2, 1]], "provenance": "deposited-cif"}
    p1_case(part, row, case)
    # deviation: user labels that spell other elements than the sites hold
    case = {"number": row["number"], "choice": row["choice"], "zkind": "2diff", "centre": [0.137, 0.289, 0.611], "orient": 1, "seed": seed,
            "sizes": [[1, 1, 1], [2, 1, 1]], "labels": "misleading"}
    p1_case(part, row, case)
    # deviation: the same crystal given by rotated lattice vectors
    case = {"number": row["number"], "choice": row["choice"], "zkind": "1", "centre": [0.137, 0.289, 0.611], "orient": 1, "seed": seed,
            "sizes": [[1, 1, 1], [2, 1, 1]], "frame": "rotated"}
    p1_case(part, row, case)


# ------------------------------------------------------------------------------------------------------
R_GROUPS = (146, 148, 155, 160, 161, 166, 167)
HROWS = {r["number"]: r["symops"] for r in symm.load_table() if r["number"] in R_GROUPS and r["choice"] == "H"}
RROWS = {r["number"]: r["symops"] for r in symm.load_table() if r["number"] in R_GROUPS and r["choice"] == "R"}
# hexagonal (a, c): generic ones, and the ratios where the rhombohedral cell is metrically special - alpha = 90 (cube-shaped
# primitive cell, c/a = sqrt(3/2)), alpha = 60 (fcc-like, c/a = sqrt(6)) and alpha = 109.47 (bcc-like, c/a = sqrt(3/8))
AC = [(10.0, 14.0), (34.45, 11.24), (6.0, 30.0), (10.0, 10.0 * (1.5 ** 0.5)), (7.0, 7.0 * (6.0 ** 0.5)), (12.0, 12.0 * (0.375 ** 0.5)),
      (12.0, 12.0)]      # hexagonal axes with a == c: three equal edges, unequal angles


def trig_initial(spec):
    """fresh crystal for a trigonal case spec"""
    from chmpy.crystal import Crystal, SpaceGroup, UnitCell, AsymmetricUnit
    from chmpy.core.element import Element

    if spec["asym"] == "r3c_example":
        c = Crystal.load(TEST_FILES + "r3c_example.cif")
        c = xtal.fresh_from_state(xtal.public_state(c))
        if spec["start"] == "R":
            c.choose_trigonal_lattice("R")
            c = xtal.fresh_from_state(xtal.public_state(c))
        return c
    a, cc = spec["ac"]
    g = spec["seed_shift"]
    sites = {"general": [("C", (0.1231 + g, 0.3117, 0.2713))],
             "special": [("C", (0.1231 + g, 0.3117, 0.2713)), ("O", (0.0, 0.0, 0.137)), ("Fe", (0.0, 0.0, 0.0)),
                         ("N", (1 / 3, 2 / 3, 0.4477))],
             "two": [("S", (0.41 + g, 0.07, 0.63)), ("Cl", (0.77, 0.52 + g, 0.11))]}[spec["asym"]]
    cell = (a, a, cc, 90.0, 90.0, 120.0)
    M = lattice.cell_matrix(*cell)
    syms = [s for s, _ in sites]
    frac = np.array([p for _, p in sites], dtype=float)
    # keep distinct images more than 0.02 apart in the fractional metric of BOTH settings, i.e. away from the
    # library's 0.01 merge tolerance, as the property stipulates
    hops = [symm.decode(c) for c in HROWS[spec["number"]]]
    rops = [symm.decode(c) for c in RROWS[spec["number"]]]
    T = np.array(((2, 1, 1), (-1, 1, 1), (-1, -2, 1))) / 3.0
    MRref = T @ M
    special = np.array([abs(p[0]) < 1e-12 or abs(p[0] - 1 / 3) < 1e-12 for _, p in sites])
    for k in range(400):
        # general atoms move along a generic direction, axis atoms along z, each by its own multiple
        cand = frac.copy()
        for i in range(len(cand)):
            cand[i] = cand[i] + (k * (i + 1)) * (np.array([0.0, 0.0, 0.0173]) if special[i] else np.array([0.0137, -0.0219, 0.0311]))
        candR = (cand @ M) @ np.linalg.inv(MRref)
        if not (xtal.image_separation(hops, cand) <= 0.02) and not (xtal.image_separation(rops, candR) <= 0.02):
            frac = cand
            break
    else:
        raise RuntimeError("no well-separated placement found for %s" % spec)
    if spec["start"] == "H":
        return xtal.make_crystal(spec["number"], "H", cell, syms, frac)
    # start in R: reference basis change (obverse setting), exact by construction
    T = np.array(((2, 1, 1), (-1, 1, 1), (-1, -2, 1))) / 3.0  # a_R = (2a+b+c)/3 ... standard obverse
    MR = T @ M
    fracR = (frac @ M) @ np.linalg.inv(MR)
    return Crystal(UnitCell(MR), SpaceGroup(spec["number"], choice="R"),
                   AsymmetricUnit([Element[s] for s in syms], fracR))


def trig_worker(part, spec, max_len):
    try:
        c0 = trig_initial(spec)
    except Exception as e:
        part.fail("trig-setup:%s" % spec["asym"], "could not build %s: %r" % (spec, e), {"kind": "trig", "spec": spec, "word": []})
        return
    X0 = arrangement(c0)
    dens0 = float(xtal.fresh_from_state(xtal.public_state(c0)).density)
    p0 = xtal.public_state(c0)
    seen = set()
    for L in range(1, max_len + 1):
        for word in itertools.product("HR", repeat=L):
            part.ev()
            case = {"kind": "trig", "spec": spec, "word": list(word)}
            c = trig_initial(spec)
            try:
                for w in word:
                    c.choose_trigonal_lattice(w)
                    part.tr()
            except Exception as e:
                part.fail("trig-raise:%d" % spec["number"], "choose_trigonal_lattice raised %r on %s" % (e, case), case)
                continue
            if c.space_group.choice != word[-1] or c.space_group.international_tables_number != (spec.get("number") or c.space_group.international_tables_number):
                part.fail("trig-setting:%d" % (spec.get("number") or 0), "after %s the crystal reports setting %s:%s"
                          % (word, c.space_group.international_tables_number, c.space_group.choice), case)
            target = word[-1]
            tag = "%s->%s" % (spec["start"], target)
            Y = arrangement(c)
            same_arrangement(part, X0, Y, "trig-arrangement:%s:%s" % (tag, spec["asym"]),
                             "group %s, %s, word %s from %s" % (spec.get("number"), spec.get("ac"), "".join(word), spec["start"]), case)
            d = float(c.density)
            df = float(xtal.fresh_from_state(xtal.public_state(c)).density)
            part.dev("density_rel", abs(d - dens0) / dens0)
            if not (abs(d - dens0) <= 1e-9 * dens0) or not (abs(df - dens0) <= 1e-9 * dens0):
                part.fail("trig-density:%s:%s" % (tag, spec["asym"]), "density %.9f (fresh %.9f) vs original %.9f after %s" % (d, df, dens0, word), case)
            if target == spec["start"]:
                ps = xtal.public_state(c)
                e1 = np.abs(np.array(ps["lengths"]) - np.array(p0["lengths"])).max()
                e2 = np.abs(np.array(ps["angles"]) - np.array(p0["angles"])).max()
                e3 = np.abs(ps["pos"] - p0["pos"]).max()
                part.dev("roundtrip_abs", max(e1, e2, e3))
                if not (max(e1, e2, e3) <= 1e-9) or ps["codes"] != p0["codes"]:
                    part.fail("trig-roundtrip:%s" % spec["asym"], "switching %s from %s does not restore cell/coordinates (dev %g)" % (word, spec["start"], max(e1, e2, e3)), case)
            else:
                # the target cell must have the metric of the other setting: volume ratio 3 (H) : 1 (R)
                v0, v1 = abs(np.linalg.det(X0[2])), abs(np.linalg.det(Y[2]))
                want = 3.0 if target == "H" else 1.0 / 3.0
                if not (abs(v1 / v0 - want) <= 1e-9):
                    part.fail("trig-volume:%s" % tag, "cell volume ratio %.9f after %s, expected %.6f" % (v1 / v0, word, want), case)
                uc = c.unit_cell
                if target == "H" and not (abs(uc.a - uc.b) < 1e-9 and abs(uc.alpha_deg - 90) < 1e-7 and abs(uc.gamma_deg - 120) < 1e-7):
                    part.fail("trig-metric:%s" % tag, "hexagonal setting with cell %s" % (np.round(uc.parameters, 6),), case)
                if target == "R" and not (abs(uc.a - uc.b) < 1e-9 and abs(uc.a - uc.c) < 1e-9 and abs(uc.alpha - uc.beta) < 1e-9 and abs(uc.alpha - uc.gamma) < 1e-9):
                    part.fail("trig-metric:%s" % tag, "rhombohedral setting with cell %s" % (np.round(uc.parameters, 6),), case)
            sd = (target, len(Y[0]))
            seen.add(sd)
            part.state((repr(sorted(spec.items(), key=str)), xtal.public_digest(c)))
            part.outcome((spec["asym"], spec["start"], target, len(Y[0])))
    # the user moves the atoms (a new coordinate array is assigned, all sites shifted along the three-fold axis so that special
    # positions stay special) between two switches: every later switch describes the crystal AS EDITED
    for word in (("E", "H"), ("E", "R"), ("H", "E", "R"), ("R", "E", "H"), ("H", "E", "H"), ("R", "E", "R"), ("R", "E", "H", "R"), ("H", "R", "E", "H"), ("R", "H", "E", "R", "H")):
        part.ev()
        case = {"kind": "trig", "spec": spec, "word": list(word)}
        c = trig_initial(spec)
        X_edit = None
        try:
            for w in word:
                part.tr()
                if w == "E":
                    shift = np.array([0.0, 0.0, 0.0137]) if c.space_group.choice == "H" else np.array([0.0137, 0.0137, 0.0137])
                    c.asymmetric_unit.positions = np.asarray(c.asymmetric_unit.positions) + shift
                    X_edit = arrangement(xtal.fresh_from_state(xtal.public_state(c)))
                else:
                    c.choose_trigonal_lattice(w)
        except Exception as e:
            part.fail("trig-edit-raise:%d" % (spec.get("number") or 0), "switch / edit sequence %s raised %r" % (word, e), case)
            continue
        Y = arrangement(xtal.fresh_from_state(xtal.public_state(c)))
        same_arrangement(part, X_edit, Y, "trig-arrangement-after-edit:%s" % spec["asym"],
                         "group %s, %s, sequence %s from %s (E = all sites shifted along the axis)" % (spec.get("number"), spec.get("ac"), "".join(word), spec["start"]), case)
        part.outcome((spec["asym"], spec["start"], "edit", word[-1]))
    part.nontriv(repr(sorted(spec.items(), key=str)))
    part.sample({"spec": spec, "words": 2 ** (max_len + 1) - 2})


def run(ctx):
    table = symm.load_table()
    jobs = []
    for r in table:
        if ctx.thorough or r["index_in_number"] == 0:
            mode = "all_sizes" if r["number"] in (2, 14, 19, 33, 61, 62, 88, 148, 167, 198) and r["index_in_number"] == 0 else "default"
            if len(r["symops"]) > 48 and mode == "all_sizes":
                mode = "default"
            jobs.append((r, mode))
    jobs.sort(key=lambda j: -len(j[0]["symops"]) * (9 if j[1] == "all_sizes" else 1))
    ctx.pmap(p1_worker, jobs, seed=ctx.seed, thorough=ctx.thorough)
    special_position_cases(ctx, ctx.seed)
    atom_on_special_cases(ctx, ctx.seed)
    # medium-sized asymmetric units: every setting with one size of a rotating ladder (quick) / with three sizes (thorough); every size
    # 1..100 in four settings whose operations are neither diagonal nor symmetric matrices (hexagonal axes, a 4_1 screw, a d glide)
    msizes = (24, 48, 63, 64, 65, 72, 96, 100, 128)
    mjobs = []
    for i, r in enumerate(table):
        if len(r["symops"]) > 48 or not (ctx.thorough or (r["index_in_number"] == 0 and len(r["symops"]) <= 24 and (r["number"] + ctx.seed) % 3 == 0)):
            continue        # quick: a third of the settings per VERIF_SEED (rotating), all of them in the thorough tier       # (the library builds one Molecule object per lone atom: 48 operations x 100 sites take ~40 s per crystal)
        for n_ in ((msizes[(i + ctx.seed) % len(msizes)],) if not ctx.thorough else (msizes[i % 9], msizes[(i + 3) % 9], msizes[(i + 6) % 9])):
            mjobs.append((r, n_))
    rows_by = {(r["number"], r["choice"]): r for r in table}
    for key in ((146, "H"), (76, ""), (169, ""), (43, "")):
        for n_ in range(1, 101) if ctx.thorough else range(4, 101, 4):
            mjobs.append((rows_by[key], n_))
    mjobs.sort(key=lambda j: -len(j[0]["symops"]) * j[1])
    ctx.pmap(many_sites_worker, mjobs)
    specs = []
    for n in R_GROUPS:
        for ac in AC:
            for asym in ("general", "special", "two"):
                for start in ("H", "R"):
                    specs.append({"number": n, "ac": list(ac), "asym": asym, "start": start, "seed_shift": 0.0173 * (ctx.seed % 7)})
    for start in ("H", "R"):
        specs.append({"asym": "r3c_example", "start": start, "number": 161, "ac": None, "seed_shift": 0.0})
    max_len = 4 if ctx.thorough else 3
    ctx.pmap(trig_worker, specs, max_len=max_len)
    ctx.rule = ("(a) %d settings x molecular crystals (C04 generator) x supercell sizes x 2 routes (+ rotated-frame deviation) + molecules ON special positions (inversion centres, two-fold axes; Z' = 1/2) in 6 settings; (b) %d trigonal specs "
                "(7 R groups x 3 cells x 3 asymmetric units x 2 starting settings + bundled R3c) x all words over {H,R} up to length %d; "
                "states = distinct public states reached, transitions = re-expressions executed" % (len(jobs), len(specs), max_len))
    ctx.bounds = {"p1_settings": len(jobs), "sizes": SIZES_DEFAULT, "all_sizes_settings": sum(1 for j in jobs if j[1] == "all_sizes"),
                  "trigonal_specs": len(specs), "word_length": max_len}
    ctx.assumptions = ["two descriptions are 'the same arrangement' when every atom (all lattice translates within +-2 cells) of one coincides within 1e-6 A with an atom of the same element of the other modulo its lattice, both ways",
                       "a crystal given by rotated lattice vectors is compared in its own fractional metric (a rigid rotation of the frame is not a change of structure)"]


def replay(ctx, case):
    if case.get("kind") == "many-sites":
        row = [r for r in symm.load_table() if r["number"] == case["number"] and r["choice"] == case["choice"]][0]
        return many_sites_worker(ctx, (row, case["n_sites"]))
    if case.get("kind") == "atom-on-special":
        return atom_on_special_cases(ctx, ctx.seed)
    if case.get("kind") == "special":
        special_position_cases(ctx, 0)
        return
    if case.get("kind") == "trig":
        # re-run the single word
        spec = case["spec"]
        word = case["word"]
        import mc.checks.c13 as me

        orig = itertools.product

        def only(*a, **k):
            if a and a[0] == "HR":
                return [tuple(word)] if k.get("repeat") == len(word) else []
            return orig(*a, **k)

        me.itertools = type("X", (), {"product": staticmethod(only)})
        try:
            trig_worker(ctx, spec, len(word))
        finally:
            me.itertools = __import__("itertools")
        return
    table = symm.load_table()
    for r in table:
        if r["number"] == case["number"] and r["choice"] == case["choice"]:
            p1_case(ctx, r, case)

"""
C10 - saving a crystal and loading it back reproduces the same structure.

Primary axis: all 530 settings x {CIF, .res, POSCAR}.  Secondary axes under a deviation bound: cell,
asymmetric unit, provenance of the crystal, route (string API / files), chain length.  The written
text is additionally read by reference readers (mc.ref.ciftext / restext) that are independent of the
library's parsers, so a writer and a reader that are wrong in the same way do not cancel.
"""
import itertools
import os
import shutil
import tempfile

import numpy as np
from scipy.spatial import cKDTree

from mc import xtal
from mc.ref import ciftext, lattice, restext, symm

PROPERTY = "C10"
LEVEL = "model_checking"

FORMATS = ("cif", "res", "poscar")

ASYMS = {
    "default": (["C", "O", "H"], ["C1", "O1", "H1A"], [[-0.23131, 0.31172, 0.27134], [0.55331, 1.07912, 0.61273], [0.84193, 0.72774, 0.09115]], None),
    "two_letter": (["Cl", "Fe", "Br", "Si"], ["Cl1", "Fe2A", "Br1_a", "Si10"], [[0.1231, 0.3117, 0.2713], [0.5533, 0.0791, 0.6127],
                                                                                [0.8419, 0.7277, 0.0911], [0.3301, 0.9013, 0.4409]], None),
    "twelve": (["C", "C", "N", "O", "H", "H", "H", "S", "P", "F", "Na", "U"],
               ["C1", "C2", "N1", "O1", "H1", "H2", "H3", "S1", "P1", "F1", "Na1", "U1"],
               [[0.0123 + 0.0771 * i, 0.9131 - 0.0613 * i, (0.137 * i * i + 0.0411) % 1.0] for i in range(12)], None),
    "half_occ": (["C", "O", "H"], ["C1", "O1", "H1A"], [[0.1231, 0.3117, 0.2713], [0.5533, 0.0791, 0.6127], [0.8419, 0.7277, 0.0911]],
                 [1.0, 0.5, 0.5]),
    # the whole range of occupancies a refinement produces, including an exactly empty site (a placeholder the refinement drove to zero),
    # whole numbers (which a CIF holds as "1" and "0" - integers to the reader) and a non-terminating fraction
    "occ_values": (["C", "O", "H", "N", "S"], ["C1", "O1", "H1A", "N1", "S1"], [[0.1231, 0.3117, 0.2713], [0.5533, 0.0791, 0.6127], [0.8419, 0.7277, 0.0911],
                                                                               [0.3301, 0.9013, 0.4409], [0.6607, 0.2203, 0.8101]], [1.0, 0.0, 0.25, 0.75, 1.0 / 3.0]),
    # sites given many cells away from the origin (coordinates between 5 and 15 in magnitude, where SHELX's own "10 + value = fixed
    # parameter" convention lives - the library writes plain coordinates and must read them back as such)
    "far": (["C", "O", "N"], ["C1", "O1", "N1"], [[6.1651, -7.2513, 0.3127], [12.5533, 0.0791, -9.3873], [-5.6419, 9.7277, 14.0911]], None),
    # labels whose leading letters spell ANOTHER element than the site holds (PDB-style CA / CD1, hydroxyl HO1, NE1)
    "misleading_labels": (["C", "H", "N", "C"], ["CA1", "HO1", "NE1", "CD1"], [[0.1231, 0.3117, 0.2713], [0.5533, 0.0791, 0.6127], [0.8419, 0.7277, 0.0911], [0.3301, 0.9013, 0.4409]], None),
    # the smallest asymmetric unit: one atom (in P1 the whole cell then holds one atom - a one-row coordinate block in every format)
    "one_atom": (["Xe"], ["Xe1"], [[0.1231, 0.3117, 0.2713]], None),
    # special values: coordinates that LOOK like rounded thirds / sixths / twelfths (0.3333, 0.6667, 0.1667, 0.8333, 0.0833) and exactly
    # representable ones (0.5, 0.25, 0.125, 0.75): they are what they are, four decimals or not
    "rounded_fractions": (["C", "O", "N", "S"], ["C1", "O1", "N1", "S1"], [[0.3333, 0.1234, 0.6667], [0.1667, 0.8333, 0.4121], [0.9131, 0.333333, 0.0833], [0.5, 0.25, 0.125]], None),
    # a medium-sized asymmetric unit (70 sites, seven elements): every writer / reader handles row 33, 64, 65 ... like row 1
    "seventy": ([("C", "N", "O", "H", "S", "Cl", "Fe")[i % 7] for i in range(70)], ["%s%d" % (("C", "N", "O", "H", "S", "Cl", "Fe")[i % 7], i + 1) for i in range(70)],
                [[round((0.5 + (i + 1) * 0.8191725134) % 1.0, 5), round((0.5 + (i + 1) * 0.6710436067) % 1.0, 5), round((0.5 + (i + 1) * 0.5497004779) % 1.0, 5)] for i in range(70)], None),
    "precise": (["C", "N"], ["C1", "N1"], [[0.123456789012, 0.987654321098, 0.555555555555], [1 / 3, 2 / 7, 0.1 + 1e-12]], None),
}


def nonterminating(cell):
    a, b, c, al, be, ga = cell
    f = 1.0 + 1.0 / 7.0e2
    out = [a * f, b * f if not (abs(b - a) <= 1e-9) else a * f, c * f if not (abs(c - a) <= 1e-9) else a * f, al, be, ga]
    if not (abs(c - b) >= 1e-9):
        out[2] = out[1]
    # perturb only the free angles
    for i in (3, 4, 5):
        if not (abs(cell[i] - 90.0) <= 1e-9) and not (abs(cell[i] - 120.0) <= 1e-9):
            out[i] = cell[i] + 1.0 / 3.0
    if not (abs(al - be) >= 1e-9) and not (abs(be - ga) >= 1e-9) and not (abs(al - 90) <= 1e-9):
        out[3] = out[4] = out[5] = al + 1.0 / 3.0
    return tuple(out)


def variants(row, tier):
    """deviation-bounded list of (cellvar, asymkey, provenance, route, generations)"""
    d = ("default", "default", "memory", "string", 1)
    out = [d]
    axes = [
        [("oblique",), ("nonterm",), ("pseudo",), ("long_obtuse",), ("eq_ab",), ("eq_bc",), ("eq_ac",)],
        [("two_letter",), ("twelve",), ("one_atom",), ("rounded_fractions",), ("half_occ",), ("occ_values",), ("precise",), ("far",), ("misleading_labels",)],
        [("from_cif",), ("from_res",), ("from_rich_cif",)],
        [("file",)],
        [(2,)],
    ]
    for ai, alts in enumerate(axes):
        for alt in alts:
            v = list(d)
            v[ai] = alt[0]
            out.append(tuple(v))
    extra_pairs = []
    if len(row["symops"]) <= 24:
        # the medium-sized asymmetric unit: alone and together with every provenance / route / generation alternative (kept out of the
        # rotating pair list below, whose order earlier results depend on)
        out.append(("default", "seventy", "memory", "string", 1))
        for a2 in (2, 3, 4):
            for y in axes[a2]:
                v = list(d)
                v[1] = "seventy"
                v[a2] = y[0]
                extra_pairs.append(tuple(v))
        out += extra_pairs[:4] if tier != "thorough" else extra_pairs
    pairs = []
    for (a1, alts1), (a2, alts2) in itertools.combinations(list(enumerate(axes)), 2):
        for x in alts1:
            for y in alts2:
                v = list(d)
                v[a1] = x[0]
                v[a2] = y[0]
                pairs.append(tuple(v))
    if tier == "thorough":
        out += pairs
    else:
        # pairwise interactions in the quick tier: every setting takes three of the 125 two-deviation variants in rotation, so that every
        # PAIR of non-default axis values is explored in about a dozen settings (and every (setting, single deviation) pair completely)
        k = row.get("_index", row["number"] * 7 + row["index_in_number"])
        out += [pairs[(3 * k + j) % len(pairs)] for j in range(3)]
    return out


def equal_parameter_cell(row, which):
    """metrically allowed but accidental equalities: a = b, b = c (and, for triclinic, alpha = gamma) in low-symmetry families"""
    n = row["number"]
    base = list(lattice.compatible_cells(n, row["choice"])[0])
    if n > 74:
        return tuple(base)
    if which == "eq_ab":
        base[1] = base[0]
    elif which == "eq_bc":
        base[2] = base[1]
    elif which == "eq_ac":
        base[2] = base[0]
    if n <= 2 and which == "eq_ab":
        base[5] = base[3]  # gamma = alpha as well
    return tuple(base)


def cell_for(row, cellvar):
    if cellvar.startswith("eq_"):
        return equal_parameter_cell(row, cellvar)
    cells = lattice.compatible_cells(row["number"], row["choice"])
    if cellvar == "default":
        return cells[0]
    if cellvar == "oblique":
        return cells[1]
    if cellvar == "long_obtuse":
        return lattice.long_obtuse_cell(row["number"], row["choice"])      # a long axis together with obtuse angles (components below -10, above 100)
    if cellvar == "pseudo":
        return lattice.pseudo_special_cell(row["number"], row["choice"])    # free parameters a hair off whole numbers / 90 / 120 degrees
    return nonterminating(cells[0])


def safe_positions(ops, frac):
    """
    the library merges unit-cell sites closer than 0.01 (fractional); the asymmetric unit is shifted along a fixed
    generic direction until no two symmetry images are closer than 0.02, so that the expected unit-cell set is unambiguous
    """
    frac = np.array(frac, dtype=float)
    delta = np.array([0.0137, -0.0219, 0.0311])
    placed = np.zeros((0, 3))
    out = []
    for p in frac:
        for k in range(400):
            cand = p + k * delta
            E, _ = expected_uc(ops, [cand], [0])
            E = np.mod(E, 1.0)
            E[E >= 1.0] = 0.0
            allp = np.vstack([placed, E])
            tree = cKDTree(allp, boxsize=1.0 + 1e-15)
            if not len(tree.query_pairs(0.02)):
                placed = allp
                out.append(np.round(cand, 12))
                break
        else:
            raise RuntimeError("no generic placement found")
    return np.array(out)


def build(row, cellvar, asymkey, provenance):
    from chmpy.crystal import Crystal

    syms, labels, frac, occ = ASYMS[asymkey]
    frac = safe_positions([symm.decode(c) for c in row["symops"]], frac)
    cell = cell_for(row, cellvar)
    c = xtal.make_crystal(row["number"], row["choice"], cell, syms, np.array(frac, dtype=float), labels=list(labels),
                          occupation=occ, titl="t%d" % row["number"])
    if provenance == "from_cif":
        c = Crystal.from_cif_string(c.to_cif_string())
    elif provenance == "from_rich_cif":
        # a refinement-style source: further loops that share the atom_site / symmetry prefixes but have other lengths,
        # and unrelated scalars / loops (everything the crystal may carry along and re-emit)
        n_aniso = max(1, (len(labels) + 1) // 2)
        extra = ["_refine_ls_R_factor_gt 0.0412", "_exptl_crystal_colour 'pale yellow'", "loop_", "_atom_site_aniso_label", "_atom_site_aniso_U_11", "_atom_site_aniso_U_22"]
        extra += ["%s 0.0%d1 0.0%d2" % (lab, i + 1, i + 1) for i, lab in enumerate(list(labels)[:n_aniso])]
        extra += ["loop_", "_geom_bond_atom_site_label_1", "_geom_bond_atom_site_label_2", "_geom_bond_distance"]
        extra += ["%s %s 1.%d" % (labels[0], labels[-1], k) for k in range(3 if len(labels) != 3 else 5)]
        c = Crystal.from_cif_string(c.to_cif_string().rstrip("\n") + "\n" + "\n".join(extra) + "\n")
    elif provenance == "from_res":
        c = Crystal.from_shelx_string(c.to_shelx_string(), titl="t%d" % row["number"])
    return c, cell


def expected_uc(ops, frac, Z):
    pts, zs = [], []
    for (R, t) in ops:
        Rm = np.array(R, dtype=float).reshape(3, 3)
        img = np.mod(np.asarray(frac) @ Rm.T + np.array(t) / 12.0, 1.0)
        pts.append(img)
        zs += list(Z)
    return np.vstack(pts), np.array(zs)


def roundtrip(part, row, fmt, var, tmpdir):
    from chmpy.crystal import Crystal

    cellvar, asymkey, prov, route, gens = var
    sk = "%d:%s" % (row["number"], row["choice"])
    case = {"number": row["number"], "choice": row["choice"], "format": fmt, "variant": list(var)}
    vtag = "+".join(str(x) for x in var if x not in ("default", "memory", "string", 1)) or "default"
    part.ev()
    try:
        c, cell = build(row, cellvar, asymkey, prov)
    except Exception as e:
        part.fail("build-%s:%s" % (prov, sk), "could not obtain the crystal (%s) for %s: %r" % (prov, sk, e), case)
        return
    ps = xtal.public_state(c)
    cur = c
    texts = []
    for g in range(gens):
        part.tr()
        try:
            if route == "string":
                if fmt == "cif":
                    text = cur.to_cif_string()
                    new = Crystal.from_cif_string(text)
                elif fmt == "res":
                    text = cur.to_shelx_string()
                    new = Crystal.from_shelx_string(text)
                else:
                    text = cur.to_poscar_string()
                    new = Crystal.from_vasp_string(text)
            else:
                # file names: the format is chosen by the extension (any letter case) for CIF / .res and by the exact NAME for
                # POSCAR / CONTCAR - so a CIF called POSCAR.cif is a CIF; paths are given as str or as pathlib.Path
                names_for = {"cif": ["x.cif", "POSCAR.cif", "my.structure.cif", "CONTCAR.cif", "X.CIF"], "res": ["x.res", "CONTCAR.res", "a.b.res", "POSCAR.res", "Y.RES"],
                             "poscar": ["POSCAR", "CONTCAR"]}[fmt]
                name = names_for[(row["number"] + g) % len(names_for)]
                d = os.path.join(tmpdir, "%d_%s_%s" % (row["number"], abs(hash((row["choice"], var))) % 10 ** 8, g))
                os.makedirs(d, exist_ok=True)
                path = os.path.join(d, name)
                if row["number"] % 3 == 0:
                    import pathlib

                    cur.save(pathlib.Path(path))
                    text = open(path).read()
                    new = Crystal.load(pathlib.Path(path))
                else:
                    cur.save(path)
                    text = open(path).read()
                    new = Crystal.load(path)
                shutil.rmtree(d, ignore_errors=True)
        except Exception as e:
            part.fail("roundtrip-raise:%s:%s:%s" % (fmt, vtag, sk), "%s round trip (%s) of %s raised %s: %s" % (fmt, vtag, sk, type(e).__name__, str(e)[:80]), case)
            return
        if not isinstance(new, Crystal):
            part.fail("roundtrip-type:%s:%s" % (fmt, vtag), "%s load returned %s" % (fmt, type(new).__name__), case)
            return
        texts.append(text)
        compare(part, row, fmt, vtag, ps, new, text, case, cell)
        cur = new
    part.outcome((fmt, vtag, len(row["symops"])))


def compare(part, row, fmt, vtag, ps, new, text, case, cell):
    sk = "%d:%s" % (row["number"], row["choice"])
    key = "%s:%s" % (fmt, vtag)
    ns = xtal.public_state(new)
    ops = [symm.decode(c) for c in row["symops"]]
    if fmt in ("cif", "res"):
        tol_cell = 1e-9 if fmt == "cif" else 5e-7
        d = max(np.abs(np.array(ns["lengths"]) - np.array(ps["lengths"])).max(),
                np.abs(np.degrees(ns["angles"]) - np.degrees(ps["angles"])).max())
        part.dev("cell_%s" % fmt, d)
        if not (d <= tol_cell):
            part.fail("cell:%s:%s" % (key, sk), "%s: cell parameters differ by %g after the round trip of %s" % (fmt, d, sk), case)
        if ns["number"] != ps["number"] or ns["codes"] != ps["codes"]:
            part.fail("spacegroup:%s:%s" % (key, sk), "%s: space group %s:%s (%d ops) read back as %s:%s (%d ops)"
                      % (fmt, ps["number"], ps["choice"], len(ps["codes"]), ns["number"], ns["choice"], len(ns["codes"])), case)
        if ns["Z"] != ps["Z"]:
            part.fail("elements:%s:%s" % (key, sk), "%s: elements %s read back as %s" % (fmt, ps["Z"], ns["Z"]), case)
        if ns["labels"] != ps["labels"]:
            part.fail("labels:%s:%s" % (key, sk), "%s: labels %s read back as %s" % (fmt, ps["labels"], ns["labels"]), case)
        if ns["pos"].shape != ps["pos"].shape:
            part.fail("coords:%s:%s" % (key, sk), "%s: coordinate array shape changed" % fmt, case)
        else:
            dp = np.abs(ns["pos"] - ps["pos"]).max()
            part.dev("frac_%s" % fmt, dp)
            if not (dp <= 5.0e-13 + 1e-15):
                part.fail("coords:%s:%s" % (key, sk), "%s: fractional coordinates differ by %g (written precision 1e-12)" % (fmt, dp), case)
        if fmt == "cif":
            o0 = ps["occ"] if ps["occ"] is not None else np.ones(len(ps["Z"]))
            o1 = ns["occ"] if ns["occ"] is not None else np.ones(len(ns["Z"]))
            if len(o0) != len(o1) or not (np.abs(np.asarray(o0, float) - np.asarray(o1, float)).max() <= 1e-12):
                part.fail("occupancy:%s:%s" % (key, sk), "cif: occupancies %s read back as %s" % (list(o0), list(o1)), case)
        # independent reading of the text
        part.trace()
        try:
            if fmt == "cif":
                b = list(ciftext.parse(text).values())[0]
                tcell = [ciftext.number(b[k]) for k in ("cell_length_a", "cell_length_b", "cell_length_c", "cell_angle_alpha", "cell_angle_beta", "cell_angle_gamma")]
                opkey = "symmetry_equiv_pos_as_xyz" if "symmetry_equiv_pos_as_xyz" in b else "space_group_symop_operation_xyz"
                tops = sorted(symm.encode(symm.parse_string(str(s))) for s in b[opkey])
                tlabels = [str(x) for x in b["atom_site_label"]]
                tsyms = [str(x) for x in b["atom_site_type_symbol"]]
                tfrac = np.array([[ciftext.number(v) for v in b["atom_site_fract_" + ax]] for ax in "xyz"], dtype=float).T
            else:
                r = restext.parse_res(text)
                tcell = r["CELL"]
                tops = sorted(symm.encode(o) for o in r["OPS"])
                tlabels = [a["label"] for a in r["ATOM"]]
                tsyms = [a["symbol"] for a in r["ATOM"]]
                tfrac = np.array([a["frac"] for a in r["ATOM"]])
            want_cell = list(ps["lengths"]) + list(np.degrees(ps["angles"]))
            if not (np.abs(np.array(tcell, float) - np.array(want_cell)).max() <= tol_cell):
                part.fail("text-cell:%s:%s" % (key, sk), "%s text: cell %s, crystal has %s" % (fmt, tcell, np.round(want_cell, 7)), case)
            if tops != ps["codes"]:
                part.fail("text-ops:%s:%s" % (key, sk), "%s text describes %d operations that are not the crystal's %d (reference reading of LATT/SYMM or the xyz loop)"
                          % (fmt, len(tops), len(ps["codes"])), case)
            if tlabels != ps["labels"]:
                part.fail("text-labels:%s:%s" % (key, sk), "%s text: labels %s" % (fmt, tlabels), case)
            from chmpy.core.element import Element

            wantsym = [Element.from_atomic_number(z).symbol for z in ps["Z"]]
            if [s.capitalize() for s in tsyms] != wantsym:
                part.fail("text-symbols:%s:%s" % (key, sk), "%s text: symbols %s, expected %s" % (fmt, tsyms, wantsym), case)
            if tfrac.shape != ps["pos"].shape or not (np.abs(tfrac - ps["pos"]).max() <= 5.0e-13 + 1e-15):
                part.fail("text-coords:%s:%s" % (key, sk), "%s text: coordinates deviate from the crystal's" % fmt, case)
        except Exception as e:
            part.fail("text-unreadable:%s:%s" % (key, sk), "%s text could not be read by the reference reader: %r" % (fmt, e), case)
    else:
        if ns["number"] != 1 or len(ns["codes"]) != 1:
            part.fail("poscar-not-P1:%s" % sk, "POSCAR read back in space group %s" % ns["number"], case)
        d = np.abs(ns["direct"] - ps["direct"]).max()
        part.dev("lattice_poscar", d)
        if not (d <= 5e-9 + 1e-12):
            part.fail("poscar-lattice:%s:%s" % (vtag, sk), "POSCAR: lattice vectors differ by %g" % d, case)
        E, Zs = expected_uc(ops, ps["pos"], ps["Z"])
        got = np.mod(ns["pos"], 1.0)
        if len(got) != len(E):
            part.fail("poscar-count:%s:%s" % (vtag, sk), "POSCAR: %d atoms read back, unit cell has %d" % (len(got), len(E)), case)
        else:
            tree = cKDTree(np.mod(E, 1.0), boxsize=1.0 + 1e-15)
            g2 = got.copy()
            g2[g2 >= 1.0] = 0.0
            dist, idx = tree.query(g2)
            if not (dist.max() <= 2e-8) or len(set(idx.tolist())) != len(E) or not np.array_equal(Zs[idx], np.array(ns["Z"])):
                part.fail("poscar-atoms:%s:%s" % (vtag, sk), "POSCAR: set of unit-cell atoms differs from the symmetry expansion (max dev %g)" % dist.max(), case)
        part.trace()
        try:
            p = restext.parse_poscar(text)
            if not (np.abs(np.array(p["lattice"]) - ps["direct"]).max() <= 5e-9 + 1e-12) or len(p["positions"]) != len(E) or not p["mode"].startswith("d"):
                part.fail("text-poscar:%s:%s" % (vtag, sk), "POSCAR text (reference reading) disagrees with the crystal", case)
        except Exception as e:
            part.fail("text-unreadable:poscar:%s" % sk, "POSCAR text unreadable by the reference reader: %r" % e, case)


def multiblock(part, rows):
    """a CIF file holding two crystals: loading returns one crystal per data block, each equal to its source; data_block_name selects one"""
    from chmpy.crystal import Crystal

    if len(rows) < 2:
        return
    a, _ = build(rows[0], "default", "default", "memory")
    b, _ = build(rows[1], "oblique", "two_letter", "memory")
    a.properties["titl"], b.properties["titl"] = "first", "second_block"
    text = a.to_cif_string().replace("#END", "") + b.to_cif_string()
    case = {"kind": "multiblock", "settings": [[rows[0]["number"], rows[0]["choice"]], [rows[1]["number"], rows[1]["choice"]]]}
    part.ev()
    part.tr()
    try:
        got = Crystal.from_cif_string(text)
        one = Crystal.from_cif_string(text, data_block_name="second_block")
    except Exception as e:
        part.fail("multiblock-raise", "CIF with two data blocks raised %s: %s" % (type(e).__name__, str(e)[:80]), case)
        return
    if not isinstance(got, dict) or sorted(got) != ["first", "second_block"]:
        part.fail("multiblock-names", "CIF with two data blocks gives %r" % (sorted(got) if isinstance(got, dict) else type(got).__name__), case)
        return
    for name, src in (("first", a), ("second_block", b)):
        for label, c in ((name, got[name]),) + (((name + " (by name)", one),) if name == "second_block" else ()):
            ps, ns = xtal.public_state(src), xtal.public_state(c)
            if ns["number"] != ps["number"] or ns["codes"] != ps["codes"] or ns["Z"] != ps["Z"] or ns["labels"] != ps["labels"] \
                    or ns["pos"].shape != ps["pos"].shape or not (np.abs(ns["pos"] - ps["pos"]).max() <= 5e-13) \
                    or not (np.abs(np.array(ns["lengths"]) - np.array(ps["lengths"])).max() <= 1e-9):
                part.fail("multiblock-content", "data block %s of a two-block CIF does not reproduce its crystal" % label, case)
    part.outcome(("multiblock", rows[0]["number"] % 3))


def near_special(part, which):
    """
    a partially occupied site NEAR a special position (its images lie inside the documented 0.01 merge distance): the crystal's
    unit cell holds one merged atom there, and the POSCAR - written as the first thing done with the object, or after a
    query - holds the same set of unit-cell atoms; CIF / .res keep the asymmetric unit
    """
    from chmpy.crystal import Crystal

    def make():
        if which == "P-1":
            return xtal.make_crystal(2, "", (7.1, 8.3, 9.7, 81.0, 97.0, 103.0), ["Cu", "O", "H", "H"],
                                     np.array([[0.003, 0.002, 0.001], [0.31, 0.27, 0.63], [0.41, 0.33, 0.63], [0.23, 0.35, 0.66]]),
                                     labels=["Cu1", "O1", "H1", "H2"], occupation=np.array([0.5, 1.0, 1.0, 1.0]), titl="near")
        if which == "P2/m":
            return xtal.make_crystal(10, "b", (7.1, 8.3, 9.7, 90.0, 101.0, 90.0), ["Cl", "O"],
                                     np.array([[0.27, 0.0031, 0.63], [0.11, 0.37, 0.21]]), labels=["Cl1", "O1"], occupation=np.array([0.5, 1.0]), titl="near")
        from mc.checks import c14

        return c14.near_axis_r3()

    twin = make()
    uc = twin.unit_cell_atoms()
    want = np.mod(np.asarray(uc["frac_pos"]), 1.0)
    wantZ = np.asarray(uc["element"])
    for order in ("poscar-first", "after-query", "after-molecules"):
        for route in ("string", "file"):
            part.ev()
            part.tr()
            case = {"kind": "near_special", "which": which}
            c = make()
            try:
                if order == "after-query":
                    c.unit_cell_atoms()
                elif order == "after-molecules":
                    c.unit_cell_molecules()
                if route == "string":
                    new = Crystal.from_vasp_string(c.to_poscar_string())
                else:
                    d = tempfile.mkdtemp(prefix="c10n_", dir="/dev/shm" if os.path.isdir("/dev/shm") else None)
                    try:
                        c.save(os.path.join(d, "POSCAR"))
                        new = Crystal.load(os.path.join(d, "POSCAR"))
                    finally:
                        shutil.rmtree(d, ignore_errors=True)
                got = np.mod(np.asarray(new.asymmetric_unit.positions), 1.0)
                gotZ = np.asarray(new.asymmetric_unit.atomic_numbers)
            except Exception as e:
                part.fail("near-special:raise:%s" % order, "POSCAR round trip of the %s structure (%s, %s) raised %r" % (which, order, route, e), case)
                continue
            ok = len(got) == len(want)
            if ok:
                tree = cKDTree(np.mod(want, 1.0), boxsize=1.0 + 1e-15)
                g2 = got.copy()
                g2[g2 >= 1.0] = 0.0
                dist, idx = tree.query(g2)
                ok = dist.max() < 2e-8 and len(set(idx.tolist())) == len(want) and np.array_equal(wantZ[idx], gotZ)
            if not ok:
                part.fail("near-special:poscar-atoms:%s" % order, "POSCAR (%s, %s) of the %s structure with a half-occupied site near a special position holds %d atoms, the crystal's unit cell has %d"
                          % (order, route, which, len(got), len(want)), case)
            part.outcome(("near_special", which, order, route, len(got)))
    for fmt in ("cif", "res"):
        part.ev()
        part.tr()
        c = make()
        ps = xtal.public_state(c)
        try:
            new = Crystal.from_cif_string(c.to_cif_string()) if fmt == "cif" else Crystal.from_shelx_string(c.to_shelx_string())
            ns = xtal.public_state(new)
            if ns["Z"] != ps["Z"] or not (np.abs(ns["pos"] - ps["pos"]).max() <= 5e-13) or len(new.unit_cell_atoms()["element"]) != len(want):
                part.fail("near-special:%s" % fmt, "%s round trip of the %s structure changes the asymmetric unit or the number of unit-cell atoms" % (fmt, which), {"kind": "near_special", "which": which})
        except Exception as e:
            part.fail("near-special:raise:%s" % fmt, "%s round trip of the %s structure raised %r" % (fmt, which, e), {"kind": "near_special", "which": which})
    part.nstates(1)


def integer_columns(part, which):
    """
    coordinates that are whole numbers for EVERY atom in one column (all atoms on the plane x = 0, z = 1, ...): the text then holds
    integers in that column, and the file must still read back to the same asymmetric unit
    """
    from chmpy.crystal import Crystal

    number, choice, cell = {"P1": (1, "", (6.1, 7.3, 8.9, 83.0, 99.0, 107.0)), "P-1": (2, "", (6.1, 7.3, 8.9, 83.0, 99.0, 107.0)),
                            "Cmce": (64, "", (4.38, 10.5, 3.31, 90.0, 90.0, 90.0)), "P21/c": (14, "b1", (6.1, 7.3, 8.9, 90.0, 99.0, 90.0))}[which]
    base = np.array([[0.21, 0.10168, 0.08056], [0.37, 0.31, 0.72], [0.55, 0.64, 0.38]])
    for col, val in itertools.product((0, 1, 2), (0.0, 1.0, -1.0, 2.0)):
        for natoms in (1, 3):
            frac = base[:natoms].copy()
            frac[:, col] = val
            for fmt in ("cif", "res"):
                part.ev()
                part.tr()
                case = {"kind": "intcol", "which": which}
                try:
                    c = xtal.make_crystal(number, choice, cell, ["P", "O", "C"][:natoms], frac, labels=["P1", "O1", "C1"][:natoms], titl="intcol")
                    new = Crystal.from_cif_string(c.to_cif_string()) if fmt == "cif" else Crystal.from_shelx_string(c.to_shelx_string())
                    got = np.asarray(new.asymmetric_unit.positions, dtype=float)
                except Exception as e:
                    part.fail("integer-column:raise:%s" % fmt, "%s round trip of %s with column %s = %g for every atom raised %r" % (fmt, which, "xyz"[col], val, e), case)
                    continue
                if got.shape != frac.shape or not (np.abs(got - frac).max() <= 5e-13):
                    part.fail("integer-column:%s:%s" % (fmt, "xyz"[col]), "%s round trip of %s with %s = %g for every atom: coordinates %s read back as %s"
                              % (fmt, which, "xyz"[col], val, frac.tolist(), got.tolist() if got.shape == frac.shape else got.shape), case)
                part.outcome(("intcol", fmt, col, val, natoms))
    part.nstates(1)


def shelx_spelling(op):
    """an operation the way SHELX files spell it: upper case, no leading plus sign, ', ' between the components"""
    R, t = op
    comps = []
    for i in range(3):
        parts = []
        if t[i] % 12:
            from fractions import Fraction

            fr = Fraction(t[i] % 12, 12)
            parts.append("%d/%d" % (fr.numerator, fr.denominator))
        for j, sym in enumerate("XYZ"):
            cf = R[3 * i + j]
            if cf:
                parts.append(("-" if cf < 0 else "+") + sym)
        txt = "".join(parts)
        comps.append(txt[1:] if txt.startswith("+") else txt)
    return ", ".join(comps)


def foreign_files(part, rows):
    """
    files NOT written by the library but by the formats' own conventions (a SHELX .res with upper-case SYMM cards, ZERR / UNIT / HKLF
    cards and the true LATT; a POSCAR with a scale factor other than 1): the crystal read from them is the crystal described, its
    cell object is self-consistent, and it then round-trips through the library's own writers
    """
    from chmpy.crystal import Crystal

    for row in rows:
        ops = [symm.decode(c) for c in row["symops"]]
        sk = "%d:%s" % (row["number"], row["choice"])
        cell = cell_for(row, "default")
        syms, labels, frac, occ = ASYMS["default"]
        frac = np.array(safe_positions(ops, frac), dtype=float)
        case = {"kind": "foreign", "number": row["number"], "choice": row["choice"]}
        # ---- SHELX
        cent = restext.CENTRING
        pure_t = {o[1] for o in ops if o[0] == symm.IDENTITY_R and o[1] != (0, 0, 0)}
        n_latt = [k for k, v in cent.items() if set(v) == pure_t]
        if n_latt:
            latt = n_latt[0] * (1 if (symm.MINUS_I, (0, 0, 0)) in set(ops) else -1)
            reps, covered = [], set(restext.expand_latt([], latt))
            for o in ops:
                if o not in covered:
                    reps.append(o)
                    covered |= restext.expand_latt([o], latt)
            lines = ["TITL foreign %s" % sk.replace(":", "_"), "CELL 0.71073 %.4f %.4f %.4f %.3f %.3f %.3f" % tuple(cell), "ZERR %d 0.001 0.001 0.001 0 0 0" % len(ops), "LATT %d" % latt]
            lines += ["SYMM " + shelx_spelling(o) for o in reps]
            lines += ["SFAC " + " ".join(syms), "UNIT " + " ".join(str(len(ops)) for _ in syms), "FVAR 1.0"]   # (only cards the library's reader documents: no L.S. / BOND / ...)
            lines += ["%s %d %.6f %.6f %.6f 11.00000 0.05" % (lab, i + 1, f[0], f[1], f[2]) for i, (lab, f) in enumerate(zip(labels, frac))]
            lines += ["HKLF 4", "END", ""]
            text = "\n".join(lines)
            part.ev()
            part.tr()
            try:
                c = Crystal.from_shelx_string(text)
                ps = xtal.public_state(c)
                wantcell = [float("%.4f" % x) for x in cell[:3]] + [float("%.3f" % x) for x in cell[3:]]
                if ps["number"] != row["number"] or ps["codes"] != sorted(row["symops"]):
                    part.fail("foreign-res:group:%s" % sk, "a standard SHELX file of %s (LATT %d, %d upper-case SYMM cards) is read as %d with %d operations" % (sk, latt, len(reps), ps["number"], len(ps["codes"])), case)
                elif not (np.abs(np.array(ps["lengths"] + list(np.degrees(ps["angles"]))) - np.array(wantcell)).max() <= 1e-6) or [Element_sym(z) for z in ps["Z"]] != list(syms) \
                        or not (np.abs(ps["pos"] - np.round(frac, 6)).max() <= 5e-7):
                    part.fail("foreign-res:content:%s" % sk, "a standard SHELX file of %s is read with another cell / elements / coordinates" % sk, case)
                else:
                    new = Crystal.from_shelx_string(c.to_shelx_string())
                    if xtal.public_state(new)["codes"] != ps["codes"]:
                        part.fail("foreign-res:second-generation:%s" % sk, "re-writing a crystal read from a standard SHELX file changes its operations", case)
            except Exception as e:
                part.fail("foreign-res:raise:%s" % sk, "a standard SHELX file of %s (LATT %d) raised %s: %s" % (sk, latt, type(e).__name__, str(e)[:80]), case)
        # ---- POSCAR with a scale factor (P1 content: the images of the sites)
        M = lattice.cell_matrix(*cell)
        E, Zs = expected_uc(ops, frac, [{"C": 6, "O": 8, "H": 1}[x] for x in syms])
        order = np.argsort(Zs, kind="stable")
        for scale in (1.02, 0.5, 3.905):
            part.ev()
            part.tr()
            lat = M / scale
            counts = [(z, int((Zs == z).sum())) for z in sorted(set(Zs.tolist()))]
            lines = ["foreign poscar", "%.10f" % scale] + ["%.12f %.12f %.12f" % tuple(r) for r in lat]
            lines += [" ".join(Element_sym(z) for z, _ in counts), " ".join(str(n) for _, n in counts), "Direct"]
            lines += ["%.12f %.12f %.12f" % tuple(np.mod(p, 1.0)) for p in E[order]] + [""]
            try:
                c = Crystal.from_vasp_string("\n".join(lines))
                uc = c.unit_cell
                D, I = np.asarray(uc.direct, dtype=float), np.asarray(uc.inverse, dtype=float)
                vol = abs(np.linalg.det(M))
                bad = []
                if not (np.abs(D - M).max() <= 1e-8 * np.abs(M).max()):
                    bad.append("lattice vectors are not scale x the written ones")
                if not (np.abs(D @ I - np.eye(3)).max() <= 1e-9):
                    bad.append("direct @ inverse != identity")
                if not (abs(uc.volume() - vol) <= 1e-8 * vol):
                    bad.append("volume() %.6f != determinant %.6f" % (uc.volume(), vol))
                if not (np.abs(np.asarray(uc.lengths) - np.linalg.norm(M, axis=1)).max() <= 1e-8 * np.abs(M).max()):
                    bad.append("lengths are not those of the scaled vectors")
                if len(c.asymmetric_unit) != len(E):
                    bad.append("%d atoms read, %d written" % (len(c.asymmetric_unit), len(E)))
                if bad:
                    part.fail("foreign-poscar:%s" % sk, "POSCAR with scale factor %g: %s" % (scale, "; ".join(bad)), case)
            except Exception as e:
                part.fail("foreign-poscar:raise:%s" % sk, "POSCAR with scale factor %g raised %s: %s" % (scale, type(e).__name__, str(e)[:80]), case)
        part.outcome(("foreign", len(ops) > 4))
    part.nstates(len(rows))


def Element_sym(z):
    from mc.ref.elements import ELEMENTS

    return ELEMENTS[int(z) - 1][0]


def all_elements(part, zs):
    """every element Z = 1..103 (given by atomic number) through the three formats: the element written is the element read"""
    from chmpy.crystal import Crystal

    for z in zs:
        for fmt in ("cif", "res", "poscar"):
            part.ev()
            part.tr()
            case = {"kind": "elements", "z": int(z)}
            try:
                c = xtal.make_crystal(2, "", (6.1, 7.3, 8.9, 83.0, 99.0, 107.0), [int(z), 8, int(z)], np.array([[0.11, 0.23, 0.31], [0.43, 0.57, 0.71], [0.79, 0.13, 0.47]]))
                new = Crystal.from_cif_string(c.to_cif_string()) if fmt == "cif" else Crystal.from_shelx_string(c.to_shelx_string()) if fmt == "res" else Crystal.from_vasp_string(c.to_poscar_string())
                got = sorted(int(v) for v in new.asymmetric_unit.atomic_numbers)
                want = sorted([int(z), 8, int(z)] * (2 if fmt == "poscar" else 1))
                if got != want:
                    part.fail("element-changed:%s" % fmt, "%s round trip of a crystal holding Z=%d: atomic numbers %s read back as %s" % (fmt, z, want, got), case)
            except Exception as e:
                part.fail("element-raise:%s" % fmt, "%s round trip of a crystal holding Z=%d raised %s: %s" % (fmt, z, type(e).__name__, str(e)[:80]), case)
        part.outcome(("elements", int(z) % 7))
    part.nstates(len(zs))


def worker(part, rows, tier):
    if rows and rows[0] == "elements":
        all_elements(part, rows[1])
        return
    if rows and rows[0] == "foreign":
        foreign_files(part, rows[1])
        return
    if rows and isinstance(rows[0], str) and rows[0].startswith("intcol:"):
        integer_columns(part, rows[0].split(":", 1)[1])
        return
    if rows and isinstance(rows[0], str):
        for which in rows:
            near_special(part, which)
        return
    tmpdir = tempfile.mkdtemp(prefix="c10_", dir=os.environ.get("VERIF_SCRATCH", "/dev/shm" if os.path.isdir("/dev/shm") else None))
    try:
        for row in rows:
            for var in variants(row, tier):
                for fmt in FORMATS:
                    roundtrip(part, row, fmt, var, tmpdir)
            part.nontriv("%d:%s" % (row["number"], row["choice"]))
            part.state("%d:%s" % (row["number"], row["choice"]))
        multiblock(part, rows)
        if rows and rows[0]["number"] in (14, 167):
            c, _ = build(rows[0], "default", "default", "memory")
            part.sample({"setting": "%d:%s" % (rows[0]["number"], rows[0]["choice"]), "res_text": c.to_shelx_string().split("\n")[:8]})
    finally:
        shutil.rmtree(tmpdir, ignore_errors=True)


def run(ctx):
    from mc.core import chunked

    table = symm.load_table()
    nvar = len(variants(table[0], ctx.tier))
    ctx.rule = ("530 settings x {CIF, .res, POSCAR} x %d variants within %d deviation(s) of the default (cell: oblique / non-terminating / free parameters a hair off whole numbers and special angles / accidentally equal lengths a=b, b=c, a=c; asymmetric unit: "
                "two-letter elements+suffix labels / 12 atoms / one atom / half occupancies / occupancies 1, 0, 1/4, 3/4, 1/3 / 12-digit coordinates; provenance: from CIF / from a refinement-style CIF with extra same-prefix loops of other lengths / from .res; route: "
                "files incl. POSCAR, CONTCAR; two generations); states = settings, transitions = save->load steps, traces = texts read by the "
                "independent reference readers" % (nvar, 2 if ctx.thorough else 1))
    ctx.bounds = {"settings": len(table), "variants_per_setting": nvar, "formats": list(FORMATS)}
    ctx.assumptions = ["precision: CIF cell 1e-9, .res cell 5e-7 (6 written decimals), coordinates 5e-13 (12 decimals), POSCAR 5e-9 lattice / 2e-8 positions",
                       "space group compared by International Tables number and operation set (not by choice label)"]
    order = sorted(table, key=lambda r: -len(r["symops"]))
    ctx.bounds["near_special_structures"] = "P-1 / P2/m / R3 with a partially occupied site inside the merge distance of its own images x {POSCAR first, after a query, after molecules} x {string, file}"
    ctx.pmap(worker, list(chunked(order, 4)) + [["P-1"], ["P2/m"], ["R3"]] + [["intcol:" + w] for w in ("P1", "P-1", "Cmce", "P21/c")]
             + [["elements", list(c)] for c in chunked(range(1, 104), 13)]
             + [["foreign", c] for c in chunked([r for r in table if r["index_in_number"] == 0 or ctx.thorough], 24)], tier=ctx.tier)


def replay(ctx, case):
    table = symm.load_table()
    if case.get("kind") == "elements":
        all_elements(ctx, [case["z"]])
        return
    if case.get("kind") == "foreign":
        foreign_files(ctx, [r for r in table if r["number"] == case["number"] and r["choice"] == case["choice"]])
        return
    if case.get("kind") == "intcol":
        integer_columns(ctx, case["which"])
        return
    if case.get("kind") == "near_special":
        near_special(ctx, case["which"])
        return
    if case.get("kind") == "multiblock":
        rows = [r for (n, ch) in case["settings"] for r in table if r["number"] == n and r["choice"] == ch]
        multiblock(ctx, rows)
        return
    tmpdir = tempfile.mkdtemp(prefix="c10_")
    try:
        for r in table:
            if r["number"] == case["number"] and r["choice"] == case["choice"]:
                roundtrip(ctx, r, case["format"], tuple(case["variant"]), tmpdir)
    finally:
        shutil.rmtree(tmpdir, ignore_errors=True)

"""
C08 - shape invariants computed from harmonic coefficients are rotation invariant.

Rotations: BFS over words in a generator set (states = distinct rotation matrices, deduplicated), plus the
24 octahedral elements.  Coefficient vectors: for small L ALL sums of <= 3 basis vectors with phase
variants (by polarisation these determine the quadratic N and the cubic P forms), for larger L all e_a,
e_a+e_b within/across adjacent degrees and dense vectors, both general complex and completed-real.
Rotated coefficients come from exact quadrature of scipy's harmonics (mc.ref.ylm.rotation_blocks).
"""
import itertools
import math

import numpy as np

from mc.ref import ylm
from mc.ref.mol import rot

PROPERTY = "C08"
LEVEL = "model_checking"


def generators():
    return [("Rx72", rot((1, 0, 0), 2 * math.pi / 5)), ("Ry51", rot((0, 1, 0), 2 * math.pi / 7)), ("Rz1rad", rot((0, 0, 1), 1.0)),
            ("C4z", rot((0, 0, 1), math.pi / 2)), ("C3_111", rot((1, 1, 1), 2 * math.pi / 3))]


def rot_key(R):
    return tuple(np.round(R, 9).ravel() + 0.0)


def rotation_words(depth):
    """BFS over words; returns list of (word, R) for distinct rotations (identity excluded), transitions"""
    gens = generators()
    seen = {rot_key(np.eye(3)): ()}
    frontier = [((), np.eye(3))]
    out = []
    trans = 0
    for d in range(depth):
        nxt = []
        for w, R in frontier:
            for name, G in gens:
                R2 = G @ R
                trans += 1
                k = rot_key(R2)
                if k not in seen:
                    seen[k] = w + (name,)
                    nxt.append((w + (name,), R2))
                    out.append((w + (name,), R2))
        frontier = nxt
    return out, trans


def octahedral():
    o = []
    for perm in itertools.permutations(range(3)):
        for signs in itertools.product((1, -1), repeat=3):
            M = np.zeros((3, 3))
            for i, p in enumerate(perm):
                M[i, p] = signs[i]
            if not (abs(np.linalg.det(M) - 1) >= 1e-9) and not np.allclose(M, np.eye(3)):
                o.append((("oct",), M))
    return o


def count_P(L):
    n = 0
    for l2 in range(1, L + 1):
        for l1 in range(l2, L + 1):
            for l in range(l1, L + 1):
                if (l1 - l2 > l) or (l1 + l2 < l):
                    continue
                if ((l % 2 == 0) or (l2 != l1)) and ((l2 % 2 == 0) or (l1 != l)):
                    n += 1
    return n


def cube(v):
    return np.sign(v) * np.abs(v) ** 3


def vectors(L, mode, real):
    """generator of (tag, complex-layout coefficient vector)"""
    n = (L + 1) ** 2
    lms = ylm.lm_complex(L)

    def unit(k, ph=1.0):
        e = np.zeros(n, dtype=complex)
        e[k] = ph
        return e

    def realify(c):
        # project onto coefficients of a real function: c(l,-m) = (-1)^m conj c(l,m)
        out = np.zeros_like(c)
        for k, (l, m) in enumerate(lms):
            if m >= 0:
                partner = ylm.idx_c(l, -m)
                v = 0.5 * (c[k] + (-1) ** m * np.conj(c[partner])) if m > 0 else c[k].real
                out[k] = v
                if m > 0:
                    out[partner] = (-1) ** m * np.conj(v)
        return out

    fin = realify if real else (lambda c: c)
    idx = range(n)
    if mode in ("triples", "pairs", "singles"):
        for a in idx:
            yield ("e", (a,)), fin(unit(a))
            yield ("ie", (a,)), fin(unit(a, 1j))
        if mode in ("pairs", "triples"):
            for a, b in itertools.combinations(idx, 2):
                yield ("e+e", (a, b)), fin(unit(a) + unit(b))
                yield ("e+ie", (a, b)), fin(unit(a) + unit(b, 1j))
        if mode == "triples":
            for a, b, c in itertools.combinations(idx, 3):
                yield ("e+e+e", (a, b, c)), fin(unit(a) + unit(b) + unit(c))
                yield ("e+e+ie", (a, b, c)), fin(unit(a) + unit(b) + unit(c, 1j))
    elif mode == "adjacent":
        for a in idx:
            yield ("e", (a,)), fin(unit(a))
        for a, b in itertools.combinations(idx, 2):
            if abs(lms[a][0] - lms[b][0]) <= 1:
                yield ("e+ie", (a, b)), fin(unit(a) + unit(b, 1j))
    for w in range(4):
        k = np.arange(n)
        v = (np.sin(1.0 + (1.7 + w) * k) + 0.3) / (1.0 + 0.2 * k) + 1j * np.cos(0.3 + (2.3 - 0.4 * w) * k) / (1.0 + 0.1 * k)
        yield ("dense", (w,)), fin(v)
    # overall magnitude: the same dense function measured in other units (coefficients of order 1e-13, 1e-10, 1e8) - invariance is a
    # statement relative to the size of the function, whatever that size is
    for w, mag in enumerate((1e-13, 1e-10, 1e-6, 1e8)):
        k = np.arange(n)
        v = (np.sin(1.0 + 1.7 * k) + 0.3) / (1.0 + 0.2 * k) + 1j * np.cos(0.3 + 2.3 * k) / (1.0 + 0.1 * k)
        yield ("scaled-dense", (w,)), fin(v * mag)
        # ... and one whose largest coefficient is NOT the rotation-invariant l = 0 term (flat spectrum, no constant part): the largest
        # single coefficient then changes under rotation, the function's size does not
        f = np.sin(1.0 + 1.7 * k) + 0.3 + 1j * np.cos(0.3 + 2.3 * k)
        f[0] = 0.0
        yield ("scaled-flat", (w,)), fin(f * mag)
    # a wide dynamic range inside ONE vector: two whole degrees carry only 1e-13 of the others
    if n > 36:
        k = np.arange(n)
        v = (np.sin(1.0 + 1.7 * k) + 0.3) + 1j * np.cos(0.3 + 2.3 * k)
        lsq = np.array([l for (l, m) in lms])
        v = np.where((lsq == 5) | (lsq == min(9, lsq.max())), v * 1e-13, v)
        yield ("wide-range", (0,)), fin(v)
    # decaying spectra (what shape functions look like): |c_lm| ~ 10^(-l/2) and 10^(-l)
    ls = np.array([l for (l, m) in lms], dtype=float)
    for w, rate in enumerate((0.5, 1.0)):
        k = np.arange(n)
        v = ((np.sin(1.0 + 1.7 * k) + 1.3) + 1j * np.cos(0.3 + 2.3 * k)) * 10.0 ** (-rate * ls)
        yield ("decaying", (w,)), fin(v)


def invariants_of(L, c, sht):
    from chmpy.shape.shape_descriptors import make_invariants, make_N_invariants

    N = make_N_invariants(c)
    inv = make_invariants(L, c, kinds="NP")
    P = inv[len(N):]
    ps = sht.power_spectrum(c)
    return N, P, ps


def job_worker(part, job):
    from chmpy.shape.sht import SHT

    L, mode, real, rots = job
    sht = SHT(L)
    blocks = [(w, ylm.rotation_blocks(L, R)) for (w, R) in rots]
    # self-check of the reference: blocks are unitary
    for w, bl in blocks:
        for l, D in enumerate(bl):
            if not (np.abs(D @ D.conj().T - np.eye(2 * l + 1)).max() <= 1e-10):
                part.fail("harness:rotation-block", "reference rotation block not unitary (L=%d l=%d)" % (L, l), {"kind": "harness"})
                return
    nN = L + 1
    lkey = "L=%d" % L
    for (tag, idxs), c in vectors(L, mode, real):
        c = np.ascontiguousarray(c, dtype=np.complex128)
        part.ev()
        N0, P0, S0 = invariants_of(L, c, sht)
        if np.shape(S0) != (L + 1,) or np.shape(N0) != (L + 1,):
            part.fail("spectrum-shape", "L=%d: power spectrum of shape %s, N invariants of shape %s, expected %d entries each" % (L, np.shape(S0), np.shape(N0), L + 1),
                      {"kind": "vec", "L": L, "mode": mode, "real": real, "tag": tag, "idx": list(idxs)})
            continue
        if real and np.shape(sht.power_spectrum(ylm.real_layout_from_full(L, c))) != (L + 1,):
            part.fail("spectrum-shape", "L=%d: real-layout power spectrum of shape %s, expected %d entries" % (L, np.shape(sht.power_spectrum(ylm.real_layout_from_full(L, c))), L + 1),
                      {"kind": "vec", "L": L, "mode": mode, "real": real, "tag": tag, "idx": list(idxs)})
            continue
        scale2 = float(np.sum(np.abs(c) ** 2)) or 1.0
        scale3 = scale2 ** 1.5
        part.nstates(1)
        if not (np.all(np.isfinite(N0)) and np.all(np.isfinite(P0))):
            part.fail("nonfinite:%s" % lkey, "non-finite invariants for %s%s (L=%d)" % (tag, idxs, L), {"kind": "vec", "L": L, "mode": mode, "real": real, "tag": tag, "idx": list(idxs)})
            continue
        for (w, bl) in blocks:
            part.tr()
            cr = np.ascontiguousarray(ylm.apply_blocks(L, bl, c))
            N1, P1, S1 = invariants_of(L, cr, sht)
            case = {"kind": "vec", "L": L, "mode": mode, "real": real, "tag": tag, "idx": list(idxs), "word": list(w)}
            # every degree is judged relative to its own magnitude (floating-point accuracy per degree), with an absolute
            # floor at 1e-13 of the total norm
            dN = float(np.max(np.abs(N1 - N0) / (np.abs(N0) + 1e-4 * math.sqrt(scale2) * 1e-9 + 1e-300)))
            dN = min(dN, float(np.abs(N1 - N0).max() / math.sqrt(scale2)) * 1e4) if not np.isfinite(dN) else dN
            part.dev("N_rel", dN)
            if not (dN <= 1e-9):
                l_bad = int(np.argmax(np.abs(N1 - N0)))
                part.fail("N-not-invariant:%s" % ("real" if real else "complex"), "N invariant of degree %d changes by %.3g (relative) under rotation %s for %s%s, L=%d"
                          % (l_bad, dN, "*".join(w), tag, idxs, L), case)
                break
            dP = np.abs(cube(P1) - cube(P0)).max() / scale3 if len(P0) else 0.0
            part.dev("P_cubed_rel", dP)
            if not (dP <= 1e-9):
                part.fail("P-not-invariant:%s" % ("real" if real else "complex"), "a P invariant (cubed) changes by %.3g (relative) under rotation %s for %s%s, L=%d"
                          % (dP, "*".join(w), tag, idxs, L), case)
                break
            dS = np.abs(S1 - S0).max() / scale2
            if not (dS <= 1e-9):
                part.fail("power-spectrum-not-invariant", "power spectrum changes by %.3g under rotation %s for %s%s, L=%d" % (dS, "*".join(w), tag, idxs, L), case)
                break
            if real:
                # the real-layout power spectrum of the same real function must agree as well
                r0 = ylm.real_layout_from_full(L, c)
                r1 = ylm.real_layout_from_full(L, cr)
                s0, s1 = sht.power_spectrum(r0), sht.power_spectrum(r1)
                if not (np.abs(s0 - S0).max() / scale2 <= 1e-9) or not (np.abs(s1 - s0).max() / scale2 <= 1e-9):
                    part.fail("power-spectrum-real-layout", "real-layout power spectrum differs from the complex one / is not invariant (L=%d)" % L, case)
                    break
        # functions whose band limit lies BELOW the stored maximum degree (top degrees exactly zero): number and positions of the
        # invariants are fixed by L alone, so they are continuous in the coefficients - filling the empty degrees with 1e-12 of
        # the norm changes N and P^3 by that order only
        if len(idxs) > 3 or tag.startswith("dense"):
            for Lb in sorted({L - 1, L - 2, max(3, L // 2)}):
                if not 3 <= Lb < L:
                    continue
                part.tr()
                cb = c.copy()
                cb[(Lb + 1) ** 2:] = 0.0
                nb = math.sqrt(float(np.sum(np.abs(cb) ** 2))) or 1.0
                k = np.arange(len(cb))
                fill = np.where(k >= (Lb + 1) ** 2, np.cos(0.7 + 1.3 * k) + 1j * np.sin(0.2 + 0.9 * k), 0.0)
                if real:
                    fill = ylm.complete(L, ylm.real_layout_from_full(L, fill))
                    fill[: (Lb + 1) ** 2] = 0.0
                cp = np.ascontiguousarray(cb + 1e-12 * nb * fill)
                Nb, Pb, _ = invariants_of(L, np.ascontiguousarray(cb), sht)
                Np, Pp, _ = invariants_of(L, cp, sht)
                case = {"kind": "vec", "L": L, "mode": mode, "real": real, "tag": tag, "idx": list(idxs), "word": ["band-limit", str(Lb)]}
                if len(Pb) != len(Pp) or len(Nb) != len(Np):
                    part.fail("band-limit-count", "the number of invariants changes when the top degrees are exactly zero (L=%d, band limit %d)" % (L, Lb), case)
                    break
                dN = float(np.abs(Nb - Np).max() / nb)
                dP = float(np.abs(cube(Pb) - cube(Pp)).max() / nb ** 3) if len(Pb) else 0.0
                part.dev("band_limit_P_cubed", dP)
                if not (dN <= 1e-9) or not (dP <= 1e-9):
                    part.fail("band-limit-discontinuity", "L=%d, band limit %d: filling the empty top degrees with 1e-12 of the norm changes N by %.3g and P^3 by %.3g (relative): invariants of a "
                              "function stored above its band limit are not at the positions fixed by L" % (L, Lb, dN, dP), case)
                    break
        # homogeneity: every P^3 is trilinear and every N linear in the coefficients of one degree, so scaling degree l0 by s multiplies
        # each invariant by s^k with k = how often l0 occurs in it (read off from s = 2); with s = 1e-13 - a degree that carries almost
        # nothing next to the others - each invariant must still be 1e-13^k times its unscaled value, to relative accuracy
        if tag.startswith("dense") and L >= 6:
            lms_ = ylm.lm_complex(L)
            for l0 in (2, 5):
                part.tr(2)
                sel_l = np.array([l == l0 for (l, m) in lms_])
                N2, P2, _ = invariants_of(L, np.ascontiguousarray(np.where(sel_l, 2.0 * c, c)), sht)
                Nw, Pw, _ = invariants_of(L, np.ascontiguousarray(np.where(sel_l, 1e-13 * c, c)), sht)
                c0_, c2_, cw_ = cube(P0), cube(P2), cube(Pw)
                big = np.abs(c0_) > 1e-6 * scale3
                kk = np.rint(np.log2(np.abs(c2_[big]) / np.abs(c0_[big]))).astype(int)
                case = {"kind": "vec", "L": L, "mode": mode, "real": real, "tag": tag, "idx": list(idxs), "word": ["homogeneity", str(l0)]}
                if kk.size == 0 or kk.min() < 0 or kk.max() > 3 or np.abs(np.abs(c2_[big]) / np.abs(c0_[big]) - 2.0 ** kk).max() > 1e-9:
                    part.fail("P-not-trilinear", "L=%d: doubling the coefficients of degree %d does not multiply every P^3 by 1, 2, 4 or 8" % (L, l0), case)
                    break
                rel = np.abs(cw_[big] - (1e-13 ** kk) * c0_[big]) / np.abs((1e-13 ** kk) * c0_[big])
                part.dev("P_homogeneity_rel", float(rel.max()))
                if not (rel.max() <= 1e-6) or not (abs(Nw[l0] - 1e-13 * N0[l0]) <= 1e-9 * 1e-13 * abs(N0[l0])):
                    part.fail("P-not-homogeneous:%s" % ("real" if real else "complex"), "L=%d: with degree %d scaled to 1e-13 of its size, %d P invariant(s) are not 1e-13^k times their unscaled value (worst relative deviation %.3g): "
                              "weak degrees are not treated like strong ones" % (L, l0, int((rel > 1e-6).sum()), float(rel.max())), case)
                    break
        part.outcome((tag, len(idxs), real))
    part.nontriv((L, mode, real))


def locality_worker(part, L):
    from chmpy.shape.shape_descriptors import make_N_invariants

    n = (L + 1) ** 2
    lms = ylm.lm_complex(L)
    k = np.arange(n)
    base = (np.sin(1.0 + 1.7 * k) + 0.3) + 1j * np.cos(0.3 + 2.3 * k)
    if L >= 6:
        # second pass on a decaying spectrum: a change in a LOW degree must not move a HIGH degree's invariant at all
        ls = np.array([l for (l, m) in lms], dtype=float)
        dec = base * 10.0 ** (-0.5 * ls)
        Nd0 = make_N_invariants(dec)
        for j in (0, 1, 2, 3):
            part.ev()
            c = dec.copy()
            c[j] += 0.37 - 0.21j
            Nd1 = make_N_invariants(c)
            lp = lms[j][0]
            moved = [int(l) for l in range(L + 1) if l != lp and Nd1[l] != Nd0[l] and abs(Nd1[l] - Nd0[l]) > 1e-12 * abs(Nd0[l])]
            if moved:
                part.fail("N-not-local:decaying", "changing coefficient (l=%d) of a decaying spectrum moves the N invariant of degree %s (L=%d): N_l does not depend on its own degree only"
                          % (lp, moved, L), {"kind": "local", "L": L})
                break
    N0 = make_N_invariants(base)
    for j, (lp, mp) in enumerate(lms):
        part.ev()
        part.tr()
        c = base.copy()
        c[j] += 2.5 - 1.5j
        N1 = make_N_invariants(c)
        changed = np.nonzero(np.abs(N1 - N0) > 1e-12)[0]
        others = [int(l) for l in changed if l != lp]
        if others:
            part.fail("N-not-local", "changing coefficient (l=%d, m=%d) changes the N invariant of degree %s (L=%d)" % (lp, mp, others, L),
                      {"kind": "local", "L": L})
            break
        want = math.sqrt(float(np.sum(np.abs(c[lp * lp:(lp + 1) ** 2]) ** 2)))
        if not (abs(N1[lp] - want) <= 1e-12 * max(1, want)):
            part.fail("N-value", "N invariant of degree %d is not the norm of that degree's coefficients (L=%d)" % (lp, L), {"kind": "local", "L": L})
            break
    part.outcome(("local", L))
    part.nstates(1)


def count_worker(part, _):
    from chmpy.shape.shape_descriptors import make_invariants

    asc = {}
    for L in range(0, 27):
        n = (L + 1) ** 2
        for kinds in ("N", "P", "NP", "PN"):
            part.ev()
            lens = set()
            first = None
            for w in range(2):
                k = np.arange(n)
                c = np.ascontiguousarray((np.sin(1.0 + (1.7 + w) * k) + 0.3) + 1j * np.cos(0.3 + 2.3 * k))
                inv = make_invariants(L, c, kinds=kinds)
                lens.add(len(inv))
                inv2 = make_invariants(L, c, kinds=kinds)
                if not np.array_equal(inv, inv2, equal_nan=True):
                    part.fail("order-unstable", "same input gives different invariants on a second call (L=%d, %s)" % (L, kinds), {"kind": "count"})
                if w == 0:
                    first = inv
            nN = (L + 1) if "N" in kinds else 0
            if L <= 23:
                nP = {count_P(L)}
            else:
                nP = {count_P(22), count_P(23)}  # documented cap of the P invariants beyond degree 23
            want = {nN + (p if "P" in kinds else 0) for p in nP}
            if len(lens) != 1 or not (lens & want):
                part.fail("count:%s" % kinds, "L=%d kinds=%s: %s invariants, expected %s (admissible (l,l1,l2) triples + %d N)" % (L, kinds, sorted(lens), sorted(want), nN), {"kind": "count"})
            if kinds == "PN" and not (np.array_equal(first, asc[(L, "NP")], equal_nan=True) or np.array_equal(first, np.concatenate([asc[(L, "P")], asc[(L, "N")]]), equal_nan=True)):
                # the letters name blocks: "PN" holds the same N block and the same P block as "NP" (in either documented-looking order)
                part.fail("kinds-order", "L=%d: kinds='PN' (%d entries) is neither the 'NP' vector nor the P block followed by the N block (%d entries)" % (L, len(first), len(asc[(L, "NP")])), {"kind": "count"})
            if kinds == "NP" and L <= 12:
                k = np.arange(n)
                c = np.ascontiguousarray((np.sin(1.0 + 1.7 * k) + 0.3) + 1j * np.cos(0.3 + 2.3 * k))
                Nn = np.array([math.sqrt(float(np.sum(np.abs(c[l * l:(l + 1) ** 2]) ** 2))) for l in range(L + 1)])
                if not (np.abs(first[:L + 1] - Nn).max() <= 1e-9 * Nn.max()):
                    part.fail("N-block-first", "the first L+1 entries of the NP vector are not the per-degree norms (L=%d)" % L, {"kind": "count"})
            part.outcome(("count", kinds))
            asc[(L, kinds)] = first
    # the same calls again in DESCENDING order of L: number, order and values are a function of (L, coefficients) alone, not of
    # which degrees were asked for earlier in the process
    for L in range(26, -1, -1):
        n = (L + 1) ** 2
        k = np.arange(n)
        c = np.ascontiguousarray((np.sin(1.0 + 1.7 * k) + 0.3) + 1j * np.cos(0.3 + 2.3 * k))
        for kinds in ("N", "P", "NP", "PN"):
            part.ev()
            inv = make_invariants(L, c, kinds=kinds)
            if inv.shape != asc[(L, kinds)].shape or not np.array_equal(inv, asc[(L, kinds)], equal_nan=True):
                part.fail("count-history:%s" % kinds, "L=%d kinds=%s: %d invariants after the degrees %d..%d had been requested, %d when only lower degrees had been"
                          % (L, kinds, len(inv), L + 1, 26, len(asc[(L, kinds)])), {"kind": "count"})
    part.nstates(27)


def refused_worker(part, _):
    """
    after an error: a coefficient vector the routine refuses (a strided view, real dtype, read-only memory, a wrong length) raises -
    and the natural retry with a proper copy of the SAME numbers, or any other valid call afterwards, gives what it gives in a process
    that never saw the refused call
    """
    from chmpy.shape.shape_descriptors import make_invariants

    for L in (3, 6, 10):
        n = (L + 1) ** 2
        k = np.arange(n)
        v1 = np.ascontiguousarray((np.sin(1.0 + 1.7 * k) + 0.3) + 1j * np.cos(0.3 + 2.3 * k))
        v2 = np.ascontiguousarray((np.cos(0.4 + 0.9 * k) - 0.2) + 1j * np.sin(1.1 + 1.3 * k))
        ref1, ref2 = make_invariants(L, v1), make_invariants(L, v2)
        wide = np.zeros(2 * n, dtype=np.complex128)
        wide[::2] = v2
        ro = v2.copy()
        ro.setflags(write=False)
        bad = {"strided view": wide[::2], "real dtype": np.ascontiguousarray(v2.real), "complex64": v2.astype(np.complex64), "read-only": ro,
               "too short": v2[:n - 3].copy(), "list": list(v2), "2-D": v2.reshape(1, -1)}
        for bname, b in bad.items():
            for kinds in ("NP", "P"):
                part.ev()
                part.tr(3)
                case = {"kind": "refused"}
                try:
                    make_invariants(L, v1, kinds=kinds)
                    try:
                        got_bad = make_invariants(L, b, kinds=kinds)
                        part.count("refused_call_answered")
                        # an input that IS accepted must then be answered correctly if it holds the same numbers
                        if bname in ("strided view", "read-only") and not (np.abs(cube(np.asarray(got_bad)) - cube(make_invariants(L, v2, kinds=kinds))).max() <= 1e-9 * float(np.sum(np.abs(v2) ** 2)) ** 1.5):
                            part.fail("refused:accepted-wrong", "make_invariants accepts a %s of a vector and answers differently than for a copy of it (L=%d)" % (bname, L), case)
                    except Exception:
                        pass
                    after2 = make_invariants(L, v2, kinds=kinds)
                    after1 = make_invariants(L, v1, kinds=kinds)
                except Exception as e:
                    part.fail("refused:raise", "a valid make_invariants call raised %r after a %s had been refused (L=%d)" % (e, bname, L), case)
                    continue
                w2 = ref2 if kinds == "NP" else ref2[L + 1:]
                w1 = ref1 if kinds == "NP" else ref1[L + 1:]
                if after2.shape != w2.shape or not np.array_equal(after2, w2) or not np.array_equal(after1, w1):
                    part.fail("refused:aftermath", "L=%d, kinds=%s: after make_invariants refused a %s, the retry with a proper copy of the same numbers (or the next valid call) "
                              "differs from the answer given before the refusal (max dev %.3g)" % (L, kinds, bname, float(np.abs(after2 - w2).max()) if after2.shape == w2.shape else np.inf), case)
                part.outcome(("refused", bname, kinds))
        # pairwise: kinds="N" (no compiled kernel involved) TOGETHER WITH each of those array forms - whatever is accepted is answered with
        # the per-degree norms of the numbers it holds, one per degree
        for bname, b in bad.items():
            if bname in ("too short", "2-D", "list"):
                continue
            part.ev()
            part.tr()
            try:
                gotN = np.asarray(make_invariants(L, b, kinds="N"), dtype=float)
            except Exception:
                part.outcome(("N-form-refused", bname))
                continue
            bb = np.asarray(b).astype(np.complex128)
            wantN = np.array([np.sqrt(np.sum(np.abs(bb[l * l:(l + 1) ** 2]) ** 2)) for l in range(L + 1)])
            if gotN.shape != wantN.shape or not (np.abs(gotN - wantN).max() <= 1e-6 * wantN.max()):
                part.fail("N-form:%s" % bname, "make_invariants(kinds='N') of a %s (L=%d) returns %d values%s, expected the %d per-degree norms"
                          % (bname, L, gotN.size, "" if gotN.shape != wantN.shape else " (max dev %.3g)" % float(np.abs(gotN - wantN).max()), L + 1), {"kind": "refused"})
            part.outcome(("N-form", bname))
    part.nstates(3)


def worker(part, job):
    if job[0] == "refused":
        return refused_worker(part, None)
    if job[0] == "inv":
        job_worker(part, job[1])
    elif job[0] == "local":
        locality_worker(part, job[1])
    else:
        count_worker(part, None)


def run(ctx):
    depth = 3 if ctx.thorough else 2
    words, trans = rotation_words(depth)
    ctx.tr(trans)
    rots = words + octahedral()
    # seed rotates one extra generic rotation
    rots.append((("seed",), rot((1 + ctx.seed, 2, 3), 0.37 + 0.23 * ctx.seed)))
    jobs = []
    chunks = [rots[i::4] for i in range(4)]
    triple_L = 4 if ctx.thorough else 3
    pair_L = 6 if ctx.thorough else 5
    for real in (False, True):
        for L in range(1, 7):
            mode = "triples" if L <= triple_L else "pairs" if L <= pair_L else "singles"
            for ch in chunks:
                jobs.append(("inv", (L, mode, real, ch)))
        jobs.append(("inv", (0, "dense", real, rots[:3])))      # band limit 0: one coefficient, one N invariant, no P invariant, a one-entry power spectrum
        for L in (8, 12):
            for ch in chunks:
                jobs.append(("inv", (L, "adjacent" if L == 8 or ctx.thorough else "singles", real, ch[: max(2, len(ch) // (1 if ctx.thorough else 3))])))
        # every other degree up to the cap of the P block and beyond it: dense / wide-range / decaying vectors only (they excite every
        # (l, l1, l2) coupling at once), a few rotations in the quick tier and all of them in the thorough one
        for L in [l for l in range(7, 27) if l not in (8, 12)]:
            sub = rots if ctx.thorough else [rots[(3 * L) % len(rots)], rots[(7 * L + 1) % len(rots)], rots[-1]]
            jobs.append(("inv", (L, "dense", real, sub)))
    for L in range(1, 13):
        jobs.append(("local", L))
    jobs.append(("count", None))
    jobs.append(("refused", None))
    cost = {"triples": 50, "pairs": 8, "adjacent": 6, "singles": 1}
    jobs.sort(key=lambda j: -(cost.get(j[1][1], 1) * (j[1][0] + 1) ** 4) if j[0] == "inv" else 0)
    ctx.pmap(worker, jobs)
    ctx.rule = ("rotations: BFS over words of length <= %d in 5 generators (%d distinct) + 23 octahedral + 1 seed-rotated generic; vectors (general complex and "
                "completed-real): all sums of <= 3 unit vectors with phase variants for L <= %d, <= 2 for L <= %d, unit vectors for L <= 6, adjacent-degree pairs "
                "and unit vectors for L in {8,12}, 4 dense + wide-range + decaying vectors at every L = 1..26; locality of N for every coefficient, L <= 12; count/order for L = 0..26; "
                "states = coefficient vectors x L, transitions = rotations applied" % (depth, len(words), triple_L, pair_L))
    ctx.bounds = {"rotation_word_depth": depth, "rotations": len(rots), "triples_up_to_L": triple_L, "pairs_up_to_L": pair_L}
    ctx.assumptions = ["rotated coefficients by exact quadrature of scipy's harmonics (blocks verified unitary)", "P invariants compared after cubing (the signed cube root is ill-conditioned at 0), tolerance 1e-9 relative to (sum |c|^2)^(3/2)",
                       "the P block is capped (documented) beyond degree 23: either cap position is accepted for the count"]
    ctx.sample({"rotation_words": ["*".join(w) for w, _ in words[:6]], "n_rotations": len(rots)})


def replay(ctx, case):
    k = case.get("kind")
    if k == "refused":
        return refused_worker(ctx, None)
    if k == "local":
        locality_worker(ctx, case["L"])
    elif k == "count":
        count_worker(ctx, None)
    elif k == "vec":
        words, _ = rotation_words(3)
        rots = [(w, R) for (w, R) in words + octahedral() + [(("seed",), rot((1 + ctx.seed, 2, 3), 0.37 + 0.23 * ctx.seed))] if list(w) == case.get("word")][:1]
        if not rots:
            rots = words[:3]
        job_worker(ctx, (case["L"], case["mode"], case["real"], rots))

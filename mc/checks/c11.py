"""
C11 - symmetry-operation forms are interchangeable; equality is modulo the lattice.

The packed code space is finite (3^9 x 12^3 = 34,012,224).  Thorough: all of it.  Quick: all 19,683
rotations x 40 translations and all 1,728 translations x (the rotations of the table + 40 others).
String spellings come from the grammar in mc.ref.symm.spellings under a deviation bound; lattice
offsets {-2..2}^3 x eps in {-1e-12,0,+1e-12}; apply() in three forms on a grid sample.
"""
import itertools

import numpy as np

from mc.core import chunked
from mc.ref import lattice, symm

PROPERTY = "C11"
LEVEL = "model_checking"

CELLS = [
    (5.0, 5.0, 5.0, 90.0, 90.0, 90.0),
    (3.0, 9.0, 30.0, 90.0, 90.0, 90.0),
    (7.0, 8.0, 9.0, 90.0, 125.0, 90.0),
    (7.0, 8.0, 9.0, 81.0, 97.0, 104.0),
    (5.1, 11.3, 23.7, 60.0, 65.0, 115.0),
    (7.78, 7.78, 7.78, 113.1, 113.1, 113.1),
    (7.00004, 8.99996, 40.0003, 90.0006, 89.9995, 119.9994),   # pseudo-symmetric: every parameter a hair off a special value
    (6.0, 7.0, 8.0, 90.0, 90.0001, 90.0),                      # a monoclinic cell 1e-4 degrees off orthogonal
    (7.0, 7.0, 9.0, 90.0, 90.0, 120.0),
]


def quick_translations(table_ops):
    ts = set()
    for v in range(12):
        ts.add((v, 0, 0))
        ts.add((0, v, 0))
        ts.add((0, 0, v))
    for op in table_ops:
        ts.add(op[1])
    return sorted(ts)


def codes_worker(part, chunk, with_str):
    """chunk = (kind, payload): enumerate codes, run the function-level round trips"""
    from chmpy.crystal.symmetry_operation import (
        decode_symm_int,
        encode_symm_int,
        encode_symm_str,
        decode_symm_str,
    )

    kind, payload = chunk
    if kind == "range":
        codes = range(payload[0], payload[1])
    else:
        codes = payload
    n = 0
    for code in codes:
        n += 1
        R, t = decode_symm_int(code)
        mR, mt = symm.decode(code)
        if tuple(int(v) for v in R.ravel()) != mR or tuple(int(round(v * 12)) for v in t) != mt:
            part.fail("decode:%d" % code, "decode_symm_int(%d) disagrees with the documented packing" % code, {"kind": "code", "code": code})
            continue
        back = encode_symm_int(R, t)
        if int(back) != code:
            part.fail("int-roundtrip:%d" % code, "encode_symm_int(decode_symm_int(%d)) = %d" % (code, back), {"kind": "code", "code": code})
        if with_str:
            s = encode_symm_str(R, t)
            R2, t2 = decode_symm_str(s)
            b2 = encode_symm_int(R2, t2)
            if int(b2) != code:
                part.fail("str-roundtrip:%d" % code, "code %d -> %r -> %d" % (code, s, b2), {"kind": "code", "code": code})
    part.ev(n)
    part.nstates(n)
    part.tr(n * (4 if with_str else 2))
    part.outcome(("codes", kind))


def class_worker(part, codes):
    from chmpy.crystal.symmetry_operation import SymmetryOperation

    prev = None
    for code in codes:
        part.ev()
        case = {"kind": "class", "code": code}
        op = symm.decode(code)
        a = SymmetryOperation.from_integer_code(code)
        part.trace()
        if int(a.integer_code) != code:
            part.fail("class-code:%d" % code, "from_integer_code(%d).integer_code = %s" % (code, a.integer_code), case)
        want = symm.canonical_string(op)
        # object built from matrices: every printed/packed form is computed
        Rm = np.array(op[0], dtype=float).reshape(3, 3)
        tm = np.array(op[1], dtype=float) / 12
        b = SymmetryOperation(Rm, tm)
        if int(b.integer_code) != code:
            part.fail("class-matrix-code:%d" % code, "SymmetryOperation(R,t).integer_code = %s, expected %d" % (b.integer_code, code), case)
        sb = str(b)
        if sb != want:
            part.fail("class-str:%d" % code, "str of code %d is %r, documented form %r" % (code, sb, want), case)
        if str(a) != sb or a.cif_form != sb:
            part.fail("class-str-agree:%d" % code, "str differs between code-built and matrix-built operation %d" % code, case)
        c = SymmetryOperation.from_string_code(sb)
        if not (c == a) or hash(c) != hash(a) or int(c.integer_code) != code:
            part.fail("class-str-roundtrip:%d" % code, "from_string_code(%r) != from_integer_code(%d)" % (sb, code), case)
        if not (a == b) or hash(a) != hash(b) or (a < b) or (b < a):
            part.fail("class-eq:%d" % code, "code-built and matrix-built operation %d differ under ==/hash/<" % code, case)
        # the same rotation handed over in another memory layout (Fortran order - what `.T` of a product, or a reader that transposes,
        # produces; for integer and float types; a strided view): the same operation. Only non-symmetric rotations can tell
        for lname, Rl in (("fortran-float", np.asfortranarray(Rm)), ("fortran-int", np.asfortranarray(np.array(op[0], dtype=np.int64).reshape(3, 3))),
                          ("transposed-view-of-transpose", np.ascontiguousarray(Rm.T).T), ("strided", np.repeat(np.repeat(Rm, 2, axis=0), 2, axis=1)[::2, ::2])):
            try:
                bl = SymmetryOperation(Rl, tm.copy())
                if int(bl.integer_code) != code or str(bl) != want or not (bl == a) or hash(bl) != hash(a):
                    part.fail("class-layout:%s" % lname, "SymmetryOperation built from the rotation of %s given as %s: code %s, prints %r" % (want, lname, bl.integer_code, str(bl)), case)
            except Exception as e:
                part.fail("class-layout-raise:%s" % lname, "SymmetryOperation from a %s rotation raised %r" % (lname, e), case)
        # an operation built from an integer-typed rotation matrix (the natural way to write -1/0/1) behaves the same
        bi = SymmetryOperation(np.array(op[0], dtype=np.int64).reshape(3, 3), tm)
        pts3 = np.array([[0.1, 0.2, 0.3], [0.9, -0.4, 1.7]])
        pts4 = np.c_[pts3, np.ones(2)]
        try:
            ok_i = int(bi.integer_code) == code and str(bi) == want and np.abs(bi.apply(pts3) - b.apply(pts3)).max() < 1e-14 \
                and np.abs(np.asarray(bi.apply(pts4))[:, :3] - b.apply(pts3)).max() < 1e-14 and np.abs(np.asarray(bi.seitz_matrix) - np.asarray(b.seitz_matrix)).max() < 1e-14
        except Exception:
            ok_i = False
        # pairwise: integer-typed rotation TOGETHER WITH integer-typed points (lattice points): the image is R x + t, fractional where t is
        try:
            ipts = np.array([[1, 2, 3], [0, -1, 4], [0, 0, 0]])
            want_i = ipts @ np.array(op[0], dtype=float).reshape(3, 3).T + tm
            for oname_, o_ in (("integer-rotation", bi), ("float-rotation", b), ("code-built", a)):
                for pname_, P_ in (("int64 points", ipts), ("int32 points", ipts.astype(np.int32)), ("int64 homogeneous points", np.c_[ipts, np.ones(3, dtype=np.int64)])):
                    g_ = np.asarray(o_.apply(P_), dtype=float)[:, :3]
                    if not (np.abs(g_ - want_i).max() <= 1e-12):
                        part.fail("class-int-points:%s" % oname_, "%s operation %s applied to %s gives %s, expected %s" % (oname_, want, pname_, g_.tolist(), want_i.tolist()), case)
        except Exception as e:
            part.fail("class-int-points-raise", "applying operation %s to integer-typed points raised %r" % (want, e), case)
        if not ok_i:
            part.fail("class-int-matrix:%d" % code, "operation %s built from an integer-typed rotation matrix differs from the float-built one (code/str/apply/seitz)" % want, case)
        # homogeneous points with a weight other than one (w = 0 are directions: no translation; w = 2 doubles it): the (N,4) form is
        # the product with the Seitz matrix, i.e. (R x + w t, w)
        pw = np.array([[0.1, 0.2, 0.3, 2.0], [0.9, -0.4, 1.7, 0.0], [0.25, 0.5, -0.75, -1.0], [1.5, 0.0, 0.125, 0.5]])
        Rm, tv = np.array(op[0], dtype=float).reshape(3, 3), np.array(op[1], dtype=float) / 12.0
        want_w = np.c_[pw[:, :3] @ Rm.T + pw[:, 3:4] * tv[None, :], pw[:, 3]]
        try:
            got_w = np.asarray(a.apply(pw), dtype=float)
            ok_w = got_w.shape == want_w.shape and np.abs(got_w - want_w).max() < 1e-12 and np.abs(np.asarray(a(pw), dtype=float) - want_w).max() < 1e-12
        except Exception:
            ok_w = False
        if not ok_w:
            part.fail("class-homogeneous-weight:%d" % code, "operation %s applied to homogeneous points with weights (2, 0, -1, 1/2) is not the product with its Seitz matrix" % want, case)
        # an operation that went through copy / deepcopy / pickle is the same operation in all its forms
        import copy
        import pickle

        for cname, dup in (("copy", copy.copy), ("deepcopy", copy.deepcopy), ("pickle", lambda x: pickle.loads(pickle.dumps(x)))):
            for src in (a, b):
                try:
                    t_ = dup(src)
                    okc = int(t_.integer_code) == code and str(t_) == want and t_ == a and hash(t_) == hash(a) and np.abs(t_.apply(pts3) - a.apply(pts3)).max() < 1e-14 \
                        and np.abs(np.asarray(t_.seitz_matrix) - np.asarray(a.seitz_matrix)).max() < 1e-14
                except Exception:
                    okc = False
                if not okc:
                    part.fail("class-copy-route:%s:%d" % (cname, code), "operation %s after %s is not the same operation (code/str/==/hash/apply/seitz)" % (want, cname), case)
        # arithmetic: adding / subtracting a vector (operator and augmented-assignment spelling, the latter on an object whose
        # code, hash and string were already read) gives the operation with the shifted translation, in ALL its forms
        for tw in ((6, 0, 0), (4, 8, 2), (12, 0, -24), (3, 3, 9)):
            tvec = np.array(tw, dtype=float) / 12.0
            ref_op = (op[0], tuple((op[1][i] + tw[i]) % 12 for i in range(3)))
            ref_code, ref_str = symm.encode(ref_op), symm.canonical_string(ref_op)
            o1 = a + tvec
            o2 = SymmetryOperation.from_integer_code(code)
            _ = (int(o2.integer_code), hash(o2), str(o2), o2 == a)
            o2 += tvec
            o3 = SymmetryOperation.from_integer_code(ref_code)
            _ = (int(o3.integer_code), hash(o3), str(o3))
            o3 -= tvec
            o4 = (a + tvec) - tvec
            try:
                okk = all(int(o.integer_code) == ref_code and str(o) == ref_str and o == o1 and hash(o) == hash(o1)
                          and np.abs(np.mod(o.apply(pts3) - (pts3 @ np.array(op[0], dtype=float).reshape(3, 3).T + np.array(ref_op[1]) / 12.0) + 0.5, 1.0) - 0.5).max() < 1e-12
                          for o in (o1, o2))
                okk = okk and all(int(o.integer_code) == code and str(o) == want and o == a and hash(o) == hash(a) for o in (o3, o4))
            except Exception:
                okk = False
            if not okk:
                part.fail("class-arithmetic:%d" % code, "adding / subtracting the vector %s/12 to the operation %s (operator and augmented assignment) does not give one operation with consistent code, "
                          "string, equality, hash and action" % (tw, want), case)
                break
        # the model reader agrees with the library on the library's own string (binds the grammar)
        if symm.parse_string(sb) != op:
            part.fail("model-parse:%d" % code, "reference parser disagrees on %r" % sb, case)
        # seitz matrix
        S = a.seitz_matrix
        if not (np.array_equal(S[:3, :3], Rm) and np.abs(S[:3, 3] - tm).max() < 1e-15 and np.array_equal(S[3], [0, 0, 0, 1])):
            part.fail("seitz:%d" % code, "seitz_matrix of %d wrong" % code, case)
        if prev is not None:
            pa = SymmetryOperation.from_integer_code(prev)
            if (pa < a) != (prev < code) or (pa == a) != (prev == code):
                part.fail("order:%d" % code, "ordering of %d vs %d inconsistent with codes" % (prev, code), case)
        prev = code
        part.outcome(want.count("-") + 10 * want.count("/"))
    part.nstates(len(codes))
    part.tr(len(codes) * 8)


REFUSED_STRINGS = ["x,y,z,x", "x+1/0,y,z", "x,y+0.25,z+1/2/3", "a,b,c", "x,y", "-y,x-y,z+1/q", "x,,z", "2x,y,z+"]


def spelling_worker(part, codes, max_dev):
    from chmpy.crystal.symmetry_operation import SymmetryOperation

    nth = 0

    for code in codes:
        op = symm.decode(code)
        base = SymmetryOperation.from_integer_code(code)
        for s, devs in symm.spellings(op, max_dev=max_dev):
            part.ev()
            part.tr()
            case = {"kind": "spelling", "code": code, "string": s, "deviations": list(devs)}
            key = "spelling:%s:%d" % ("+".join(sorted(d.rstrip("0123456789+-") for d in devs)) or "canonical", code)
            if symm.parse_string(s) != op:
                part.fail("grammar-self-check:%d" % code, "reference grammar produced %r which its own reader maps elsewhere" % s, case)
                continue
            # after an error: for every second spelling the parse is preceded by a string the reader refuses (too many / too few
            # components, a zero denominator, a doubled fraction, unknown letters) - it raises, and the next string is read as if nothing had happened
            nth += 1
            if nth % 2 == 0:
                try:
                    SymmetryOperation.from_string_code(REFUSED_STRINGS[(nth // 2) % len(REFUSED_STRINGS)])
                    part.count("refused_string_parsed")
                except Exception:
                    pass
            try:
                o = SymmetryOperation.from_string_code(s)
                got = int(o.integer_code)
            except Exception as e:
                part.fail(key, "from_string_code(%r) raised %s" % (s, type(e).__name__), case)
                continue
            if got != code or not (o == base) or hash(o) != hash(base):
                part.fail(key, "spelling %r of %r parses to code %d (%s), expected %d"
                          % (s, symm.canonical_string(op), got, symm.canonical_string(symm.decode(got)) if 0 <= got < 34012224 else "?", code), case)
                continue
            # re-parsing the printed form gives an equal operation
            o2 = SymmetryOperation.from_string_code(str(o))
            if not (o2 == base):
                part.fail("reparse:" + key, "re-parsing str() of the operation parsed from %r gives another operation" % s, case)
            part.outcome(devs)
        part.nstates(1)
    if codes:
        part.sample({"code": codes[0], "spellings": [s for s, _ in itertools.islice(symm.spellings(symm.decode(codes[0]), max_dev), 6)]})


def offsets_worker(part, codes, mixed_eps):
    from chmpy.crystal.symmetry_operation import SymmetryOperation

    ks = list(itertools.product(range(-2, 3), repeat=3))
    # far lattice translations (an atom followed through thousands of cells; a float translation there still carries the twelfths to
    # ~1e-11): with the unperturbed translation only
    far = [(1000, 0, 0), (0, -20000, 0), (0, 0, 100000), (50000, -100000, 150000), (-16384, 32768, -65536)]
    E = 1e-12
    if mixed_eps:
        epss = list(itertools.product((-E, 0.0, E), repeat=3))
    else:
        epss = [(0.0, 0.0, 0.0)] + [tuple((s * E if i == j else 0.0) for j in range(3)) for i in range(3) for s in (-1, 1)]
    for code in codes:
        op = symm.decode(code)
        base = SymmetryOperation.from_integer_code(code)
        bstr = symm.canonical_string(op)
        Rm = np.array(op[0], dtype=float).reshape(3, 3)
        tm = np.array(op[1], dtype=float) / 12
        for k in ks + far:
            for eps in (epss if k not in far else epss[:1]):
                part.ev()
                part.tr(2)
                off = np.array(k, dtype=float) + np.array(eps)
                case = {"kind": "offset", "code": code, "k": list(k), "eps": list(eps)}
                pat = "eps%s" % ("".join("-" if e < 0 else "+" if e > 0 else "0" for e in eps))
                key = "offset:%s:%d" % (pat, code)
                for how, o in (("ctor", SymmetryOperation(Rm, tm + off)), ("add", base + off), ("sub", base - (-off))):
                    try:
                        same = (o == base) and hash(o) == hash(base) and int(o.integer_code) == code
                        so = str(o)
                    except Exception as e:
                        part.fail(key, "operation %s shifted by %s (+%s) raised %r" % (bstr, k, eps, e), case)
                        break
                    # the predicates of the class say the same as the forms: is_identity() exactly for the operation that equals x,y,z
                    try:
                        ident = bool(o.is_identity())
                    except Exception:
                        ident = None
                    if ident is not (code == 16484):
                        part.fail("offset-is-identity:%s" % pat, "operation %s shifted by lattice vector %s (+%s) via %s: is_identity() says %s, the operation %s x,y,z"
                                  % (bstr, k, eps, how, ident, "equals" if code == 16484 else "does not equal"), case)
                        break
                    if not same:
                        part.fail(key, "operation %s shifted by lattice vector %s (+%s) via %s is not equal to the original: code %d vs %d"
                                  % (bstr, k, eps, how, int(o.integer_code), code), case)
                        break
                    if so != bstr:
                        part.fail("offset-str:%s:%d" % (pat, code), "operation %s shifted by %s (+%s) prints as %r" % (bstr, k, eps, so), case)
                        break
                part.outcome(pat)
        part.nstates(1)


def apply_worker(part, cells, codes):
    from chmpy.crystal import Crystal, SpaceGroup, UnitCell, AsymmetricUnit, SymmetryOperation
    from chmpy.core.element import Element

    N = 24
    pts = [p for p in itertools.product((0, 1, 5, 8, 12, 17, 23), repeat=3)]
    frac = np.array(pts, dtype=float) / N
    frac = np.vstack([frac, frac + np.array([1.0, -2.0, 3.0])])
    pts2 = pts + [(p[0] + N, p[1] - 2 * N, p[2] + 3 * N) for p in pts]
    hom = np.c_[frac, np.ones(len(frac))]
    for cell in cells:
        M = lattice.cell_matrix(*cell)
        uc = UnitCell.from_lengths_and_angles(list(cell[:3]), list(cell[3:]), unit="degrees")
        cart = frac @ M
        scale = max(cell[:3]) * 4
        for batch in chunked(codes, 64):
            sg = SpaceGroup(1)
            sg.symmetry_operations = [SymmetryOperation.from_integer_code(c) for c in batch]
            c = Crystal(uc, sg, AsymmetricUnit([Element.from_atomic_number(6)], np.array([[0.1, 0.2, 0.3]])))
            cops = c.cartesian_symmetry_operations()
            for code, s, (Rc, tc) in zip(batch, sg.symmetry_operations, cops):
                part.ev()
                part.tr(3)
                case = {"kind": "apply", "code": code, "cell": list(cell)}
                op = symm.decode(code)
                want = np.array([symm.apply_noreduce(op, p, N) for p in pts2], dtype=float) / N
                a3 = s.apply(frac)
                a4 = s.apply(hom)
                a5 = s(frac)
                d3 = np.abs(a3 - want).max()
                part.dev("apply3_abs", d3)
                if a3.shape != (len(frac), 3) or not (d3 <= 1e-12):
                    part.fail("apply3:%d" % code, "apply on (N,3) of %s deviates %g from the exact image" % (symm.canonical_string(op), d3), case)
                if a4.shape[0] != len(frac) or not (np.abs(a4[:, :3] - want).max() <= 1e-12) or (a4.shape[1] == 4 and not (np.abs(a4[:, 3] - 1).max() <= 0)):
                    part.fail("apply4:%d" % code, "apply on homogeneous (N,4) of %s disagrees with (N,3)" % symm.canonical_string(op), case)
                if not (np.abs(a5 - a3).max() <= 0):
                    part.fail("call:%d" % code, "__call__ differs from apply", case)
                # EVERY point count of an interval (first cell only - application does not involve the cell): the image of the first n points
                # is the first n rows of the image of all of them, for the (N,3) and the homogeneous form
                if tuple(cell) == tuple(CELLS[0]) and d3 <= 1e-12:
                    try:
                        for n_ in range(1, 301):
                            part.tr(2)
                            g3, g4 = np.asarray(s.apply(frac[:n_]), dtype=float), np.asarray(s.apply(hom[:n_]), dtype=float)
                            if g3.shape != (n_, 3) or g4.shape[0] != n_ or not (np.abs(g3 - a3[:n_]).max() <= 1e-14) or not (np.abs(g4[:, :3] - a3[:n_]).max() <= 1e-14):
                                part.fail("apply-count:%s" % ("n>=32" if n_ >= 32 else "n<32"), "apply of %s on the first %d of %d points is not the first %d rows of the image of all of them"
                                          % (symm.canonical_string(op), n_, len(frac), n_), case)
                                break
                    except Exception as e:
                        part.fail("apply-count-raise", "apply of %s on a prefix of the point set raised %r" % (symm.canonical_string(op), e), case)
                # degenerate point sets: one point, the origin alone (its image is the translation), two origins, one generic point
                for dname, P in (("one origin", np.zeros((1, 3))), ("two origins", np.zeros((2, 3))), ("one point", frac[3:4].copy()), ("origin as homogeneous point", np.array([[0.0, 0.0, 0.0, 1.0]]))):
                    part.tr()
                    try:
                        gotP = np.asarray(s.apply(P), dtype=float)
                        wantP = P[:, :3] @ np.array(op[0], dtype=float).reshape(3, 3).T + np.array(op[1], dtype=float) / 12.0
                        if gotP.shape[0] != len(P) or not (np.abs(gotP[:, :3] - wantP).max() <= 1e-12):
                            part.fail("apply-degenerate:%s" % dname, "apply of %s on %s gives %s, expected %s" % (symm.canonical_string(op), dname, gotP.tolist(), wantP.tolist()), case)
                    except Exception as e:
                        part.fail("apply-degenerate-raise:%s" % dname, "apply of %s on %s raised %r" % (symm.canonical_string(op), dname, e), case)
                got = cart @ Rc + tc
                dc = np.abs(got - want @ M).max() / scale
                part.dev("cartesian_rel", dc)
                if not (dc <= 1e-10):
                    part.fail("cartesian:%d" % code, "Cartesian form of %s in cell %s deviates (rel %g) from frac->apply->cart"
                              % (symm.canonical_string(op), cell, dc), case)
                part.outcome(("apply", code % 7))
    part.nstates(len(codes) * len(cells))


def run(ctx):
    table = symm.load_table()
    table_codes = sorted({c for r in table for c in r["symops"]})
    table_ops = [symm.decode(c) for c in table_codes]
    table_rots = sorted({op[0] for op in table_ops})
    ctx.assumptions = ["the packing documented in symmetry_operation.py (ternary rotation digits, duodecimal translation digits) is the specification",
                       "an operation parsed from a string echoes its source spelling by design; 'print identically' is applied to computed forms, and to re-parsing for string-built ones"]
    # ---- (a) code space ---------------------------------------------------------
    if ctx.thorough:
        step = 34012224 // 512
        chunks = [("range", (i, min(i + step, 34012224))) for i in range(0, 34012224, step)]
        ctx.bounds["code_space"] = "all 34,012,224 codes (int and string round trips)"
        ctx.pmap(codes_worker, chunks, with_str=True)
    else:
        tq = quick_translations(table_ops)
        others = []
        for r in itertools.product((-1, 0, 1), repeat=9):
            if r not in table_rots and sum(abs(v) for v in r) in (0, 5, 9) and len(others) < 40:
                others.append(r)
            if len(others) >= 40:
                break
        codes = set()
        for r in itertools.product((-1, 0, 1), repeat=9):
            for t in tq:
                codes.add(symm.encode((r, t)))
        for r in list(table_rots) + others:
            for t in itertools.product(range(12), repeat=3):
                codes.add(symm.encode((r, t)))
        codes = sorted(codes)
        ctx.bounds["code_space"] = "%d codes: all 19683 rotations x %d translations + all 1728 translations x %d rotations" % (
            len(codes), len(tq), len(table_rots) + len(others))
        ctx.pmap(codes_worker, [("list", c) for c in chunked(codes, 20000)], with_str=True)
    ctx.log("code space done: %d" % ctx.evaluations)
    # ---- (b) class-level paths ---------------------------------------------------
    stride = 97 if ctx.thorough else 9973
    class_codes = sorted(set(table_codes) | set(range(0, 34012224, stride)))
    ctx.bounds["class_level_codes"] = "%d (all %d distinct table operations + every %dth code)" % (len(class_codes), len(table_codes), stride)
    ctx.pmap(class_worker, chunked(class_codes, 2000))
    # ---- (c) spellings -----------------------------------------------------------
    md = 3 if ctx.thorough else 2
    ctx.bounds["spelling_deviations"] = md
    ctx.pmap(spelling_worker, chunked(table_codes, 40), max_dev=md)
    # ---- (d) lattice offsets -----------------------------------------------------
    ctx.bounds["offsets"] = "k in {-2..2}^3 x eps in {-1e-12,0,+1e-12} (%s) + 5 far lattice vectors (1e3 .. 1.5e5 cells)" % ("all 27 sign patterns" if ctx.thorough else "one component perturbed at a time")
    ctx.pmap(offsets_worker, chunked(table_codes, 40), mixed_eps=ctx.thorough)
    # ---- (e) apply in three forms ------------------------------------------------
    ctx.pmap(apply_worker, [[c] for c in CELLS], codes=table_codes)
    ctx.rule = ("function-level int/str round trips over the code space; class-level forms, grammar-generated spellings (<=%d deviations), "
                "lattice offsets and apply() forms for all %d distinct tabulated operations; states = distinct operations/codes visited, "
                "transitions = form conversions executed" % (md, len(table_codes)))


def replay(ctx, case):
    k = case.get("kind")
    if k == "code":
        codes_worker(ctx, ("list", [case["code"]]), True)
    elif k == "class":
        class_worker(ctx, [case["code"]])
    elif k == "spelling":
        spelling_worker(ctx, [case["code"]], 3)
    elif k == "offset":
        offsets_worker(ctx, [case["code"]], True)
    elif k == "apply":
        apply_worker(ctx, [tuple(case["cell"])], [case["code"]])

"""
C03 - periodic neighbourhood queries return exactly the atoms within the radius.

Oracle: brute-force periodic search (mc.ref.lattice.periodic_neighbours) over a cell range derived
from the perpendicular widths plus a self-validated empty outer shell; `required <= observed <= allowed`
with a 1e-6 A ambiguity band.
"""
from mc.paths import TEST_FILES
import itertools

import numpy as np
from scipy.spatial import cKDTree

from mc import xtal
from mc.checks import c04
from mc.ref import lattice, mol, symm

PROPERTY = "C03"
LEVEL = "exploration"

BAND = 1e-6
OBLIQUE = [
    (5.0, 5.0, 5.0, 90.0, 90.0, 90.0),
    (3.0, 9.0, 30.0, 90.0, 90.0, 90.0),
    (7.0, 8.0, 9.0, 90.0, 125.0, 90.0),
    (7.0, 8.0, 9.0, 81.0, 97.0, 104.0),
    (5.1, 11.3, 13.7, 60.0, 65.0, 115.0),
    (7.0, 7.0, 7.0, 50.0, 50.0, 50.0),
    (7.0, 7.0, 7.0, 77.0, 77.0, 77.0),
    (7.78, 7.78, 7.78, 113.1, 113.1, 113.1),
    # accidental equalities in a TRICLINIC cell (two angles equal but not 90; two lengths equal; an angle of exactly 90 or 120 among
    # oblique ones): metrically nothing special, but a cell classified by comparing parameters may take a higher-symmetry shortcut
    (7.0, 8.0, 9.0, 113.0, 90.0, 113.0),
    (7.0, 8.0, 9.0, 113.0, 113.0, 90.0),
    (7.0, 8.0, 9.0, 75.0, 110.0, 110.0),
    (7.0, 7.0, 9.0, 80.0, 95.0, 120.0),
    (7.0, 8.0, 8.0, 90.0, 90.0, 117.0),
    (7.0, 7.0, 9.0, 90.0, 90.0, 120.0),
]
QUICK_SETTINGS = [(1, ""), (2, ""), (14, "b1"), (15, "b1"), (33, ""), (148, "H"), (148, "R"), (176, ""), (227, "2")]
RADII = (1.2, 3.8, 6.0, 12.0)


def five_atoms(seed):
    g = 0.0131 * (seed % 11)
    return (["C", "O", "N", "S", "Cl"],
            np.array([[0.1231 + g, 0.3117, 0.2713], [0.5533, 0.0791 + g, 0.6127], [0.8419, 0.7277, 0.0911 + g],
                      [0.3301, 0.9013, 0.4409], [1.2707, -0.3543, 0.7771]]))


def build(spec):
    if spec["kind"] == "atoms5":
        syms, frac = five_atoms(spec["seed"])
        return xtal.make_crystal(spec["number"], spec["choice"], tuple(spec["cell"]), syms, frac)
    if spec["kind"] == "grid":
        # a cell of realistic size: n^3 atoms (C, O, N in turn) on a jittered grid of 2.2 A spacing in P1 - slabs of such cells run to
        # hundreds of thousands of rows at ordinary radii
        n = spec["n"]
        k = np.arange(n ** 3)
        base = np.array(list(itertools.product(range(n), repeat=3)), dtype=float)
        frac = (base + 0.5 + 0.2 * np.c_[np.sin(1.0 + 1.7 * k), np.cos(2.0 + 2.3 * k), np.sin(3.0 + 0.7 * k)]) / n
        return xtal.make_crystal(1, "", (2.2 * n, 2.2 * n, 2.2 * n, 90.0, 90.0, 90.0), [("C", "O", "N")[i % 3] for i in k], frac)
    if spec["kind"] == "atoms5-frame":
        # the same five atoms in a cell given by lattice VECTORS in another Cartesian frame (axes permuted: exactly three non-zero
        # entries; turned by exactly 90 degrees; rotated generically) - right-angled cells are where a diagonal shortcut would apply
        from chmpy.crystal import Crystal, UnitCell
        from mc.ref.mol import rot

        syms, frac = five_atoms(spec["seed"])
        c0 = xtal.make_crystal(spec["number"], spec["choice"], tuple(spec["cell"]), syms, frac)
        M = lattice.cell_matrix(*spec["cell"])
        Q = {"permuted": np.array([[0.0, 1.0, 0.0], [0.0, 0.0, 1.0], [1.0, 0.0, 0.0]]), "quarter-turn": np.array([[0.0, -1.0, 0.0], [1.0, 0.0, 0.0], [0.0, 0.0, 1.0]]),
             "rotated": rot((1, 2, 3), 0.7)}[spec["frame"]]
        return Crystal(UnitCell(M @ Q.T), c0.space_group, c0.asymmetric_unit)
    if spec["kind"] == "monatomic":
        # molecules that are single atoms (rare gases, metals, ions): the asymmetric unit given in the spec, nothing bonded
        return xtal.make_crystal(spec["number"], spec["choice"], tuple(spec["cell"]), list(spec["symbols"]), np.array(spec["frac"], dtype=float))
    if spec["kind"] == "file":
        from chmpy.crystal import Crystal

        return Crystal.load(spec["path"])
    if spec["kind"] == "mol":
        row = spec["_row"]
        ops, cell, asym, imgs = c04.make(row, spec)
        ok, why = mol.precondition(asym, imgs)
        if not ok:
            return None
        return xtal.make_crystal(row["number"], row["choice"], cell, asym["symbols"], asym["frac"])
    raise KeyError(spec["kind"])


def ref_ball(M, uc_frac, centres, radius):
    """union of balls around `centres`: required / allowed sets of (uc atom, cell) and info"""
    res = lattice.periodic_neighbours(M, uc_frac, centres, radius, band=BAND)
    req, allowed, info = set(), set(), {}
    for r in res:
        req |= r["required"]
        allowed |= r["allowed"]
        for k, (p, d) in r["info"].items():
            if k not in info or d < info[k][1]:
                info[k] = (p, d)
    return req, allowed, info


def match_positions(info, allowed, pos, tol=1e-6):
    """map observed cartesian positions to reference image keys (None if no image there)"""
    keys = list(allowed)
    if not keys:
        return [None] * len(pos)
    P = np.array([info[k][0] for k in keys])
    tree = cKDTree(P)
    d, idx = tree.query(np.asarray(pos).reshape(-1, 3))
    return [keys[i] if dd <= tol else None for dd, i in zip(d, idx)]


def compare_sets(part, observed_keys, req, allowed, exclude, key, what, case):
    obs = [k for k in observed_keys]
    n_none = sum(1 for k in obs if k is None)
    if n_none:
        part.fail(key + ":extra", "%s: %d reported atom(s) are not periodic images inside the radius" % (what, n_none), case)
        return False
    if len(set(obs)) != len(obs):
        part.fail(key + ":duplicate", "%s: %d atom(s) reported more than once" % (what, len(obs) - len(set(obs))), case)
        return False
    s = set(obs)
    inc = s & exclude
    if inc:
        part.fail(key + ":centre-included", "%s: %d of the centre's own atoms are reported" % (what, len(inc)), case)
        return False
    missing = (req - exclude) - s
    if missing:
        part.fail(key + ":missing", "%s: %d of %d atoms within the radius are missing" % (what, len(missing), len(req - exclude)), case)
        return False
    extra = s - allowed
    if extra:
        part.fail(key + ":extra", "%s: %d atoms outside the radius are reported" % (what, len(extra)), case)
        return False
    return True


def check_crystal(part, spec):
    c = build(spec)
    if c is None:
        part.skip("molecular case filtered by precondition")
        return
    radii = spec["radii"]
    M = np.asarray(c.unit_cell.direct, dtype=float)
    uc = c.unit_cell_atoms()
    ucf = np.mod(np.asarray(uc["frac_pos"]), 1.0)
    ucel = np.asarray(uc["element"])
    label = spec.get("label", "?")
    base_case = {k: v for k, v in spec.items() if not k.startswith("_")}
    w = lattice.perpendicular_widths(M)
    lengths = np.linalg.norm(M, axis=1)
    obliq = float((lengths / w).max())
    for radius in radii:
        rkey = "r>=w" if radius >= w.min() else "r<w"
        # ---------------- atoms_in_radius, several centres ---------------------------------------------
        if "point" in spec["queries"]:
            centres = [np.zeros(3), np.array([0.37, 0.21, 0.55]) @ M, np.array([1.7, -2.3, 0.4]) @ M, np.array([-0.01, 0.99, 3.2]) @ M,
                       np.array([3.0, 2.0, 1.0]),
                       # whole-number Cartesian origins written as integers (tuple of ints / int array), negative ones included
                       (-3, -4, -5), np.array([-14, -9, -11]), (7, -2, 0)]
            for ci, cen in enumerate(centres):
                part.ev()
                part.tr()
                case = dict(base_case, query="atoms_in_radius", radius=radius, centre=list(map(float, cen)), radii=[radius])
                key = "atoms_in_radius:%s" % rkey
                try:
                    got = c.atoms_in_radius(radius, origin=cen if isinstance(cen, (tuple, np.ndarray)) and np.asarray(cen).dtype.kind == "i" else tuple(cen))
                    cen = np.asarray(cen, dtype=float)
                except Exception as e:
                    part.fail(key + ":raise", "atoms_in_radius(%g) raised %r [%s]" % (radius, e, label), case)
                    continue
                req, allowed, info = ref_ball(M, ucf, [cen], radius)
                obs = [(int(a), tuple(int(v) for v in cell)) for a, cell in zip(got["uc_atom"], got["cell"])]
                ok = compare_sets(part, obs, req, allowed, set(), key, "atoms_in_radius(r=%g, centre=%s) in %s" % (radius, np.round(cen, 3), label), case)
                if ok and len(obs):
                    P = np.array([info[k][0] for k in obs])
                    dev = np.abs(P - got["cart_pos"]).max()
                    part.dev("position_A", dev)
                    if not (dev <= 1e-8 * max(1.0, np.abs(P).max())) or not np.array_equal(got["element"], ucel[[k[0] for k in obs]]) \
                            or not np.array_equal(got["asym_atom"], np.asarray(uc["asym_atom"])[[k[0] for k in obs]]):
                        part.fail(key + ":attributes", "atoms_in_radius: reported position/element/parent index do not belong to the matched image [%s]" % label, case)
                part.outcome(("point", len(obs)))
        # ---------------- atomic_surroundings ----------------------------------------------------------------
        if "atomic" in spec["queries"]:
            part.ev()
            part.tr()
            case = dict(base_case, query="atomic_surroundings", radius=radius, radii=[radius])
            key = "atomic_surroundings:%s" % rkey
            try:
                got = c.atomic_surroundings(radius=radius)
            except Exception as e:
                part.fail(key + ":raise", "atomic_surroundings(%g) raised %r [%s]" % (radius, e, label), case)
                got = None
            if got is not None:
                apos = np.asarray(c.asymmetric_unit.positions) @ M
                if len(got) != len(apos):
                    part.fail(key + ":count", "atomic_surroundings returns %d entries for %d sites" % (len(got), len(apos)), case)
                for i, g in enumerate(got):
                    cen = apos[i]
                    if not (np.abs(np.asarray(g["centre"]["cart_pos"]) - cen).max() <= 1e-9) or g["centre"]["asym_atom"] != i:
                        part.fail(key + ":centre", "centre record %d does not describe asymmetric-unit atom %d" % (i, i), case)
                    req, allowed, info = ref_ball(M, ucf, [cen], radius)
                    selfk = {k for k in allowed if info[k][1] < 1e-3}
                    nb = g["neighbours"]
                    obs = match_positions(info, allowed, nb["cart_pos"])
                    ok = compare_sets(part, obs, req, allowed, selfk, key, "atomic_surroundings(r=%g) site %d in %s" % (radius, i, label), dict(case, site=i))
                    if ok and len(obs):
                        dref = np.array([info[k][1] for k in obs])
                        if not (np.abs(dref - nb["distance"]).max() <= 1e-7) or not np.array_equal(nb["element"], ucel[[k[0] for k in obs]]) \
                                or not np.array_equal(nb["asym_atom"], np.asarray(uc["asym_atom"])[[k[0] for k in obs]]):
                            part.fail(key + ":attributes", "atomic_surroundings: distance/element/parent index do not belong to the matched image [%s]" % label, dict(case, site=i))
                    part.outcome(("atomic", len(obs)))
        # ---------------- molecule queries ---------------------------------------------------------------------
        if "molecule" in spec["queries"]:
            try:
                umols = c.symmetry_unique_molecules()
            except Exception as e:
                part.fail("molecule-setup:raise", "symmetry_unique_molecules raised %r [%s]" % (e, label), dict(base_case, radii=[radius]))
                umols = []
            for mode in ("environments", "environment", "environment-threshold", "environment-image", "environment-image-rebuilt", "group"):
                part.ev()
                part.tr()
                case = dict(base_case, query="molecule_" + mode, radius=radius, radii=[radius])
                key = "molecule_%s:%s" % (mode, rkey)
                try:
                    if mode == "environments":
                        res = [(m, e, p) for (m, e, p) in c.molecule_environments(radius=radius)]
                        centres = [np.asarray(m.positions) for m in umols]
                    elif mode == "environment":
                        # a unit-cell molecule translated far outside the reference cell
                        m = c.unit_cell_molecules()[-1].translated(np.array([2, -3, 1]) @ M)
                        res = [c.molecule_environment(m, radius=radius)]
                        centres = [np.asarray(m.positions)]
                    elif mode.startswith("environment-image"):
                        # the centre is a SYMMETRY IMAGE of the unique molecule made by the caller with Molecule.transformed (a deep copy
                        # that still carries the original's bookkeeping properties), or rebuilt from bare arrays at the same coordinates
                        from chmpy.core.molecule import Molecule

                        sg_ops = c.space_group.symmetry_operations
                        opx = sg_ops[min(len(sg_ops) - 1, 1 + (int(radius * 10) % max(1, len(sg_ops) - 1)))]
                        Rf, tf = np.asarray(opx.rotation, dtype=float), np.asarray(opx.translation, dtype=float)
                        Minv_ = np.linalg.inv(M)
                        Rc = M.T @ Rf @ Minv_.T          # cart' = Rc cart + tc  (column convention)
                        tc = (tf + np.array([1.0, 0.0, -1.0])) @ M
                        base_m = umols[0]
                        want_pos = np.asarray(base_m.positions) @ Rc.T + tc
                        m = base_m.transformed(rotation=Rc, translation=tc)
                        if not (np.abs(np.asarray(m.positions) - want_pos).max() <= 1e-8):
                            m = base_m.transformed(rotation=Rc.T, translation=tc)
                        if not (np.abs(np.asarray(m.positions) - want_pos).max() <= 1e-8):
                            part.skip("Molecule.transformed convention not recognised")
                            continue
                        if mode.endswith("rebuilt"):
                            m = Molecule.from_arrays(np.asarray(m.atomic_numbers), np.asarray(m.positions).copy())
                        res = [c.molecule_environment(m, radius=radius)]
                        centres = [np.asarray(m.positions)]
                    elif mode == "environment-threshold":
                        # the documented `threshold`: a centre molecule whose coordinates are off the crystal's sites by up to
                        # 0.02 A (rounded file, optimised geometry) is still recognised as the centre with threshold=0.05
                        m = c.unit_cell_molecules()[0].translated(np.array([-1, 2, 0]) @ M)
                        k = np.arange(len(m))[:, None] * np.array([1.0, 2.0, 3.0]) + np.array([0.5, 1.5, 2.5])
                        m.positions = np.asarray(m.positions) + 0.02 * np.sin(7.0 * k)
                        thr = 0.05
                        res = [c.molecule_environment(m, radius=radius, threshold=thr)]
                        centres = [np.asarray(m.positions)]
                    else:
                        m0 = umols[0]
                        sel = [0, 1] if len(m0) > 2 else [0]
                        (ce, cp), (oe, op) = c.atom_group_surroundings(sel, radius=radius)
                        res = [(None, oe, op)]
                        centres = [np.asarray(m0.positions)[sel]]
                        if not (np.abs(np.asarray(cp) - centres[0]).max() <= 1e-9):
                            part.fail(key + ":centre", "atom_group_surroundings returns other central atoms than requested", case)
                except Exception as e:
                    part.fail(key + ":raise", "%s(r=%g) raised %r [%s]" % (mode, radius, e, label), case)
                    continue
                if len(res) != len(centres):
                    part.fail(key + ":count", "%s: %d results for %d molecules" % (mode, len(res), len(centres)), case)
                    continue
                for (m, els, pos), cen in zip(res, centres):
                    req, allowed, info = ref_ball(M, ucf, cen, radius)
                    selfk = {k for k in allowed if info[k][1] < (thr if mode == "environment-threshold" else 1e-3)}
                    if mode == "environment-threshold" and len(selfk) != len(cen):
                        part.skip("threshold-ambiguous")   # other sites within the threshold of the centre: exclusion not defined
                        continue
                    if len(selfk) != len(cen):
                        part.fail(key + ":harness", "reference found %d of %d centre atoms in the lattice" % (len(selfk), len(cen)), case)
                        continue
                    obs = match_positions(info, allowed, pos)
                    ok = compare_sets(part, obs, req, allowed, selfk, key, "%s(r=%g) in %s" % (mode, radius, label), case)
                    if ok and len(obs) and not np.array_equal(np.asarray(els), ucel[[k[0] for k in obs]]):
                        part.fail(key + ":attributes", "%s: reported elements do not belong to the matched images [%s]" % (mode, label), case)
                    part.outcome((mode, len(obs)))
    part.nontriv((label, tuple(radii), tuple(sorted(spec["queries"]))))
    part.count("crystals")
    part.nstates(1)
    part.dev("max_length_over_perp_width", obliq)


def exact_shell_worker(part, spec):
    """
    lattice-aligned atoms and radii that equal a lattice distance exactly (all arithmetic exact in binary floating point):
    neighbours come in shells of symmetry-equivalent images at one distance.  Shells clearly inside the radius are complete,
    shells clearly outside are absent, and the shell AT the radius is treated uniformly - all of it or none of it - since
    membership depends on the distance alone.
    """
    import itertools

    cell, sites, radii = spec["cell"], spec["sites"], spec["radii"]
    from chmpy.crystal import Crystal, UnitCell

    # the cell is given by exact lattice vectors (from lengths and angles cos(90 deg) = 6e-17 would leak into the positions)
    c0 = xtal.make_crystal(1, "", tuple(cell) + (90.0, 90.0, 90.0), ["Ar"] * len(sites), np.array(sites, dtype=float))
    c = Crystal(UnitCell(np.diag(np.array(cell, dtype=float))), c0.space_group, c0.asymmetric_unit)
    M = np.asarray(c.unit_cell.direct, dtype=float)
    if not np.array_equal(M, np.diag(np.array(cell, dtype=float))):
        part.skip("lattice vectors not kept exactly")
        return
    label = "P1 %s, sites %s" % (list(cell), sites)
    for radius in radii:
        n = [int(radius // x) + 2 for x in cell]
        imgs = []
        for si, sf in enumerate(sites):
            for t in itertools.product(*[range(-k, k + 1) for k in n]):
                imgs.append((si, np.array(t), (np.array(sf) + np.array(t)) * np.array(cell)))
        for query in ("atomic_surroundings", "atoms_in_radius"):
            part.ev()
            part.tr()
            case = {"kind": "exact", "cell": list(cell), "sites": [list(x) for x in sites], "radii": [radius], "query": query}
            try:
                if query == "atomic_surroundings":
                    got = c.atomic_surroundings(radius=radius)
                    results = [(np.array(sites[i]) * np.array(cell), np.asarray(g["neighbours"]["cart_pos"]), True) for i, g in enumerate(got)]
                else:
                    cen = np.array(sites[0]) * np.array(cell)
                    results = [(cen, np.asarray(c.atoms_in_radius(radius, origin=tuple(cen))["cart_pos"]), False)]
            except Exception as e:
                part.fail("exact-shell:raise:" + query, "%s(%g) raised %r [%s]" % (query, radius, e, label), case)
                continue
            for cen, pos, excl_self in results:
                shells = {}
                for si, t, p in imgs:
                    d = float(np.linalg.norm(p - cen))
                    if excl_self and not (d >= 1e-9):
                        continue
                    if d <= radius + max(cell):
                        shells.setdefault(round(d, 9), []).append(p)
                rep = {tuple(np.round(p, 6)) for p in pos.reshape(-1, 3)}
                for d, members in sorted(shells.items()):
                    present = sum(1 for p in members if tuple(np.round(p, 6)) in rep)
                    if not (d >= radius - 1e-9) and present != len(members):
                        part.fail("exact-shell:missing:" + query, "%s(r=%g) in %s: %d of the %d atoms at distance %g are missing" % (query, radius, label, len(members) - present, len(members), d), case)
                    elif not (d <= radius + 1e-9) and present:
                        part.fail("exact-shell:extra:" + query, "%s(r=%g) in %s: %d atoms at distance %g are reported" % (query, radius, label, present, d), case)
                    elif abs(d - radius) <= 1e-9 and present not in (0, len(members)) and all(float(np.linalg.norm(p - cen)) == radius for p in members):
                        part.fail("exact-shell:boundary-not-uniform:" + query, "%s(r=%g) in %s: %d of the %d equivalent atoms at distance exactly %g are reported, the others are not"
                                  % (query, radius, label, present, len(members), d), case)
                part.outcome(("exact", query, len(rep)))
    part.nstates(1)


EXACT_SPECS = [
    {"cell": (4.0, 4.0, 4.0), "sites": [(0.0, 0.0, 0.0)], "radii": [4.0, 8.0, 12.0, 5.0]},
    {"cell": (4.0, 4.0, 4.0), "sites": [(0.0, 0.0, 0.0), (0.5, 0.5, 0.5)], "radii": [4.0, 8.0, 2.0, 6.0]},
    {"cell": (4.0, 4.0, 6.0), "sites": [(0.0, 0.0, 0.0), (0.5, 0.0, 0.5)], "radii": [4.0, 6.0, 8.0, 12.0, 5.0]},
    {"cell": (3.0, 4.0, 5.0), "sites": [(0.0, 0.0, 0.0)], "radii": [3.0, 4.0, 5.0, 6.0, 8.0, 10.0, 13.0]},
    {"cell": (3.0, 4.0, 5.0), "sites": [(0.5, 0.5, 0.5), (0.0, 0.5, 0.0)], "radii": [3.0, 4.0, 5.0, 2.5]},
    {"cell": (2.0, 8.0, 16.0), "sites": [(0.0, 0.0, 0.0), (0.5, 0.25, 0.125)], "radii": [2.0, 8.0, 16.0, 10.0]},
]


def worker(part, spec):
    if spec.get("kind") == "exact":
        exact_shell_worker(part, spec)
        return
    check_crystal(part, spec)
    if spec.get("label", "").startswith("atoms5:1:"):
        part.sample({k: v for k, v in spec.items() if not k.startswith("_")})


def run(ctx):
    table = symm.load_table()
    rows = {(r["number"], r["choice"]): r for r in table}
    specs = []
    seed = ctx.seed
    # (1) five general atoms: settings x compatible cells; oblique cells in P1 and P-1
    if ctx.thorough:
        sett = [(r["number"], r["choice"]) for r in table]
    else:
        sett = QUICK_SETTINGS
    for (n, ch) in sett:
        cells = lattice.compatible_cells(n, ch)
        for ci, cell in enumerate(cells if (n, ch) in QUICK_SETTINGS else cells[1:]):
            radii = [r for r in RADII if r <= 12.0]
            if len(rows[(n, ch)]["symops"]) > 48:
                radii = [1.2, 3.8, 6.0]
            specs.append({"kind": "atoms5", "number": n, "choice": ch, "cell": list(cell), "seed": seed, "radii": radii,
                          "queries": ["point", "atomic"], "label": "atoms5:%d:%s:cell%d" % (n, ch, ci)})
    for cell in OBLIQUE:
        for (n, ch) in ((1, ""), (2, "")):
            w = lattice.perpendicular_widths(lattice.cell_matrix(*cell))
            specs.append({"kind": "atoms5", "number": n, "choice": ch, "cell": list(cell), "seed": seed,
                          "radii": list(RADII) + [round(min(2.5 * max(cell[:3]), 20.0), 3)],
                          "queries": ["point", "atomic"], "label": "atoms5:%d:%s:oblique%s" % (n, ch, cell[3:])})
    # (1b) realistic sizes: slabs beyond 2^16 and 2^18 rows - a 1728-atom cell at 12 .. 30 A, a 30-atom rhombohedral cell at 35 A
    specs.append({"kind": "grid", "n": 12, "radii": [12.0, 20.0, 30.0], "queries": ["point"], "label": "grid:12^3"})
    specs.append({"kind": "atoms5", "number": 148, "choice": "R", "cell": list(lattice.compatible_cells(148, "R")[1]), "seed": seed, "radii": [35.0],
                  "queries": ["point"], "label": "atoms5:148:R:long-radius"})
    # (1d) special values: right-angled (and, for comparison, oblique) cells given by lattice vectors in permuted / quarter-turned / rotated frames
    for cell in ((3.0, 9.0, 30.0, 90.0, 90.0, 90.0), (5.0, 5.0, 5.0, 90.0, 90.0, 90.0), (7.0, 8.0, 9.0, 81.0, 97.0, 104.0)):
        for frame in ("permuted", "quarter-turn", "rotated"):
            specs.append({"kind": "atoms5-frame", "number": 1, "choice": "", "cell": list(cell), "seed": seed, "frame": frame, "radii": [3.8, 12.0],
                          "queries": ["point", "atomic"], "label": "atoms5-frame:%s:%s" % (frame, cell[3:])})
    # (1c) degenerate sizes: crystals whose molecules are single atoms (fcc argon: one site, 4 atoms per cell; a one-atom P1 cell; an
    # inversion-centre site next to a general one), every query kind, radii beyond the shortest lattice translation
    specs.append({"kind": "monatomic", "number": 225, "choice": "", "cell": [5.31, 5.31, 5.31, 90.0, 90.0, 90.0], "symbols": ["Ar"], "frac": [[0.0, 0.0, 0.0]],
                  "radii": [3.0, 3.8, 6.0, 12.0], "queries": ["point", "atomic", "molecule"], "label": "monatomic:fcc-Ar"})
    specs.append({"kind": "monatomic", "number": 1, "choice": "", "cell": [4.1, 4.7, 5.3, 81.0, 97.0, 104.0], "symbols": ["Xe"], "frac": [[0.31, 0.62, 0.17]],
                  "radii": [3.8, 6.0, 12.0], "queries": ["point", "atomic", "molecule"], "label": "monatomic:P1-one-atom"})
    specs.append({"kind": "monatomic", "number": 2, "choice": "", "cell": [6.1, 6.7, 7.3, 81.0, 97.0, 104.0], "symbols": ["Kr", "Xe"], "frac": [[0.0, 0.0, 0.0], [0.31, 0.42, 0.57]],
                  "radii": [3.8, 6.0, 12.0], "queries": ["point", "atomic", "molecule"], "label": "monatomic:P-1-centre+general"})
    # (2) bundled structures: all queries
    for f in ("iceII.cif", "acetic_acid.cif", "r3c_example.cif"):
        specs.append({"kind": "file", "path": TEST_FILES + f, "radii": [1.2, 3.8, 6.0, 12.0],
                      "queries": ["point", "atomic", "molecule"], "label": f})
    # (2b) radius sweep: a dense ladder of radii (a short-range or long-range branch that switches at some multiple of a cell length or
    # width has nowhere to hide between the four standard radii) - oblique cells, a hexagonal setting and the bundled structures, point queries
    ladder = [round(0.55 + 0.1 * k, 2) for k in range(135)] if ctx.thorough else [round(0.7 + 0.45 * k, 2) for k in range(24)]
    for ci, cell in enumerate(OBLIQUE):
        if ctx.thorough or ci % 3 == 0:
            specs.append({"kind": "atoms5", "number": 2, "choice": "", "cell": list(cell), "seed": seed, "radii": ladder,
                          "queries": ["point"], "label": "atoms5:2::radius-ladder%s" % (cell[3:],)})
    specs.append({"kind": "atoms5", "number": 148, "choice": "R", "cell": list(lattice.compatible_cells(148, "R")[1]), "seed": seed, "radii": ladder,
                  "queries": ["point"], "label": "atoms5:148:R:radius-ladder"})
    for f in ("iceII.cif", "acetic_acid.cif", "r3c_example.cif"):
        specs.append({"kind": "file", "path": TEST_FILES + f, "radii": ladder, "queries": ["point"], "label": f + ":radius-ladder"})
    # (3) generated molecular crystals: molecule queries
    msett = [(1, ""), (2, ""), (14, "b1"), (15, "b1"), (19, ""), (33, ""), (61, ""), (148, "H"), (148, "R"), (176, "")]
    if ctx.thorough:
        msett = [(r["number"], r["choice"]) for r in table if len(r["symops"]) <= 24]
    for (n, ch) in msett:
        for cv in (0, 1):
            for ce in ([0.137, 0.289, 0.611], [0.983, 0.289, 0.017]):
                specs.append({"kind": "mol", "number": n, "choice": ch, "zkind": "2diff", "centre": ce, "orient": 1, "seed": seed, "cellvar": cv,
                              "_row": rows[(n, ch)], "radii": [3.8, 6.0, 12.0] if len(rows[(n, ch)]["symops"]) <= 8 else [3.8, 6.0],
                              "queries": ["molecule", "atomic"], "label": "mol:%d:%s:cell%d:%s" % (n, ch, cv, ce)})
    ctx.rule = ("crystals: 5 general atoms in %d settings x compatible cells + 9 oblique cells in P1/P-1, bundled ice II / acetic acid / R3c, "
                "generated molecular crystals; radii %s (+ up to 20 A in oblique cells); centres: 5 points inside/outside the cell, every "
                "asymmetric-unit atom, every unique molecule, a molecule translated outside the cell, an atom group; every answer compared with a "
                "brute-force periodic search; distinct = (crystal, radii, query kinds)" % (len(sett), list(RADII)))
    ctx.bounds = {"crystals": len(specs), "radii": list(RADII), "band_A": BAND}
    ctx.assumptions = ["unit-cell atoms are taken from the library's own unit_cell_atoms() (validated against the exact orbit model by C01)",
                       "atoms_in_radius: the 'origin' is interpreted as a Cartesian point (the code's behaviour); the property only says 'point'",
                       "inputs keep atoms out of the 1e-6 A ambiguity band around the radius only by genericity; the band absorbs rounding"]
    specs.sort(key=lambda s: -(len(s["radii"]) * (5 if s["kind"] != "atoms5" else 1)))
    specs += [dict(e, kind="exact", cell=list(e["cell"]), sites=[list(x) for x in e["sites"]]) for e in EXACT_SPECS]
    ctx.bounds["exact_shell_cases"] = "%d lattice-aligned P1 structures x radii equal to exact lattice distances x {atomic_surroundings, atoms_in_radius}" % len(EXACT_SPECS)
    ctx.pmap(worker, specs)


def replay(ctx, case):
    table = symm.load_table()
    rows = {(r["number"], r["choice"]): r for r in table}
    spec = dict(case)
    if spec["kind"] == "exact":
        exact_shell_worker(ctx, spec)
        return
    if spec["kind"] == "mol":
        spec["_row"] = rows[(spec["number"], spec["choice"])]
    q = spec.get("query", "")
    spec["queries"] = ["point"] if q == "atoms_in_radius" else ["atomic"] if q == "atomic_surroundings" else ["molecule"] if q.startswith("molecule") else spec["queries"]
    check_crystal(ctx, spec)

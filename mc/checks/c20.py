"""
C20 - quasi-random sequences are deterministic, in the unit cube, evenly stratified.

Sobol stratification: all dimensions 1..1000 x all m <= 12, complete in both tiers; (0,m,2)-net for every
m <= 12 and every elementary box shape; batch = single over a boundary-oriented family of seed windows
(all [s, s+k], s in 1..64, k in 0..64; s within +-2 of every power of two up to 2^20); Korobov dims 1..64;
front end; direct reference evaluation for dimensions <= 13.
"""
import itertools

import numpy as np

from mc.ref import sobol as rs

PROPERTY = "C20"
LEVEL = "model_checking"


def strat_worker(part, dims):
    from chmpy.sampling import quasirandom_sobol_batch

    lo, hi = dims
    P = quasirandom_sobol_batch(1, 4096, hi)
    part.tr()
    if P.shape != (4096, hi):
        part.fail("sobol-shape", "batch(1,4096,%d) has shape %s" % (hi, P.shape), {"kind": "strat", "dims": [lo, hi]})
        return
    if not (P.min() >= 0) or P.max() >= 1:
        part.fail("sobol-range", "coordinate outside [0,1): min %g max %g" % (P.min(), P.max()), {"kind": "strat", "dims": [lo, hi]})
    for m in range(0, 13):
        n = 1 << m
        cells = np.floor(P[:n, lo - 1:hi] * n).astype(np.int64)
        srt = np.sort(cells, axis=0)
        ok = (srt == np.arange(n)[:, None]).all(axis=0)
        part.ev(hi - lo + 1)
        if not ok.all():
            bad = np.nonzero(~ok)[0][:5] + lo
            for d in bad:
                part.fail("sobol-stratification:m=%d:dim=%d" % (m, d), "dimension %d: the first 2^%d points do not occupy each of the 2^%d sub-intervals exactly once" % (d, m, m),
                          {"kind": "strat", "dims": [int(d), int(d)]})
        part.outcome(("strat", m, bool(ok.all())))
    part.nstates((hi - lo + 1) * 13)
    # determinism
    P2 = quasirandom_sobol_batch(1, 4096, hi)
    if not np.array_equal(P, P2):
        part.fail("sobol-determinism", "two identical batch calls return different arrays (hidden state)", {"kind": "strat", "dims": [lo, hi]})


def net_check(part):
    from chmpy.sampling import quasirandom_sobol_batch

    P = quasirandom_sobol_batch(1, 4096, 2)
    for m in range(0, 13):
        n = 1 << m
        for a in range(0, m + 1):
            b = m - a
            part.ev()
            ia = np.floor(P[:n, 0] * (1 << a)).astype(np.int64)
            ib = np.floor(P[:n, 1] * (1 << b)).astype(np.int64)
            code = ia * (1 << b) + ib
            if len(np.unique(code)) != n:
                part.fail("sobol-net:m=%d:a=%d" % (m, a), "first 2^%d points of dims (1,2): an elementary box 2^-%d x 2^-%d holds more than one point" % (m, a, b),
                          {"kind": "net"})
            part.outcome(("net", m, a))
    part.tr(91)


def windows(thorough):
    ws = []
    for s in range(1, 65):
        for k in range(0, 65):
            ws.append((s, k))
    for p in range(1, 21):
        for ds in (-2, -1, 0, 1, 2):
            s = (1 << p) + ds
            if s < 1:
                continue
            for k in (0, 1, 2, 256):
                ws.append((s, k))
    for s in (999999, 1000000):
        for k in (0, 1, 256):
            ws.append((s, k))
    return sorted(set(ws))


def window_worker(part, chunk, method, dims, budget=1.0):
    from chmpy import sampling as S

    batch = {"sobol": S.quasirandom_sobol_batch, "kgf": S.quasirandom_kgf_batch}[method]
    single = {"sobol": S.quasirandom_sobol, "kgf": S.quasirandom_kgf}[method]
    tol = 0.0 if method == "sobol" else 1e-9
    for (s, k) in chunk:
        for D in dims:
            if method == "sobol" and (s + k) * D > 3e8 * budget:
                continue
            part.ev()
            part.tr()
            case = {"kind": "window", "method": method, "s": s, "k": k, "D": D}
            wkey = "s<=64" if s <= 64 else "s~2^p" if s < 999999 else "s~1e6"
            key = "%s:%s:%s" % (method, wkey, "D=1" if D == 1 else "D>1")
            try:
                B = batch(s, s + k, D)
            except Exception as e:
                part.fail("batch-raise:" + key, "%s batch(%d,%d,%d) raised %r" % (method, s, s + k, D, e), case)
                continue
            if B.shape != (k + 1, D):
                part.fail("batch-shape:" + key, "%s batch(%d,%d,%d) has shape %s" % (method, s, s + k, D, B.shape), case)
                continue
            if not (B.min() >= 0) or B.max() >= 1:
                part.fail("range:" + key, "%s batch(%d,%d,%d) leaves [0,1)" % (method, s, s + k, D), case)
            # singles: all seeds of the window if affordable, else its end points
            cost = (s + k) * D * (k + 1) if method == "sobol" else 0
            seeds = range(s, s + k + 1) if cost <= 2e8 * budget else sorted({s, s + k})
            for n in seeds:
                v = single(n, D)
                part.tr()
                d = np.abs(v - B[n - s]).max() if v.shape == (D,) else np.inf
                if not (d <= tol):
                    part.fail("batch-vs-single:" + key, "%s: seed %d in window [%d,%d], D=%d: single-point vector differs from the batch row by %g" % (method, n, s, s + k, D, d), case)
                    break
            # prefix consistency: depends only on (seed, dimension)
            if s > 1 and (s + k) * D <= 5e7 * budget:
                F = batch(1, s + k, D)
                if not (np.abs(F[s - 1:] - B).max() <= tol):
                    part.fail("window-vs-prefix:" + key, "%s: window [%d,%d] differs from the same seeds taken from [1,%d] (D=%d)" % (method, s, s + k, s + k, D), case)
            if not np.array_equal(batch(s, s + k, D), B):
                part.fail("determinism:" + key, "%s: repeated call differs" % method, case)
            # front end
            if D in (1, 3) and k <= 8:
                Q = S.quasirandom(k + 1, D, method=method, seed=s)
                q1 = S.quasirandom(D, method=method, seed=s)
                if not np.array_equal(Q, B) or not (np.abs(q1 - B[0]).max() <= tol):
                    part.fail("front-end:" + key, "quasirandom(%d,%d,%s,seed=%d) disagrees with the generators" % (k + 1, D, method, s), case)
            part.outcome((method, wkey, D > 1))
        part.state((method, s, k))


def frontend_history(part, depth):
    """
    hidden state behind the front end: every sequence of up to `depth` front-end calls over a small alphabet (both
    methods x colliding (count, dimension, seed) arguments, single-point and batch forms); every answer in every
    history must equal what the generators give for those arguments alone
    """
    from chmpy import sampling as S

    alphabet = []
    for method in ("sobol", "kgf"):
        for (n, D, seed) in ((4, 2, 1), (4, 2, 5), (2, 3, 1)):
            alphabet.append((method, n, D, seed))
        alphabet.append((method, 3, None, 7))  # single point: d1 = dimension
    # refused requests are letters too (a method name in the wrong case, an unknown one, a negative count): they raise, and what is asked
    # AFTER them is answered as if they had never been made
    refused = [("KGF", 4, 3, 1), ("Sobol", 4, 3, 1), ("Kgf", 3, None, 5), ("nope", 4, 2, 1), ("sobol", -3, 2, 1)]
    n_valid = len(alphabet)
    alphabet += refused
    batch = {"sobol": S.quasirandom_sobol_batch, "kgf": S.quasirandom_kgf_batch}
    single = {"sobol": S.quasirandom_sobol, "kgf": S.quasirandom_kgf}
    want = {}
    for (method, n, D, seed) in alphabet[:n_valid]:
        want[(method, n, D, seed)] = batch[method](seed, seed + n - 1, D) if D is not None else single[method](seed, n)
    seen_states = set()
    for L in range(1, depth + 1):
        for hist in itertools.product(range(len(alphabet)), repeat=L):
            part.ev()
            # every history starts from freshly initialised module state (module-level caches are state too)
            import importlib

            S = importlib.reload(S)
            if hist[-1] >= n_valid:
                continue        # a history ending in a refused request observes nothing
            for step, k in enumerate(hist):
                method, n, D, seed = alphabet[k]
                if k >= n_valid:
                    try:
                        S.quasirandom(n, D, method=method, seed=seed) if D is not None else S.quasirandom(n, method=method, seed=seed)
                        part.count("refused_request_answered")
                    except Exception:
                        pass
                    part.tr()
                    continue
                got = S.quasirandom(n, D, method=method, seed=seed) if D is not None else S.quasirandom(n, method=method, seed=seed)
                part.tr()
                w = want[alphabet[k]]
                if got.shape != w.shape or not (np.abs(got - w).max() <= (0.0 if method == "sobol" else 1e-12)):
                    part.fail("front-end-history:%s-after-%s" % (method, (alphabet[hist[step - 1]][0] if hist[step - 1] < n_valid else "refused") if step else "start"),
                              "quasirandom%s returns other points than the %s generator after the call history %s"
                              % ((n, D, method, seed), method, [alphabet[j] for j in hist[:step]]), {"kind": "history", "hist": list(hist)})
                    break
                # a caller mutating the returned array must not change later answers
                got *= 0.0
            seen_states.add(hist[-2:] if L > 1 else hist)
    part.nstates(len(seen_states))
    part.outcome(("history", depth))


def kgf_seed_zero(part):
    """the Korobov generators accept seed 0 (the Sobol ones start at 1): batch = single = front end there too"""
    from chmpy import sampling as S

    for D in (1, 2, 3, 7, 64):
        for k in (0, 1, 5):
            part.ev()
            part.tr()
            case = {"kind": "kgf0", "D": D, "k": k}
            try:
                B = S.quasirandom_kgf_batch(0, k, D)
                singles = np.array([S.quasirandom_kgf(n, D) for n in range(0, k + 1)])
                Q = S.quasirandom(k + 1, D, method="kgf", seed=0)
                q1 = S.quasirandom(D, method="kgf", seed=0)
            except Exception as e:
                part.fail("kgf-seed0-raise", "Korobov generators raised %r for seed 0" % e, case)
                continue
            if B.shape != (k + 1, D) or not (np.abs(B - singles).max() <= 1e-12) or not (B.min() >= 0) or B.max() >= 1:
                part.fail("kgf-seed0:batch-vs-single", "Korobov batch(0,%d,%d) differs from the single-point vectors" % (k, D), case)
            if Q.shape != B.shape or not (np.abs(Q - B).max() <= 1e-12) or not (np.abs(q1 - B[0]).max() <= 1e-12):
                part.fail("kgf-seed0:front-end", "quasirandom(%d,%d,'kgf',seed=0) does not return the points of seeds 0..%d" % (k + 1, D, k), case)
            part.outcome(("kgf0", D > 1))
    part.nstates(15)


def kgf_alpha(D):
    """the Korobov multipliers as the definition gives them: g = the positive root of x^(D+1) = x + 1 (fixed-point iteration), a_i = g^-(i+1) mod 1"""
    x = 2.0
    for _ in range(30):
        x = (1.0 + x) ** (1.0 / (D + 1.0))
    return np.array([(1.0 / x) ** (i + 1) % 1.0 for i in range(D)])


def kgf_sweep_worker(part, D):
    """
    the Korobov part of the quantified domain COMPLETELY: every seed 0 .. 10^6 + 256 in dimension D, in windows of 2^16 seeds - the batch
    generator, the front end on the same window (bit for bit the same array), the half-open range, the definition frac(1/2 + a_i (N + 1))
    (to 1e-9 on the circle), and the single-point generator at the extreme values of every window (nearest to 0, nearest to 1) and its ends
    """
    from chmpy import sampling as S

    a = kgf_alpha(D)
    last = 1000256
    case = {"kind": "kgf-sweep", "D": D}
    for s in range(0, last + 1, 65536):
        n = min(65536, last + 1 - s)
        part.ev()
        part.tr(3)
        try:
            B = S.quasirandom_kgf_batch(s, s + n - 1, D)
            Q = S.quasirandom(n, D, method="kgf", seed=s)
        except Exception as e:
            part.fail("kgf-sweep:raise", "Korobov generators raised %r for the window [%d, %d], D=%d" % (e, s, s + n - 1, D), case)
            return
        if B.shape != (n, D) or Q.shape != (n, D):
            part.fail("kgf-sweep:shape", "Korobov window [%d, %d], D=%d: shapes %s / %s" % (s, s + n - 1, D, B.shape, Q.shape), case)
            return
        if not np.array_equal(Q, B):
            r, c = np.argwhere(Q != B)[0]
            part.fail("kgf-sweep:front-end", "quasirandom(%d, %d, 'kgf', seed=%d) differs from the batch generator at seed %d, coordinate %d: %r vs %r (%d entries differ)"
                      % (n, D, s, s + r, c, Q[r, c], B[r, c], int((Q != B).sum())), case)
            return
        if not (B.min() >= 0) or B.max() >= 1:
            part.fail("kgf-sweep:range", "Korobov window [%d, %d], D=%d leaves [0,1)" % (s, s + n - 1, D), case)
            return
        N1 = np.arange(s, s + n, dtype=np.float64) + 1.0
        want = (0.5 + a[None, :] * N1[:, None]) % 1.0
        dev = np.abs(B - want)
        dev = np.minimum(dev, 1.0 - dev).max()
        part.dev("kgf_definition", float(dev))
        if not (dev <= 1e-9):
            part.fail("kgf-sweep:definition", "Korobov window [%d, %d], D=%d deviates by %.3g from frac(1/2 + a_i (N+1))" % (s, s + n - 1, D, dev), case)
            return
        rows = {0, n - 1, int(np.argmin(B.min(axis=1))), int(np.argmax(B.max(axis=1)))}
        for r in rows:
            v = S.quasirandom_kgf(s + r, D)
            q1 = S.quasirandom(D, method="kgf", seed=s + r)
            part.tr(2)
            if v.shape != (D,) or not (np.abs(v - B[r]).max() <= 1e-12) or not np.array_equal(q1, v):
                part.fail("kgf-sweep:single", "Korobov seed %d, D=%d: the single-point vector (generator / front end) differs from the batch row" % (s + r, D), case)
                return
        part.trace(n)
    part.outcome(("kgf-sweep", D % 4))
    part.nstates(1)


def keyword_calls(part, _=None):
    """the generators called with their documented parameter names as keywords, in signature order and in every other order, and
    with a mixture of positional and keyword arguments: same points as the positional call"""
    import itertools as it

    from chmpy import sampling as S

    specs = [("quasirandom_sobol", ("N", "D"), [(5, 3), (1, 1), (1000, 7), (3, 5)]),
             ("quasirandom_kgf", ("N", "D"), [(5, 3), (0, 1), (1000, 7), (3, 5)]),
             ("quasirandom_sobol_batch", ("start", "end", "D"), [(1, 8, 3), (5, 5, 2), (100, 140, 6), (2, 9, 3)]),
             ("quasirandom_kgf_batch", ("L", "U", "D"), [(1, 8, 2), (0, 0, 3), (100, 140, 6), (2, 9, 3)])]
    import inspect

    for fname, names, argsets in specs:
        f = getattr(S, fname)
        try:       # the parameter names are whatever the library declares (a rename is not this check's business)
            declared = tuple(inspect.signature(f).parameters)
            if len(declared) == len(names):
                names = declared
        except (TypeError, ValueError):
            part.skip("signature of %s not introspectable" % fname)
            continue
        for args in argsets:
            want = np.asarray(f(*args))
            for perm in it.permutations(range(len(names))):
                for npos in range(0, len(names)):
                    if list(perm[:npos]) != list(range(npos)):
                        continue                      # positional arguments come first and in order
                    part.ev()
                    part.tr()
                    pos = [args[i] for i in range(npos)]
                    kw = {names[i]: args[i] for i in perm[npos:]}
                    case = {"kind": "kwcall", "fn": fname}
                    try:
                        got = np.asarray(f(*pos, **kw))
                    except Exception as e:
                        part.fail("keyword-call:raise:%s" % fname, "%s(%s) raised %r" % (fname, ", ".join([str(x) for x in pos] + ["%s=%s" % kv for kv in kw.items()]), e), case)
                        continue
                    if got.shape != want.shape or not (np.abs(got - want).max() <= 0):
                        part.fail("keyword-call:%s" % fname, "%s(%s) differs from the positional call %s%s" % (fname, ", ".join([str(x) for x in pos] + ["%s=%s" % kv for kv in kw.items()]), fname, args), case)
            part.outcome(("kwcall", fname))
    # the front end with keywords
    if tuple(inspect.signature(S.quasirandom).parameters) != ("d1", "d2", "method", "seed"):
        part.skip("front-end signature changed")
        part.nstates(5)
        return
    for kw in ({"d1": 4, "d2": 3, "method": "sobol", "seed": 5}, {"seed": 5, "method": "sobol", "d2": 3, "d1": 4}, {"method": "kgf", "d1": 3, "seed": 2}, {"seed": 2, "d1": 3, "method": "kgf"}):
        part.ev()
        want = S.quasirandom(kw["d1"], kw.get("d2"), kw["method"], kw["seed"])
        got = S.quasirandom(**kw)
        if np.asarray(got).shape != np.asarray(want).shape or not (np.abs(np.asarray(got) - np.asarray(want)).max() <= 0):
            part.fail("keyword-call:quasirandom", "quasirandom(**%r) differs from the positional call" % (kw,), {"kind": "kwcall", "fn": "quasirandom"})
    part.nstates(5)


def frontend_probe(part, _=None):
    """front end against the generators for both methods (cheap: run under every hash seed of the hostile cycle - which generator a
    method name selects must not depend on the iteration order of a set or dict)"""
    from chmpy import sampling as S

    for method, single, batch in (("sobol", S.quasirandom_sobol, S.quasirandom_sobol_batch), ("kgf", S.quasirandom_kgf, S.quasirandom_kgf_batch)):
        for (n, D, seed) in ((5, 3, 1), (16, 2, 7), (3, 1, 100)):
            part.ev()
            part.tr()
            got = np.asarray(S.quasirandom(n, D, method=method, seed=seed))
            want = np.asarray(batch(seed, seed + n - 1, D))
            one = np.asarray(S.quasirandom(D, method=method, seed=seed))
            if got.shape != want.shape or not (np.abs(got - want).max() <= 1e-12) or not (np.abs(one - np.asarray(single(seed, D))).max() <= 1e-12):
                part.fail("front-end:%s:probe" % method, "quasirandom(%d, %d, method=%r, seed=%d) does not return the points of the %s generators" % (n, D, method, seed, method), {"kind": "probe"})
            part.outcome(("probe", method))
        # defaults: a call that names no seed starts at seed 1 (the documented default) for either method, a call that names no method is Sobol
        for (n, D) in ((5, 3), (1, 1), (16, 2)):
            part.ev()
            part.tr(2)
            try:
                got_d = np.asarray(S.quasirandom(n, D, method=method))
                one_d = np.asarray(S.quasirandom(D, method=method))
                nomethod = np.asarray(S.quasirandom(n, D)) if method == "sobol" else None
            except Exception as e:
                part.fail("front-end:%s:defaults-raise" % method, "quasirandom(%d, %d, method=%r) without a seed raised %r" % (n, D, method, e), {"kind": "probe"})
                continue
            want_d = np.asarray(batch(1, n, D))
            if got_d.shape != want_d.shape or not (np.abs(got_d - want_d).max() <= 1e-12) or not (np.abs(one_d - np.asarray(single(1, D))).max() <= 1e-12) \
                    or (nomethod is not None and not np.array_equal(nomethod, want_d)):
                part.fail("front-end:%s:defaults" % method, "quasirandom(%d, %d, method=%r) without a seed does not return the points of seeds 1..%d (the documented default seed is 1; the default method Sobol)"
                          % (n, D, method, n), {"kind": "probe"})
        # degenerate sizes and scalar types: one point, one dimension, a window of one seed; counts / dimension / seed given as numpy
        # integers (np.int64, np.int32, np.uint8 - what len(), shape[1] or an index array hand over) instead of Python ints
        for (n, D, seed) in ((1, 1, 1), (1, 3, 4), (4, 1, 2), (2, 2, 1), (7, 5, 9)):
            want = np.asarray(batch(seed, seed + n - 1, D))
            for tname, conv in (("int", int), ("np.int64", np.int64), ("np.int32", np.int32), ("np.uint8", np.uint8), ("0-d array", lambda x: np.array(x))):
                part.ev()
                part.tr(2)
                try:
                    got = np.asarray(S.quasirandom(conv(n), conv(D), method=method, seed=conv(seed)))
                    one = np.asarray(S.quasirandom(conv(D), method=method, seed=conv(seed)))
                except Exception as e:
                    if tname == "0-d array":
                        continue        # not an integer type: may be refused
                    part.fail("front-end:%s:scalar-type-raise" % method, "quasirandom(%d, %d, method=%r, seed=%d) with the numbers given as %s raised %r" % (n, D, method, seed, tname, e), {"kind": "probe"})
                    continue
                if got.shape != (n, D) or not (np.abs(got - want).max() <= 1e-12) or one.shape != (D,) or not (np.abs(one - want[0]).max() <= 1e-12):
                    part.fail("front-end:%s:scalar-type" % method, "quasirandom(%d, %d, method=%r, seed=%d) with the numbers given as %s returns shape %s / %s, expected (%d, %d) / (%d,) holding the generator's points"
                              % (n, D, method, seed, tname, got.shape, one.shape, n, D, D), {"kind": "probe"})
    part.nstates(2)


def reference_worker(part, dims):
    from chmpy.sampling import quasirandom_sobol_batch

    P = quasirandom_sobol_batch(1, 4096, 13)
    for d in dims:
        for i in range(4096):
            want = rs.point(i, d) / 2.0 ** 32
            if P[i, d - 1] != want:
                part.fail("sobol-reference:dim=%d" % d, "Sobol dimension %d, seed %d: %r, direct evaluation from the Joe-Kuo direction numbers gives %r" % (d, i + 1, P[i, d - 1], want),
                          {"kind": "ref", "d": d})
                break
        part.ev(4096)
        part.trace(4096)
        part.outcome(("ref", d))


def run(ctx):
    from mc.core import chunked

    ctx.pmap(strat_worker, [(lo, min(lo + 63, 1000)) for lo in range(1, 1001, 64)])
    ctx.log("stratification done")
    net_check(ctx)
    ctx.pmap(reference_worker, [[d] for d in range(1, 14)])
    frontend_history(ctx, 3 if ctx.thorough else 2)
    kgf_seed_zero(ctx)
    ctx.hostile(keyword_calls)
    ctx.hostile(frontend_probe, all_hash_seeds=True)
    ctx.log("reference done")
    ws = windows(ctx.thorough)
    sob_dims = [1, 2, 3, 10, 100, 1000]
    budget = 1.0 if ctx.thorough else 0.05
    nchunk = 128
    ctx.pmap(window_worker, [ws[i::nchunk] for i in range(nchunk)], method="sobol", dims=sob_dims, budget=budget)
    ctx.log("sobol windows done")
    kdims = list(range(1, 65)) if ctx.thorough else [1, 2, 3, 4, 5, 7, 8, 9, 16, 31, 32, 33, 63, 64]
    ctx.pmap(window_worker, [ws[i::nchunk] for i in range(nchunk)], method="kgf", dims=kdims, budget=budget)
    ctx.pmap(kgf_sweep_worker, sorted(range(1, 65), reverse=True))
    ctx.log("korobov sweep done")
    ctx.rule = ("Sobol stratification: dims 1..1000 x m = 0..12 (complete); (0,m,2)-net: all 91 (m, box shape) pairs; direct reference for dims 1..13 x 4096 "
                "seeds; batch = single = prefix rows on %d seed windows (all s in 1..64 x k in 0..64, s within +-2 of 2^1..2^20 and at 10^6 with k in "
                "{0,1,2,256}) x dims %s (Sobol) / %d Korobov dimensions; front end incl. all call histories of length <= %d over 8 colliding front-end calls (hidden state); repeat calls; states = windows and (dimension, m) pairs"
                % (len(ws), sob_dims, len(kdims), 3 if ctx.thorough else 2))
    ctx.bounds = {"korobov_complete": "every seed 0..1000256 x every dimension 1..64 (2.1e9 coordinates): batch = front end bit for bit, range, definition, singles at the extremes", "windows": len(ws), "sobol_dims": sob_dims, "korobov_dims": kdims, "stratification": "dims 1..1000, m<=12"}
    ctx.assumptions = ["Sobol comparisons are bit-exact; Korobov to 1e-9", "work budget: windows with (last seed x dimension) above %.1e are skipped for Sobol, above %.1e x window length only the window end points are compared with the single-point generator" % (3e8 * budget, 2e8 * budget),
                       "the compiled extension modules are exercised as built (Cython is not available offline)"]
    ctx.sample({"windows": ws[:3] + ws[-3:]})


def replay(ctx, case):
    if case.get("kind") == "kgf-sweep":
        return kgf_sweep_worker(ctx, case["D"])
    k = case["kind"]
    if k == "strat":
        strat_worker(ctx, tuple(case["dims"]))
    elif k == "net":
        net_check(ctx)
    elif k == "ref":
        reference_worker(ctx, [case["d"]])
    elif k == "probe":
        frontend_probe(ctx)
    elif k == "kwcall":
        keyword_calls(ctx)
    elif k == "kgf0":
        kgf_seed_zero(ctx)
    elif k == "history":
        frontend_history(ctx, 3)
    else:
        window_worker(ctx, [(case["s"], case["k"])], case["method"], [case["D"]])

"""
C18 - rigid alignment returns the optimal proper rotation.

Point sets from the integer lattice {-1,0,1}^3: ALL 2,925 triples and ALL 17,550 quadruples (every
collinear, planar and centrosymmetric degeneracy) plus n = 5..50 prefixes of two enumerations of a 4^3
lattice; relating transformation: 24 proper octahedral rotations + 3 generic + identity, x reflection,
x noise pattern.  Oracle: Horn's quaternion optimum (mc.ref.horn).
"""
import itertools

import numpy as np

from mc.ref import horn
from mc.ref.mol import rot

PROPERTY = "C18"
LEVEL = "exploration"

TOL = 1e-8


def octahedral():
    out = []
    for perm in itertools.permutations(range(3)):
        for signs in itertools.product((1, -1), repeat=3):
            M = np.zeros((3, 3))
            for i, p in enumerate(perm):
                M[i, p] = signs[i]
            if not (abs(np.linalg.det(M) - 1) >= 1e-9):
                out.append(M)
    return out


def transforms(seed):
    g = [rot((1, 2, 3), 0.7 + 0.13 * seed), rot((-2, 1, 0.5), 2.1 + 0.07 * seed), rot((0.3, -1, 2), 4.4 + 0.05 * seed)]
    tiny = [rot((1, 2, 3), 2e-6), rot((0, 0, 1), 3e-5), rot((1, -1, 0), 1e-3)]
    return [("identity", np.eye(3))] + [("oct%d" % i, M) for i, M in enumerate(octahedral())] + [("generic%d" % i, M) for i, M in enumerate(g)] \
        + [("tiny%d" % i, M) for i, M in enumerate(tiny)]


def noise(n, pattern):
    if pattern == "none":
        return np.zeros((n, 3))
    if pattern == "tiny":
        k = np.arange(n)[:, None] * np.array([1.0, 2.0, 3.0]) + np.array([0.3, 1.1, 2.7])
        return 1e-7 * np.sin(5.0 * k)
    if pattern == "one":
        z = np.zeros((n, 3))
        z[n // 2] = (0.1, -0.05, 0.07)
        return z
    k = np.arange(n)[:, None] * np.array([1.0, 2.0, 3.0]) + np.array([0.3, 1.1, 2.7])
    return 0.05 * np.sin(7.0 * k)


def check_one(part, A, T, tname, reflect, npat, case):
    from chmpy.util.num import kabsch_rotation_matrix, reorient_points, rmsd_points

    A = np.asarray(A, dtype=float)
    B = A @ T.T
    if reflect:
        B = B * np.array([1.0, 1.0, -1.0])
    B = B + noise(len(A), npat)
    part.ev()
    part.tr()
    key = "%s:%s:%s" % ("reflected" if reflect else "proper", npat, "n%d" % len(A) if len(A) <= 4 else "n>4")
    try:
        R = kabsch_rotation_matrix(A, B)
    except Exception as e:
        part.fail("raise:" + key, "kabsch_rotation_matrix raised %r" % e, case)
        return
    remember(part, R, case)
    R = np.asarray(R, dtype=float)
    orth = np.abs(R @ R.T - np.eye(3)).max()
    part.dev("orthogonality", orth)
    if R.shape != (3, 3) or not (orth <= 1e-10):
        part.fail("not-orthogonal:" + key, "returned matrix is not orthogonal (dev %.3g)" % orth, case)
        return
    d = np.linalg.det(R)
    if not (abs(d - 1.0) <= 1e-9):
        part.fail("improper:" + key, "returned matrix has determinant %.6f (improper rotation) for %s" % (d, tname), case)
        return
    diff = A @ R - B
    got = float(np.sqrt(np.vdot(diff, diff) / len(A)))
    ref, _ = horn.optimal_rmsd(A, B)
    part.dev("excess_rmsd", got - ref)
    TOL = 1e-8 + 1e-14 * float(np.abs(A).max()) ** 2      # rounding of the covariance grows with the square of the coordinates
    if not (got <= ref + TOL):
        part.fail("suboptimal:" + key, "RMSD after alignment %.9f exceeds the optimum over proper rotations %.9f (%s)" % (got, ref, tname), case)
    if not reflect and npat == "none" and not (got <= TOL):
        part.fail("congruent-not-superposed:" + key, "congruent sets are not superposed (rmsd %.3g)" % got, case)
    r2 = rmsd_points(A, B)
    if not (abs(r2 - got) <= 1e-10):
        part.fail("rmsd_points:" + key, "rmsd_points = %.12f, RMSD after the optimal alignment = %.12f" % (r2, got), case)
    Ar = reorient_points(A, B)
    if not (np.abs(Ar - A @ R).max() <= 1e-10):
        part.fail("reorient_points:" + key, "reorient_points differs from A @ R", case)
    # the same two point sets handed over as views into ONE buffer (columns of a table, interleaved rows, a window of a longer
    # array), and as float32 / Fortran-ordered copies: the answer is a function of the coordinates, not of where they live
    n = len(A)
    table = np.empty((n, 6))
    table[:, :3], table[:, 3:] = A, B
    inter = np.empty((2 * n, 3))
    inter[0::2], inter[1::2] = A, B
    chain = np.vstack([A, B])
    for lname, Av, Bv in (("table-columns", table[:, :3], table[:, 3:]), ("interleaved-rows", inter[0::2], inter[1::2]), ("windows-of-one-array", chain[:n], chain[n:]),
                          ("fortran-order", np.asfortranarray(A), np.asfortranarray(B)),
                          ("float32", A.astype(np.float32), B.astype(np.float32)), ("float32-and-float64", A.astype(np.float32), B)):
        part.tr()
        try:
            Rv = np.asarray(kabsch_rotation_matrix(Av, Bv), dtype=float)
            rv = float(rmsd_points(Av, Bv))
        except Exception as e:
            part.fail("layout-raise:%s" % lname, "kabsch_rotation_matrix on views (%s) raised %r" % (lname, e), case)
            continue
        # (the rotation itself may legitimately differ where the optimum is not unique - collinear or planar-reflected sets - so the
        # comparison is on what the statement fixes: a proper rotation reaching the optimal deviation, and the reported RMSD)
        okv = Rv.shape == (3, 3) and np.abs(Rv @ Rv.T - np.eye(3)).max() < 1e-10 and abs(np.linalg.det(Rv) - 1.0) < 1e-9
        gv = float(np.sqrt(np.vdot(A @ Rv - B, A @ Rv - B) / len(A))) if okv else np.inf
        if lname.startswith("float32") and float(np.abs(A).max()) > 100.0:
            continue        # single precision cannot hold the small sets far from the origin (their covariance loses |A|^2 x 6e-8)
        if lname.startswith("float32"):
            # single-precision input: the answer is a proper rotation reaching the optimum to single-precision accuracy - for every
            # relation, reflections and noise included (pairwise: the dtype TOGETHER WITH a mirror image)
            sc = max(1.0, float(np.abs(A).max()))
            ok32 = Rv.shape == (3, 3) and np.abs(Rv @ Rv.T - np.eye(3)).max() < 1e-4 and abs(np.linalg.det(Rv) - 1.0) < 1e-4
            g32 = float(np.sqrt(np.vdot(A @ Rv - B, A @ Rv - B) / len(A))) if ok32 else np.inf
            if not ok32 or not (g32 <= ref + 1e-4 * sc) or not (abs(rv - r2) <= 1e-4 * sc):
                part.fail("layout-dependence:float32", "the same point sets given as float32 arrays: %s, reaches RMSD %.6f (optimum %.6f), rmsd_points %.6f vs %.6f"
                          % ("a proper rotation" if ok32 else "NOT a proper rotation (det %.3f)" % (np.linalg.det(Rv) if Rv.shape == (3, 3) else np.nan), g32, ref, rv, r2), case)
            continue
        if not okv or not (gv <= ref + TOL) or not (abs(rv - r2) <= 1e-9):
            part.fail("layout-dependence:%s" % lname, "the same point sets given as %s of one buffer: rotation reaches RMSD %.9f (optimum %.9f), rmsd_points %.9f vs %.9f"
                      % (lname, gv, ref, rv, r2), case)
    if reflect:
        imp = horn.improper_optimum(A, B)
        if not (ref <= 1e-6) and not (got >= ref - 1e-6):
            part.fail("mirror-superposed:" + key, "mirror images superposed with rmsd %.3g below the proper optimum %.3g (improper optimum %.3g)" % (got, ref, imp), case)
    part.outcome((reflect, npat, round(ref, 3) > 0, len(A) > 4))


_held = []


def remember(part, R, case):
    """results handed out earlier must not change when the routine is called again (no shared result buffers)"""
    for (R0, copy0, case0) in _held:
        if not np.array_equal(R0, copy0):
            part.fail("result-aliasing", "a rotation matrix returned earlier changed after a later call of kabsch_rotation_matrix", case0)
            _held.clear()
            break
    _held.append((R, np.array(R, copy=True), case))
    if len(_held) > 3:
        _held.pop(0)


def worker(part, chunk, seed):
    tr = transforms(seed)
    _held.clear()
    for (kind, pts, idx) in chunk:
        A = np.array(pts, dtype=float)
        part.nstates(1)
        # deviation bound on the (transformation, reflection, noise) axes: full product for every 10th set, else
        # all transformations with default (no reflection, no noise) + all (reflection, noise) with two transformations
        if idx % 10 == 0:
            combos = [(t, r, n) for t in range(len(tr)) for r in (False, True) for n in ("none", "one", "all", "tiny")]
        else:
            combos = [(t, False, "none") for t in range(len(tr))] + [(t, r, n) for t in (5, 26) for r in (False, True) for n in ("none", "one", "all")] \
                + [(0, False, "tiny"), (28, False, "tiny")]
        for t, r, n in combos:
            case = {"points": [list(map(float, p)) for p in pts], "transform": t, "reflect": r, "noise": n, "seed": seed}
            check_one(part, A, tr[t][1], tr[t][0], r, n, case)
    part.nontriv(repr(chunk[0][1]) if chunk else "")


def dimer_checks(part, seed):
    from chmpy.core.molecule import Molecule
    from chmpy.core.dimer import Dimer
    from chmpy.core.element import Element

    water = (["O", "H", "H"], np.array([[0.0, 0.0, 0.1], [0.757, 0.586, 0.0], [-0.757, 0.586, 0.0]]))
    chfcl = (["C", "H", "F", "Cl", "Br"], np.array([[0.0, 0.0, 0.0], [0.63, 0.63, 0.63], [-0.8, -0.8, 0.8], [-1.0, 1.0, -1.0], [1.1, -1.1, -1.1]]))
    # coordinates on an integer grid, stored as an integer array (a toy lattice model): centroids are not whole numbers
    grid_mol = (["C", "N", "O", "F", "Cl"], np.array([[0, 0, 0], [2, 1, 0], [-1, 2, 1], [1, -2, 2], [0, 1, -3]]))
    alive = []
    for syms, pos, shift in ((water[0], water[1], np.array([3.0, -4.0, 5.5])), (chfcl[0], chfcl[1], np.array([3.0, -4.0, 5.5])), (grid_mol[0], grid_mol[1], np.array([3.0, -4.0, 5.5])),
                             # special values: the two molecules share one centroid (two orientations on one site), away from the origin and at it
                             (water[0], water[1] + np.array([2.0, 1.0, -3.0]), np.zeros(3)), (chfcl[0], chfcl[1] + np.array([-4.0, 2.5, 1.0]), np.zeros(3)),
                             (chfcl[0], chfcl[1] - chfcl[1].mean(axis=0), np.zeros(3))):
        for tname, T in transforms(seed):
            part.ev()
            part.tr()
            els = [Element[s] for s in syms]
            a = Molecule(els, pos.copy())
            c = pos.mean(axis=0)
            posb = (pos - c) @ T.T + c + shift
            if pos.dtype.kind == "i":
                # both molecules integer-typed: the second is the first moved by a whole-number vector (identity rotation only)
                if tname != "identity":
                    continue
                posb = pos + np.array([3, -4, 5])
            b = Molecule([Element[s] for s in syms], posb)
            case = {"kind": "dimer", "mol": syms, "transform": tname, "seed": seed}
            try:
                d = Dimer(a, b, transform_ab="calculate")
                R, v = d.transform_ab
            except Exception as e:
                part.fail("dimer-raise", "Dimer(transform_ab='calculate') raised %r" % e, case)
                continue
            alive.append((d, np.array(R, copy=True), tname))
            for (d0, R0, t0) in alive:
                if not np.array_equal(np.asarray(d0.transform_ab[0]), R0):
                    part.fail("dimer-aliasing", "the transform of an earlier Dimer (%s) changed when a later Dimer was built" % t0, case)
                    alive.clear()
                    break
            # the transform must map a onto b: b = (a - ca) @ R^? + ca + v ; accept either multiplication side, but consistently
            ca = a.centroid
            m1 = np.abs((pos - ca) @ R.T + ca + v - posb).max()
            m2 = np.abs((pos - ca) @ R + ca + v - posb).max()
            part.dev("dimer_transform", min(m1, m2))
            part.outcome(("dimer", m1 < 1e-8, m2 < 1e-8))
            if not (min(m1, m2) <= 1e-8) or not (abs(np.linalg.det(R) - 1) <= 1e-9):
                part.fail("dimer-transform", "Dimer.transform_ab does not reproduce the relating rotation %s (dev %.3g / %.3g)" % (tname, m1, m2), case)
            else:
                part.count("dimer_convention_%s" % ("R.T" if m1 <= m2 else "R"))


def molecule_history_checks(part, seed):
    """
    the two molecules of a pair have a LIFE before the pair is formed: their centroid / centre of mass is read, they are rotated about the
    origin or about a point, translated, transformed - in place, through the Molecule methods.  All histories of length <= 2 over that
    alphabet, applied to both molecules; then the pair's transform relates the molecules as they ARE (positions tracked independently)
    """
    from chmpy.core.molecule import Molecule
    from chmpy.core.dimer import Dimer
    from chmpy.core.element import Element

    syms = ["C", "H", "F", "Cl", "Br"]
    pos = np.array([[0.0, 0.0, 0.0], [0.63, 0.63, 0.63], [-0.8, -0.8, 0.8], [-1.0, 1.0, -1.0], [1.1, -1.1, -1.1]]) + np.array([1.5, -0.5, 2.0])
    Q1, Q2 = rot((1, 2, 3), 0.9), rot((0, 1, 0), np.pi / 2)
    pt = np.array([0.5, -1.0, 2.0])
    tvec = np.array([-2.0, 3.5, 0.25])
    # letter -> (what is done to the Molecule, what that means for an (n,3) coordinate array)
    alphabet = {
        "centroid": (lambda m: m.centroid, lambda x: x),
        "center_of_mass": (lambda m: m.center_of_mass, lambda x: x),
        "rotate-origin": (lambda m: m.rotate(Q1), lambda x: x @ Q1),
        "rotate-about-point": (lambda m: m.rotate(Q2, origin=pt), lambda x: (x - pt) @ Q2 + pt),
        "translate": (lambda m: m.translate(tvec), lambda x: x + tvec),
        "transform": (lambda m: m.transform(rotation=Q2, translation=tvec), lambda x: x @ Q2 + tvec),
    }
    hists = [()] + [(a,) for a in alphabet] + [(a, b) for a in alphabet for b in alphabet]
    for tname, T in transforms(seed)[:3]:
        c = pos.mean(axis=0)
        posb0 = (pos - c) @ T.T + c + np.array([3.0, -4.0, 5.5])
        for ha in hists:
            for hb in (ha, ha[::-1], ("centroid",) + ha[:1]):
                part.ev()
                part.tr()
                case = {"kind": "molhist", "seed": seed}
                a = Molecule([Element[s_] for s_ in syms], pos.copy())
                b = Molecule([Element[s_] for s_ in syms], posb0.copy())
                xa, xb = pos.copy(), posb0.copy()
                try:
                    for letter in ha:
                        alphabet[letter][0](a)
                        xa = alphabet[letter][1](xa)
                    for letter in hb:
                        alphabet[letter][0](b)
                        xb = alphabet[letter][1](xb)
                    if not (np.abs(np.asarray(a.positions) - xa).max() <= 1e-12) or not (np.abs(np.asarray(b.positions) - xb).max() <= 1e-12):
                        part.fail("molecule-motion", "after %s the molecule's coordinates are not the moved coordinates (dev %.3g)"
                                  % (list(ha), float(np.abs(np.asarray(a.positions) - xa).max())), case)
                        continue
                    if not (np.abs(np.asarray(a.centroid) - xa.mean(axis=0)).max() <= 1e-12) or not (np.abs(np.asarray(b.centroid) - xb.mean(axis=0)).max() <= 1e-12):
                        part.fail("molecule-centroid-stale", "after %s / %s a molecule's centroid is not the mean of its coordinates" % (list(ha), list(hb)), case)
                        continue
                    d = Dimer(a, b, transform_ab="calculate")
                    R, v = d.transform_ab
                except Exception as e:
                    part.fail("molhist-raise", "pair formed after the histories %s / %s raised %r" % (list(ha), list(hb), e), case)
                    continue
                ca = xa.mean(axis=0)
                m1 = np.abs((xa - ca) @ np.asarray(R).T + ca + v - xb).max()
                m2 = np.abs((xa - ca) @ np.asarray(R) + ca + v - xb).max()
                part.dev("dimer_after_history", min(m1, m2))
                if not (min(m1, m2) <= 1e-8) or not (abs(np.linalg.det(R) - 1) <= 1e-9):
                    part.fail("dimer-after-history", "Dimer.transform_ab of two congruent molecules (relation %s) whose lives before were %s and %s does not map one onto the other (dev %.3g)"
                              % (tname, list(ha), list(hb), min(m1, m2)), case)
                part.outcome(("molhist", len(ha), len(hb)))
    part.nstates(len(hists))


def crystal_dimer_checks(part, seed):
    """
    Dimer.transform_ab as produced by Crystal.symmetry_unique_dimers, for several crystals analysed one after the other in one
    process (same space group and symmetry codes, different cells and molecular orientations): the stored rotation of EVERY
    dimer is proper and superposes b onto a as well as the optimum over proper rotations does
    """
    from mc import xtal
    from mc.ref import lattice
    from mc.ref.mol import rot

    tmpl = np.array([[0.0, 0.0, 0.0], [0.63, 0.63, 0.63], [-0.8, -0.8, 0.8], [-1.0, 1.0, -1.0], [1.1, -1.1, -1.1]])
    syms = ["C", "H", "F", "Cl", "Br"]
    specs = {
        "A": (14, "b1", (7.9, 8.7, 9.6, 90.0, 104.0, 90.0), rot((1, 2, 3), 0.4), (0.21, 0.13, 0.28)),
        "B": (14, "b1", (8.4, 11.3, 8.1, 90.0, 117.0, 90.0), rot((-1, 0.5, 2), 1.9), (0.27, 0.62, 0.19)),
        "C": (2, "", (6.9, 7.4, 8.8, 77.0, 98.0, 111.0), rot((0, 1, 1), 2.6 + 0.1 * seed), (0.24, 0.31, 0.22)),
        "D": (14, "b1", (7.9, 8.7, 9.6, 90.0, 104.0, 90.0), rot((2, -1, 1), 1.1), (0.21, 0.13, 0.28)),
        # degenerate groups: P1 (one operation) with TWO independent molecules of the same kind in different orientations, and the same in P-1
        "E": (1, "", (7.3, 8.1, 8.9, 81.0, 97.0, 104.0), rot((1, 2, 3), 0.4), (0.22, 0.21, 0.27), (rot((0, 1, 1), 2.1), (0.71, 0.68, 0.74))),
        "F": (2, "", (8.9, 9.4, 10.8, 77.0, 98.0, 111.0), rot((0, 1, 1), 2.6), (0.2, 0.22, 0.2), (rot((2, -1, 1), 1.1), (0.55, 0.2, 0.7))),
    }

    def build(k):
        scatter = k.endswith("*")
        n, ch, cell, Q, centre = specs[k.rstrip("*")][:5]
        M = lattice.cell_matrix(*cell)
        cart = np.array(centre) @ M + tmpl @ Q.T
        frac = cart @ np.linalg.inv(M)
        if len(specs[k.rstrip("*")]) > 5:
            Q2, centre2 = specs[k.rstrip("*")][5]
            frac2 = (np.array(centre2) @ M + tmpl @ Q2.T) @ np.linalg.inv(M)
            return xtal.make_crystal(n, ch, cell, syms + syms, np.vstack([frac, frac2]))
        c0 = xtal.make_crystal(n, ch, cell, syms, frac)
        if scatter:
            # the asymmetric unit is NOT one connected molecule: two of its atoms are listed at symmetry-equivalent sites (images under
            # the first proper and the last operation of the group), as deposited structures often do
            ops = c0.space_group.symmetry_operations
            proper = [o for o in ops if np.linalg.det(np.asarray(o.rotation, dtype=float)) > 0 and not o.is_identity()] or [o for o in ops if not o.is_identity()]
            for atom, op in ((0, proper[0]), (3, [o for o in ops if not o.is_identity()][-1])):   # the FIRST listed atom sits on an image under a proper operation
                frac[atom] = np.asarray(op.rotation, dtype=float) @ frac[atom] + np.asarray(op.translation, dtype=float)
            c0 = xtal.make_crystal(n, ch, cell, syms, frac)
        return c0

    for order in (("A", "B", "C", "D", "A"), ("D", "C", "B", "A"), ("B", "A"), ("C", "A", "D"), ("A*", "B*"), ("C*", "D*", "A"), ("E", "F"), ("F", "E", "A")):
        part.ev()
        for step, k in enumerate(order):
            case = {"kind": "crystal-dimer", "seed": seed, "order": list(order[: step + 1])}
            try:
                c = build(k)
                unique, per_mol = c.symmetry_unique_dimers(radius=5.0)
            except Exception as e:
                part.fail("crystal-dimer:raise", "symmetry_unique_dimers of crystal %s raised %r" % (k, e), case)
                continue
            alld = list(unique) + [d for lst in per_mol for (_, d) in lst]
            if len(unique) < 3:
                part.fail("harness:crystal-dimer:too-few", "crystal %s has only %d unique dimers within 5 A" % (k, len(unique)), case)
            for d in alld:
                part.tr()
                if d.transform_ab is None:
                    continue
                R = np.asarray(d.transform_ab[0], dtype=float)
                pa = np.asarray(d.a.positions) - np.asarray(d.a.centroid)
                pb = np.asarray(d.b.positions) - np.asarray(d.b.centroid)
                if not (np.abs(R @ R.T - np.eye(3)).max() <= 1e-9) or not (abs(np.linalg.det(R) - 1.0) <= 1e-9):
                    part.fail("crystal-dimer:improper", "a dimer of crystal %s (analysed after %s) stores a matrix that is not a proper rotation" % (k, list(order[:step])), case)
                    break
                got = float(np.sqrt(np.sum((pb @ R - pa) ** 2) / len(pa)))
                got_t = float(np.sqrt(np.sum((pb @ R.T - pa) ** 2) / len(pa)))
                ref, _ = horn.optimal_rmsd(pb, pa)
                part.dev("crystal_dimer_excess", min(got, got_t) - ref)
                if not (got <= ref + TOL):
                    part.fail("crystal-dimer:suboptimal", "a dimer of crystal %s (analysed after %s): the stored rotation superposes b on a with RMSD %.6f, the optimum over proper rotations is %.6f"
                              % (k, list(order[:step]), got, ref), case)
                    break
            part.outcome(("crystal-dimer", k, len(unique)))
    part.nstates(6)


def run(ctx):
    from mc.core import chunked

    lat = list(itertools.product((-1, 0, 1), repeat=3))
    sets = []
    idx = 0
    for k in (3, 4):
        for comb in itertools.combinations(lat, k):
            sets.append(("lattice%d" % k, comb, idx))
            idx += 1
    grid4 = list(itertools.product(range(4), repeat=3))
    enum1 = [tuple(np.array(p) - 1.5) for p in grid4]
    enum2 = [tuple(np.array(grid4[(i * 37) % 64]) * np.array([1.0, 0.5, 2.0]) - 1.0) for i in range(64)]
    for n in range(5, 65):
        sets.append(("prefix1", tuple(enum1[:n]), idx)); idx += 1
        sets.append(("prefix2", tuple(enum2[:n]), idx)); idx += 1
    # every point count of an interval beyond that (a blocked accumulation that mishandles some remainder has nowhere to hide
    # below the bound): prefixes of a scrambled 6^3 enumeration
    grid6 = list(itertools.product(range(6), repeat=3))
    enum3 = [tuple(np.array(grid6[(i * 91 + 17) % 216]) * np.array([1.0, 0.75, 1.5]) - 2.0) for i in range(216)]
    for n in range(65, 217 if ctx.thorough else 137):
        sets.append(("prefix3", tuple(enum3[:n]), idx)); idx += 1
    # conditioning: thin rods (thickness / length 1e-2 .. 1e-6: nearly collinear, yet the rotation about the long axis is determined) and
    # small sets far from the origin the rotation is taken about (3e2 .. 1e5: all points nearly parallel as seen from there)
    kk = np.arange(10.0)
    for th in (1e-2, 1e-3, 1e-4, 1e-5, 1e-6):
        sets.append(("rod", tuple(map(tuple, np.c_[kk - 4.5, 9 * th * np.sin(1 + 1.7 * kk), 9 * th * np.cos(2 + 2.3 * kk)])), 10 * idx)); idx += 1
    base5 = np.array([[0, 0, 0], [1, 0, 0], [0, 1, 0], [0, 0, 1], [1, 1, -1.0]])
    for off in ((300, -100, 200), (3e3, -1e3, 2e3), (1e4, 2e4, -1.5e4), (1e5, 1e5, 1e5), (0, 0, 5e4)):
        sets.append(("far", tuple(map(tuple, base5 + np.array(off, dtype=float))), 10 * idx)); idx += 1
    if not ctx.thorough:
        # quick: all triples, every 3rd quadruple, all larger sets
        sets = [s for s in sets if s[0] != "lattice4" or s[2] % 3 == 0]
    ctx.bounds = {"point_sets": len(sets), "transformations": 31, "tolerance": TOL}
    ctx.rule = ("all C(27,3)=2925 triples%s of the lattice {-1,0,1}^3 + prefixes of EVERY length n=5..64 of two 4^3 enumerations and n=65..%d of a 6^3 enumeration; x 28 relating rotations x "
                "{no reflection, reflection} x 3 noise patterns (full product for every 10th set, otherwise within one deviation of the default); "
                "Dimer.transform_ab for 2 molecules x 28 rotations; distinct = point sets"
                % (" and all C(27,4)=17550 quadruples" if ctx.thorough else " and every third of the 17550 quadruples", 216 if ctx.thorough else 136))
    ctx.assumptions = ["the routine rotates about the origin (no centring), so the optimum is taken over rotations about the origin",
                       "reference optimum by Horn's quaternion eigenvalue method, tolerance 1e-8 on the RMSD"]
    ctx.pmap(worker, chunked(sets, max(1, len(sets) // 128)), seed=ctx.seed)
    dimer_checks(ctx, ctx.seed)
    crystal_dimer_checks(ctx, ctx.seed)
    molecule_history_checks(ctx, ctx.seed)
    ctx.bounds["molecule_histories"] = "all histories of length <= 2 over {centroid, center_of_mass, rotate about the origin, rotate about a point, translate, transform} on both molecules x 3 pairings x 3 relations before the pair is formed"
    if ctx.counters.get("dimer_convention_R.T") and ctx.counters.get("dimer_convention_R"):
        pass
    ctx.sample({"a_triple": list(sets[0][1]), "a_collinear_triple": [(-1, -1, -1), (0, 0, 0), (1, 1, 1)]})


def replay(ctx, case):
    if case.get("kind") == "crystal-dimer":
        crystal_dimer_checks(ctx, case["seed"])
        return
    if case.get("kind") == "dimer":
        dimer_checks(ctx, case["seed"])
        return
    if case.get("kind") == "molhist":
        molecule_history_checks(ctx, case["seed"])
        return
    tr = transforms(case["seed"])
    t = case["transform"]
    check_one(ctx, np.array(case["points"]), tr[t][1], tr[t][0], case["reflect"], case["noise"], case)

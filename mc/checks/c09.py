"""
C09 - shape descriptors of a molecule do not depend on its pose or atom ordering.

Poses: rotation words of C08 (BFS over generator words, deduplicated) x translations; atom orders: all
permutations (<= 4 atoms) / reversal + cyclic shifts; l_max in {4, 6, 8, 12}; promolecule and
stockholder-weight surfaces (explicit exterior; crystal environments re-expressed in a rotated lattice);
property channel in {none, d_norm, esp}.  Oracle: deviation from the reference pose below a ladder of
calibrated bounds that shrinks with l_max; the radial function solves the isovalue equation (re-evaluated
through the batch path); surfaces outside the search bounds raise ValueError.
"""
from mc.paths import TEST_FILES
import itertools
import math

import numpy as np

from mc.checks.c08 import rotation_words
from mc.ref.mol import rot

PROPERTY = "C09"
LEVEL = "exploration"

MOLS = {
    "H2O": (["O", "H", "H"], [[0.0, 0.0, 0.1173], [0.0, 0.7572, -0.4692], [0.0, -0.7572, -0.4692]]),
    "CO2": (["C", "O", "O"], [[0.0, 0.0, 0.0], [0.0, 0.0, 1.16], [0.0, 0.0, -1.16]]),
    "NH3": (["N", "H", "H", "H"], [[0.0, 0.0, 0.116], [0.0, 0.939, -0.272], [0.813, -0.470, -0.272], [-0.813, -0.470, -0.272]]),
    "CH4": (["C", "H", "H", "H", "H"], [[0.0, 0.0, 0.0], [0.629, 0.629, 0.629], [-0.629, -0.629, 0.629], [-0.629, 0.629, -0.629], [0.629, -0.629, -0.629]]),
    "HCN": (["H", "C", "N"], [[0.0, 0.0, -1.6], [0.0, 0.0, -0.53], [0.0, 0.0, 0.62]]),
    # a rod (triacetylene, 8.5 A long): only used with the pose set that lays it along cell-independent special directions
    "C6H2": (["H", "C", "C", "C", "C", "C", "C", "H"], [[0.0, 0.0, z] for z in (-4.245, -3.185, -1.975, -0.605, 0.605, 1.975, 3.185, 4.245)]),
    "H2CO": (["C", "O", "H", "H"], [[0.0, 0.0, -0.53], [0.0, 0.0, 0.68], [0.0, 0.94, -1.12], [0.0, -0.94, -1.12]]),
}


def blob(n):
    """a compact molecule-sized cluster of n atoms (C, N, O, H in turn): the n lattice points of a 1.5 A fcc-like lattice nearest to a
    generic centre - roughly spherical for every n, so the surface is star-shaped about the centroid"""
    g = np.arange(-4, 5)
    pts = np.array([(i, j, k) for i in g for j in g for k in g if (i + j + k) % 2 == 0], dtype=float) * (1.5 / 2 ** 0.5)
    order = np.argsort(np.linalg.norm(pts - np.array([0.21, 0.13, 0.08]), axis=1), kind="stable")
    pts = pts[order][:n]
    return [("C", "N", "O", "H")[i % 4] for i in range(n)], [list(map(float, q)) for q in pts]


BLOB_SIZES_QUICK = (9, 17, 31, 32, 33, 40, 48, 63, 64, 65, 100)
BLOB_SIZES_THOROUGH = tuple(range(9, 131))
for _n in BLOB_SIZES_THOROUGH:
    MOLS["blob%d" % _n] = blob(_n)
LMAX = (4, 6, 8, 12)
# bounds on the pose deviation (metric below), calibrated on the unchanged tree over VERIF_SEED 0..9 and widened >= 10x
# over the worst observed; rotation: discretisation error, shrinking with l_max; translation / permutation: float32 noise
TAU_ROT_BY = {
    "smooth": {4: 8e-2, 6: 4e-2, 8: 3.5e-2, 12: 2e-2},        # promolecule surfaces (worst observed 0.016 / 0.0071 / 0.0071 / 0.0038)
    "stockholder": {4: 0.16, 6: 0.16, 8: 0.10, 12: 0.045},   # creased Hirshfeld-type surfaces (0.041 / 0.041 / 0.025 / 0.011)
    "crystal": {4: 0.25, 6: 0.20, 8: 0.12, 12: 0.12},        # (0.056 / 0.048 / 0.025 over seeds 0..9)
    "atomic": {4: 0.4, 6: 0.4, 8: 0.4, 12: 0.4},             # per-atom surfaces of an isolated molecule (0.11 at l_max 6)
}
TAU_TRANS = 5e-3   # worst observed 6.9e-4 (float32 coordinates, cube roots of near-zero invariants)
TAU_PERM = 3e-3    # worst observed 2.7e-4


# the N block alone is much steadier than the N+P vector (no cube roots): own bounds, >= 10x the worst observed over seeds 0..9
TAU_ROT_N = {
    "smooth": {4: 2e-2, 6: 4e-3, 8: 1e-3, 12: 1e-4},               # worst observed 1.7e-3 / 3.1e-4 / 6.9e-5 / 2.2e-6
    "smooth+channel": {4: 3e-2, 6: 2e-2, 8: 1.2e-2, 12: 1.1e-2},   # 3.0e-3 / 1.9e-3 / 1.2e-3 / 1.1e-3
    "stockholder": {4: 0.16, 6: 0.12, 8: 0.085, 12: 0.02},         # 2.8e-2 / 1.2e-2 / 8.2e-3 / 1.9e-3
}


def tau_rot(kind, L, channel=None):
    if kind.endswith("|N"):
        base = kind.split("|")[0]
        return TAU_ROT_N["stockholder" if base.startswith("stockholder") else "smooth+channel" if channel else "smooth"][L]
    kind = kind.split("|")[0]
    cat = "stockholder" if kind.startswith("stockholder") else "atomic" if kind == "atomic-api" else "crystal" if kind == "crystal" else "smooth"
    return TAU_ROT_BY[cat][L]


TRANSLATIONS = [(0.0, 0.0, 0.0), (5.0, -3.0, 2.0), (-40.0, 25.0, 10.0)]
FAR_TRANSLATION = (300.0, -500.0, 1000.0)
FARTHER_TRANSLATION = (-2000.0, 3000.0, 1500.0)
TAU_TRANS_FARTHER = 1.5e-2   # worst observed 1.9e-3: coordinates there are float32-exact to 2.4e-4 A only
TAU_TRANS_FAR = 5e-3   # worst observed 4e-4 (seeds 0..2)


def zs_of(symbols):
    from chmpy.core.element import Element

    return np.array([Element[s].atomic_number for s in symbols])


def metric(d, d0, L):
    """largest change of any descriptor entry relative to the largest entry (the property's own notion)"""
    d, d0 = np.asarray(d, dtype=float), np.asarray(d0, dtype=float)
    if d.shape != d0.shape:
        return np.inf
    return float(np.abs(d - d0).max() / max(np.abs(d0).max(), 1e-30))


def perms(n):
    if n <= 4:
        return [p for p in itertools.permutations(range(n)) if p != tuple(range(n))]
    base = list(range(n))
    out = [tuple(base[::-1]), tuple(base[1:] + base[:1]), tuple(base[2:] + base[:2])]
    if n > 8:
        # medium-sized molecules: an interleaving shuffle (every atom changes its block and its place in the block) and a half swap
        step = next(k for k in (7, 11, 13, 17, 19, 23) if math.gcd(k, n) == 1)
        out += [tuple((i * step + 3) % n for i in range(n)), tuple(base[n // 2:] + base[:n // 2])]
    return out


pose_R = np.eye(3)
pose_t = np.zeros(3)


def descriptor(kind, L, zs, pos, ext=None, channel=None, isovalue=None):
    from chmpy.shape import SHT, promolecule_density_descriptor, stockholder_weight_descriptor
    from chmpy.core.molecule import Molecule
    from chmpy.core.element import Element

    sht = SHT(L)
    kw = {}
    if "|" in kind:
        # "<surface>|N": the documented kinds= argument (only the N block is returned). The P block alone is not swept: its entries
        # are signed cube roots of near-zero numbers, and no pose bound calibrated on the N-dominated vector applies to it
        kind, kw["kinds"] = kind.split("|")
    if channel:
        kw["with_property"] = channel
    if kind == "promolecule":
        if isovalue is not None:
            kw["isovalue"] = isovalue
        return promolecule_density_descriptor(sht, zs, pos, **kw)
    if kind == "molecule-api":
        m = Molecule([Element.from_atomic_number(int(z)) for z in zs], np.array(pos, dtype=float))
        if isovalue is not None:
            kw["isovalue"] = isovalue
        return m.shape_descriptors(l_max=L, **kw)
    if kind == "stockholder":
        ez, ep = ext
        c = np.mean(pos, axis=0, dtype=np.float32)
        dists = np.linalg.norm(pos - c, axis=1)
        return stockholder_weight_descriptor(sht, zs, pos, ez, ep, origin=c, bounds=(max(0.05, np.min(dists) / 2), np.max(dists) + 6.0), **kw)
    if kind == "stockholder-default":
        # origin left at its default (centroid of the interior atoms); the upper search bound is kept inside the model
        # cluster (at the default 20 A every tabulated density is zero and the compiled single-point weight is 0/0)
        ez, ep = ext
        return stockholder_weight_descriptor(sht, zs, pos, ez, ep, bounds=(0.1, 9.0), **kw)
    if kind == "promolecule-origin":
        # explicit origin away from the centroid (must follow the molecule)
        if isovalue is not None:
            kw["isovalue"] = isovalue
        o = (np.mean(pos, axis=0) + np.array([0.2, -0.1, 0.15]) @ pose_R.T).astype(np.float32)
        return promolecule_density_descriptor(sht, zs, pos, origin=o, **kw)
    if kind == "promolecule-origin-zero":
        # the requested origin is EXACTLY the zero vector in the reference pose (the molecule sits off the lab origin) and moves with the pose
        if isovalue is not None:
            kw["isovalue"] = isovalue
        o = np.asarray(pose_t, dtype=np.float32).copy()
        return promolecule_density_descriptor(sht, zs, pos, origin=o, **kw)
    if kind == "atomic-api":
        m = Molecule([Element.from_atomic_number(int(z)) for z in zs], np.array(pos, dtype=float))
        return np.asarray(m.atomic_shape_descriptors(l_max=L))
    raise KeyError(kind)


def exterior_for(name, zs, pos):
    """a fixed shell of neighbours: two displaced copies of the molecule (a trimer cluster)"""
    Q1, Q2 = rot((1, 1, 0), 2.0), rot((0, 1, 2), 4.0)
    c = pos.mean(axis=0)
    e1 = (pos - c) @ Q1.T + c + np.array([3.1, 0.4, 0.3])
    e2 = (pos - c) @ Q2.T + c + np.array([-1.2, -2.9, 1.1])
    e3 = pos + np.array([0.3, 0.8, -3.3])
    e4 = pos + np.array([0.5, 3.4, 0.9])
    e5 = pos + np.array([-3.3, 0.6, -0.4])
    e6 = pos + np.array([0.2, -0.5, 3.5])
    return np.concatenate([zs] * 6), np.vstack([e1, e2, e3, e4, e5, e6])


def mol_worker(part, job):
    name, L, kind, channel, isovalue, rots, seed = job
    syms, p0 = MOLS[name]
    zs = zs_of(syms)
    p0 = np.array(p0, dtype=float)
    global pose_R, pose_t
    pose_R = np.eye(3)
    pose_t = np.zeros(3)
    if kind == "promolecule-origin-zero":
        p0 = p0 + np.array([0.35, -0.25, 0.2])      # centroid clearly away from the requested origin (0,0,0)
    ext0 = exterior_for(name, zs, p0) if kind.startswith("stockholder") else None
    case0 = {"kind": "mol", "mol": name, "L": L, "surface": kind, "channel": channel, "isovalue": isovalue, "seed": seed}
    tag = "%s:%s:L=%d" % (kind, channel or "shape", L)
    try:
        d0 = np.asarray(descriptor(kind, L, zs, p0, ext0, channel, isovalue), dtype=float)
    except Exception as e:
        part.fail("raise:%s" % tag, "%s descriptor of %s raised %s: %s" % (kind, name, type(e).__name__, str(e)[:100]), case0)
        return
    part.ev()
    part.nstates(1)
    if not np.all(np.isfinite(d0)):
        part.fail("nonfinite:%s" % tag, "non-finite descriptor for %s" % name, case0)
        return

    def run_pose(label, zs_, pos_, ext_, tau, what):
        part.ev()
        part.tr()
        try:
            d = np.asarray(descriptor(kind, L, zs_, pos_, ext_, channel, isovalue), dtype=float)
        except Exception as e:
            part.fail("raise:%s:%s" % (label, tag), "%s descriptor of %s raised %s after %s" % (kind, name, type(e).__name__, what), dict(case0, pose=what))
            return
        if kind == "atomic-api" and label == "permutation":
            # per-atom descriptors follow the atoms
            d = d[np.argsort(np.array(pose_perm))] if d.ndim == 2 else d
        m = metric(d.ravel() if d.ndim == 1 else d[0], d0.ravel() if d0.ndim == 1 else d0[0], L) if d.ndim == 1 else max(
            metric(d[i], d0[i], L) for i in range(len(d0))) if d.shape == d0.shape else np.inf
        part.dev("%s:%s" % (label, tag), m)
        if not m <= tau:
            part.fail("%s-dependence:%s" % (label, tag), "%s descriptor of %s (l_max=%d, channel %s) changes by %.3g under %s (bound %.3g)"
                      % (kind, name, L, channel, m, what, tau), dict(case0, pose=what))
        part.outcome((label, kind, channel, L))

    # translations
    for t in TRANSLATIONS[1:]:
        t = np.array(t)
        pose_t = t
        run_pose("translation", zs, p0 + t, (ext0[0], ext0[1] + t) if ext0 else None, TAU_TRANS, "translation by %s" % (tuple(t),))
    # ... and a molecule far from the coordinate origin (a molecule cut out of a big simulation box): float32 coordinates there are
    # exact to 6e-5 A, so the bound is looser, but a difference formed as |p|^2 - 2 p.a + |a|^2 in single precision is off by 1e-1 A
    for label, tt, tau in (("far-translation", FAR_TRANSLATION, TAU_TRANS_FAR), ("farther-translation", FARTHER_TRANSLATION, TAU_TRANS_FARTHER)):
        t = np.array(tt)
        pose_t = t
        run_pose(label, zs, p0 + t, (ext0[0], ext0[1] + t) if ext0 else None, tau, "translation by %s" % (tuple(float(x) for x in t),))
    # permutations
    pose_t = np.zeros(3)
    for pm in perms(len(zs)):
        pose_perm = pm
        pm = list(pm)
        run_pose("permutation", zs[pm], p0[pm], ext0, TAU_PERM, "atom order %s" % (pm,))
    if ext0 is not None:
        pose_perm = tuple(range(len(zs)))
        e_idx = list(range(len(ext0[0])))[::-1]
        run_pose("permutation", zs, p0, (ext0[0][e_idx], ext0[1][e_idx]), TAU_PERM, "reversed order of the exterior atoms")
    # rotations (about the origin) combined with translations
    for ri, (w, R) in enumerate(rots):
        t = np.array(TRANSLATIONS[ri % 3])
        pose_perm = tuple(range(len(zs)))
        pose_R = R
        pose_t = t
        run_pose("rotation", zs, p0 @ R.T + t, (ext0[0], ext0[1] @ R.T + t) if ext0 else None, tau_rot(kind, L, channel),
                 "rotation %s + translation %s" % ("*".join(w), tuple(t)))
    part.nontriv((name, L, kind, channel, isovalue))


def radial_worker(part, job):
    """radii returned by the root finder solve the isovalue equation along every grid direction (batch path re-evaluation)"""
    from chmpy.shape import SHT
    from chmpy.interpolate.density import PromoleculeDensity, StockholderWeight
    from chmpy.interpolate._density import sphere_promolecule_radii, sphere_stockholder_radii

    name, L = job
    syms, p0 = MOLS[name]
    zs = zs_of(syms)
    p0 = np.array(p0, dtype=float) + np.array([0.7, -0.3, 0.2])
    sht = SHT(L)
    x, y, z = sht.grid_cartesian
    g = np.ascontiguousarray(np.c_[x.ravel(), y.ravel(), z.ravel()], dtype=np.float32)
    o = np.mean(p0, axis=0, dtype=np.float32)
    for iso in (2e-4, 2e-3):
        part.ev()
        part.tr()
        pro = PromoleculeDensity((zs, p0))
        r = sphere_promolecule_radii(pro.dens, o, g, 0.4, 20.0, 1e-12, 30, iso)
        case = {"kind": "radial", "mol": name, "L": L}
        if (r < 0).any():
            part.fail("radial-promolecule-missing", "promolecule surface not found in (0.4, 20) for %s" % name, case)
            continue
        pts = o[None, :].astype(np.float64) + r[:, None] * g.astype(np.float64)
        f = np.asarray(pro.rho(pts), dtype=np.float64)
        dev = np.abs(f - iso).max() / iso
        part.dev("radial_promolecule_rel", dev)
        if not (dev <= 1e-3):
            part.fail("radial-promolecule", "radial function of %s does not solve rho = %g (rel. dev %.3g)" % (name, iso, dev), case)
    ez, ep = exterior_for(name, zs, p0)
    s = StockholderWeight.from_arrays(zs, p0, ez, ep)
    r = sphere_stockholder_radii(s.s, o, g, 0.05, 9.0, 1e-7, 30, 0.5)
    part.ev()
    part.tr()
    case = {"kind": "radial", "mol": name, "L": L}
    if (r < 0).any():
        part.skip("stockholder surface not enclosed by the model exterior in all directions")
    else:
        pts = o[None, :].astype(np.float64) + r[:, None] * g.astype(np.float64)
        w = np.asarray(s.weights(pts), dtype=np.float64)
        dev = np.abs(w - 0.5).max()
        part.dev("radial_weight_abs", dev)
        if not (dev <= 1e-4 * 5):
            part.fail("radial-stockholder", "radial function of %s does not solve w = 0.5 (dev %.3g)" % (name, dev), case)
    # error reporting: bounds that exclude the surface
    from chmpy.shape import promolecule_density_descriptor, stockholder_weight_descriptor


    # bounds that exclude the surface only in SOME directions (between the smallest and the largest radius)
    pro = PromoleculeDensity((zs, p0))
    rp = sphere_promolecule_radii(pro.dens, o, g, 0.4, 20.0, 1e-12, 30, 2e-4)
    rs = sphere_stockholder_radii(s.s, o, g, 0.05, 9.0, 1e-7, 30, 0.5)
    partial = []
    if not (rp.min() <= 0) and not (rp.max() - rp.min() <= 0.05):
        mid = 0.5 * (rp.min() + rp.max())
        partial += [("promolecule", "upper-partly-inside", (0.4, mid)), ("promolecule", "lower-partly-outside", (mid, 20.0))]
    if not (rs.min() <= 0) and not (rs.max() - rs.min() <= 0.05):
        mid = 0.5 * (rs.min() + rs.max())
        partial += [("stockholder", "upper-partly-inside", (0.05, mid)), ("stockholder", "lower-partly-outside", (mid, 9.0))]
    for kind, bname, bounds in partial:
        part.ev()
        try:
            if kind == "promolecule":
                promolecule_density_descriptor(sht, zs, p0, bounds=bounds)
            else:
                stockholder_weight_descriptor(sht, zs, p0, ez, ep, bounds=bounds)
            part.fail("missing-surface-described:%s:partial" % kind, "%s descriptor of %s with bounds %s (surface outside the bounds in some directions) returned a descriptor instead of raising"
                      % (kind, name, tuple(round(float(b), 3) for b in bounds)), {"kind": "radial", "mol": name, "L": L})
        except ValueError:
            part.outcome(("error", kind, bname))
        except Exception as e:
            part.fail("missing-surface-other-error:%s" % kind, "%s descriptor with bounds %s raised %s instead of ValueError" % (kind, bounds, type(e).__name__),
                      {"kind": "radial", "mol": name, "L": L})
    for channel in (None, "d_norm", "esp"):
        for bname, bounds in (("upper-inside", (0.01, 0.3)), ("lower-outside", (7.0, 9.0))):
            part.ev()
            kw = {"with_property": channel} if channel else {}
            for kind in ("promolecule", "stockholder"):
                try:
                    if kind == "promolecule":
                        d = promolecule_density_descriptor(sht, zs, p0, bounds=bounds, **kw)
                    else:
                        d = stockholder_weight_descriptor(sht, zs, p0, ez, ep, bounds=bounds, **kw)
                    part.fail("missing-surface-described:%s" % kind, "%s descriptor of %s with bounds %s (surface not inside) returned a descriptor instead of raising" % (kind, name, bounds),
                              {"kind": "radial", "mol": name, "L": L})
                except ValueError:
                    part.outcome(("error", kind, bname))
                except Exception as e:
                    part.fail("missing-surface-other-error:%s" % kind, "%s descriptor with bounds %s raised %s instead of ValueError" % (kind, bounds, type(e).__name__),
                              {"kind": "radial", "mol": name, "L": L})
    # the per-atom descriptors of an isolated molecule: with a background too small to close the surfaces of SOME atoms (the hydrogens of
    # water at 1e-8) the request is refused as a whole - no row of placeholders for the atoms that could not be described
    if name in ("H2O", "NH3", "H2CO"):
        from chmpy.core.molecule import Molecule
        from chmpy.core.element import Element

        for bg in (1e-8, 0.0):
            for order in (list(range(len(zs))), list(range(len(zs)))[::-1]):
                part.ev()
                m = Molecule([Element.from_atomic_number(int(z)) for z in zs[order]], np.array(p0[order], dtype=float))
                try:
                    d = np.asarray(m.atomic_shape_descriptors(l_max=4, background=bg), dtype=float)
                    part.fail("missing-surface-described:atomic", "atomic descriptors of %s with background %g (some atoms have no surface inside the search bounds) returned an array%s instead of raising"
                              % (name, bg, " holding non-finite rows" if not np.all(np.isfinite(d)) else ""), {"kind": "radial", "mol": name, "L": L})
                except ValueError:
                    part.outcome(("error", "atomic", bg))
                except Exception as e:
                    part.fail("missing-surface-other-error:atomic", "atomic descriptors with background %g raised %s instead of ValueError" % (bg, type(e).__name__), {"kind": "radial", "mol": name, "L": L})
    # degenerate sizes of the same clause: a molecule that IS one atom (Ar, He), and a diatomic asked with a neighbour radius shorter than
    # its bond (every atom isolated) - with a background too small for the lone atom's surface to lie inside the search bounds the
    # request is refused; with the default background the lone atom's surface exists and is a sphere (only l = 0 is populated)
    if name == "H2O":
        from chmpy.core.molecule import Molecule
        from chmpy.core.element import Element

        lone = [("Ar", [18], [[0.0, 0.0, 0.0]], {}), ("He", [2], [[0.3, -0.2, 0.1]], {}), ("N2 with radius 0.5", [7, 7], [[0.0, 0.0, 0.0], [0.0, 0.0, 1.1]], {"radius": 0.5})]
        for lname, lz, lpos, kw in lone:
            m = Molecule([Element.from_atomic_number(z) for z in lz], np.array(lpos, dtype=float))
            for bg in (1e-10, 0.0):
                part.ev()
                try:
                    d = np.asarray(m.atomic_shape_descriptors(l_max=4, background=bg, **kw), dtype=float)
                    part.fail("missing-surface-described:lone-atom", "atomic descriptors of %s with background %g (the lone atom's surface lies outside the search bounds) returned an array instead of raising"
                              % (lname, bg), {"kind": "radial", "mol": name, "L": L})
                except ValueError:
                    part.outcome(("error", "lone-atom", bg))
                except Exception as e:
                    part.fail("missing-surface-other-error:lone-atom", "atomic descriptors of %s with background %g raised %s instead of ValueError" % (lname, bg, type(e).__name__), {"kind": "radial", "mol": name, "L": L})
            part.ev()
            try:
                d = np.atleast_2d(np.asarray(m.atomic_shape_descriptors(l_max=4, **kw), dtype=float))
                d2 = np.atleast_2d(np.asarray(Molecule([Element.from_atomic_number(z) for z in lz], np.array(lpos, dtype=float) @ rot((1, 2, 3), 0.7).T + np.array([2.0, -1.0, 0.5])).atomic_shape_descriptors(l_max=4, **kw), dtype=float))
                if d.shape[0] != len(lz) or not np.all(np.isfinite(d)) or not (np.abs(d[:, 1:5]).max() <= 1e-3 * np.abs(d[:, 0]).max()) or not (np.abs(d - d2).max() <= 1e-3 * np.abs(d).max()):
                    part.fail("lone-atom-descriptor", "atomic descriptors of %s (default background): not one finite row per atom describing a sphere, or not the same in another pose" % lname,
                              {"kind": "radial", "mol": name, "L": L})
            except Exception as e:
                part.fail("lone-atom-raise", "atomic descriptors of %s with the default background raised %s: %s" % (lname, type(e).__name__, str(e)[:80]), {"kind": "radial", "mol": name, "L": L})
    part.nstates(1)


def crystal_worker(part, job):
    """crystal environments: the same structure in a rigidly rotated lattice"""
    from chmpy.crystal import Crystal, UnitCell

    fname, L, api, ri, seed = job
    c0 = Crystal.load(TEST_FILES + fname)
    Q = [rot((1, 2, 3), 0.7 + 0.13 * seed), rot((0, 0, 1), math.pi / 2), rot((-2, 1, 0.5), 2.1)][ri]
    c1 = Crystal(UnitCell(np.asarray(c0.unit_cell.direct) @ Q.T), c0.space_group, c0.asymmetric_unit)
    c0 = Crystal(UnitCell(np.asarray(c0.unit_cell.direct).copy()), c0.space_group, c0.asymmetric_unit)
    case = {"kind": "crystal", "file": fname, "L": L, "api": api, "rot": ri, "seed": seed}
    tag = "crystal:%s:L=%d" % (api, L)
    part.ev()
    part.tr()
    # after an error: the rotated crystal is first asked for descriptors it refuses (an unknown surface property, a radius nothing fits in,
    # a negative degree); each request raises, and the descriptors asked for afterwards from the same object are compared as usual
    for refused in (lambda: c1.molecular_shape_descriptors(l_max=L, with_property="no_such_property"), lambda: c1.molecular_shape_descriptors(l_max=L, radius=0.3),
                    lambda: c1.atomic_shape_descriptors(l_max=-2), lambda: c1.atom_group_shape_descriptors([0, 10 ** 6], l_max=L)):
        try:
            refused()
            part.count("refused_call_answered")
        except Exception:
            pass
    try:
        if api == "molecular":
            d0, d1 = c0.molecular_shape_descriptors(l_max=L), c1.molecular_shape_descriptors(l_max=L)
        elif api == "molecular-dnorm":
            d0, d1 = c0.molecular_shape_descriptors(l_max=L, with_property="d_norm"), c1.molecular_shape_descriptors(l_max=L, with_property="d_norm")
        elif api == "atomic":
            d0, d1 = c0.atomic_shape_descriptors(l_max=L), c1.atomic_shape_descriptors(l_max=L)
        else:
            d0, d1 = c0.atom_group_shape_descriptors([0, 1], l_max=L), c1.atom_group_shape_descriptors([0, 1], l_max=L)
            d0, d1 = np.atleast_2d(d0), np.atleast_2d(d1)
    except Exception as e:
        part.fail("raise:%s" % tag, "Crystal.%s descriptors of %s raised %s: %s" % (api, fname, type(e).__name__, str(e)[:100]), case)
        return
    d0, d1 = np.asarray(d0, dtype=float), np.asarray(d1, dtype=float)
    if d0.shape != d1.shape or d0.ndim != 2:
        part.fail("shape:%s" % tag, "descriptor array shapes %s vs %s" % (d0.shape, d1.shape), case)
        return
    m = max(metric(d1[i], d0[i], L) for i in range(len(d0)))
    part.dev("rotation:%s" % tag, m)
    if not m <= tau_rot("crystal", L):
        part.fail("rotation-dependence:%s" % tag, "Crystal %s descriptors of %s (l_max=%d) change by %.3g when the lattice is rigidly rotated (bound %.3g)" % (api, fname, L, m, tau_rot("crystal", L)), case)
    part.outcome(("crystal", api, L))
    part.nstates(1)


SHIFTS = [(0.37, 0.21, 0.55), (0.5, 0.5, 0.5), (-0.13, 0.77, 0.02), (0.91, 0.08, 0.66), (0.25, 0.6, 0.95), (0.7, 0.35, 0.15)] \
    + [s_ for s_ in itertools.product((0.0, 0.25, 0.5, 0.75), repeat=3) if any(s_)]     # a complete grid of origin shifts (used for the small oblique cell)


def crystal_shift_worker(part, job):
    """the whole crystal translated: the P1 description of a structure with every site shifted by the same vector describes the
    same crystal at another origin, so the descriptors of its molecules (matched one to one, any order) are unchanged"""
    from chmpy.crystal import Crystal, AsymmetricUnit

    fname, L, api, si = job
    if fname == "oblique-P1":
        # one formamide-like molecule in a small, strongly oblique triclinic cell (neighbours in many cells, search extents differ
        # most from the cell lengths here)
        from mc import xtal
        from mc.ref import lattice

        cell = (5.2, 5.6, 6.1, 68.0, 64.0, 61.0)
        cart = np.array([[0.0, 0.0, 0.0], [1.21, 0.1, 0.05], [-0.78, 1.09, -0.04], [-0.52, -0.96, 0.02], [-0.36, 2.0, -0.08], [-1.78, 1.04, -0.07]])
        p0 = xtal.make_crystal(1, "", cell, ["C", "O", "N", "H", "H", "H"], cart @ np.linalg.inv(lattice.cell_matrix(*cell)))
    else:
        p0 = Crystal.load(TEST_FILES + fname).as_P1()
    au = p0.asymmetric_unit
    shifted = AsymmetricUnit(list(au.elements), np.asarray(au.positions) + np.array(SHIFTS[si]), labels=list(au.labels))
    p1 = Crystal(p0.unit_cell, p0.space_group, shifted)
    case = {"kind": "crystal-shift", "file": fname, "L": L, "api": api, "shift": si}
    tag = "crystal-shift:%s:L=%d" % (api, L)
    part.ev()
    part.tr()
    try:
        kw = {"with_property": "d_norm"} if api == "molecular-dnorm" else {}
        d0 = np.asarray(p0.molecular_shape_descriptors(l_max=L, **kw), dtype=float)
        d1 = np.asarray(p1.molecular_shape_descriptors(l_max=L, **kw), dtype=float)
    except Exception as e:
        part.fail("raise:%s" % tag, "Crystal.%s descriptors of %s (P1, shifted origin) raised %s: %s" % (api, fname, type(e).__name__, str(e)[:100]), case)
        return
    if d0.shape != d1.shape or d0.ndim != 2:
        part.fail("shape:%s" % tag, "descriptor array shapes %s vs %s" % (d0.shape, d1.shape), case)
        return
    worst = 0.0
    for i in range(len(d0)):
        worst = max(worst, min(metric(d1[j], d0[i], L) for j in range(len(d1))))
    part.dev("translation:%s" % tag, worst)
    if not worst <= 1e-4:   # worst observed on the unchanged tree 4.7e-7 (pure translation: float32 noise only)
        part.fail("translation-dependence:%s" % tag, "Crystal %s descriptors of %s (l_max=%d) change by %.3g when the whole crystal is translated by %s (bound 1e-4; no molecule of the shifted crystal matches)"
                  % (api, fname, L, worst, SHIFTS[si]), case)
    part.outcome(("crystal-shift", api, L))
    part.nstates(1)


def shared_sht_worker(part, job):
    """
    ONE long-lived SHT object handed to every descriptor call (what a program computing descriptors for many molecules does), with the
    object's other public methods used in between (reading the fitted radial function off-grid, synthesising it, its power spectrum):
    every descriptor equals the one a fresh SHT gives for the same molecule, whatever the object was used for before
    """
    from chmpy.shape import SHT, promolecule_density_descriptor, stockholder_weight_descriptor

    name, L = job
    syms, p0 = MOLS[name]
    zs = zs_of(syms)
    p0 = np.array(p0, dtype=float)
    ez, ep = exterior_for(name, zs, p0)
    Q = rot((1, 2, 3), 0.7)
    poses = {"reference": (zs, p0), "translated": (zs[::-1].copy(), p0[::-1] + np.array([5.0, -3.0, 2.0])), "rotated": (zs, p0 @ Q.T)}

    def promol(sht, k, **kw):
        return promolecule_density_descriptor(sht, poses[k][0], poses[k][1], **kw)

    def stock(sht, k, **kw):
        return stockholder_weight_descriptor(sht, zs, p0, ez, ep, bounds=(0.1, 9.0), **kw)

    calls = {"promolecule": promol, "stockholder": stock, "promolecule+d_norm": lambda sht, k: promol(sht, k, with_property="d_norm")}
    fresh = {}
    for cn, fn in calls.items():
        for k in poses:
            fresh[(cn, k)] = np.asarray(fn(SHT(L), k), dtype=float)
    coeffs, inv0 = promolecule_density_descriptor(SHT(L), zs, p0, coefficients=True)
    # the two things a call hands back together belong together: the coefficients returned next to a descriptor vector are the ones the
    # vector was computed from - without and with a property channel (then they are the complex expansion shape + i * property)
    from chmpy.shape.shape_descriptors import make_invariants

    for cname, call in (("promolecule", lambda **kw: promolecule_density_descriptor(SHT(L), zs, p0, coefficients=True, **kw)),
                        ("stockholder", lambda **kw: stockholder_weight_descriptor(SHT(L), zs, p0, ez, ep, bounds=(0.1, 9.0), coefficients=True, **kw))):
        for prop in (None, "d_norm", "esp"):
            part.ev()
            part.tr()
            try:
                c_, v_ = call(**({"with_property": prop} if prop else {}))
                ref_v = np.asarray((promolecule_density_descriptor(SHT(L), zs, p0, **({"with_property": prop} if prop else {})) if cname == "promolecule" else
                                    stockholder_weight_descriptor(SHT(L), zs, p0, ez, ep, bounds=(0.1, 9.0), **({"with_property": prop} if prop else {}))), dtype=float)
            except KeyError:
                continue        # a property this surface does not offer
            except Exception as e:
                part.fail("coefficients:raise", "%s descriptor of %s with coefficients=True and property %s raised %s: %s" % (cname, name, prop, type(e).__name__, str(e)[:80]), {"kind": "shared-sht", "mol": name, "L": L})
                continue
            c_ = np.asarray(c_)
            full = c_ if c_.size == (L + 1) ** 2 else np.asarray(SHT(L).complete_coefficients(c_))
            again = np.asarray(make_invariants(L, np.ascontiguousarray(full, dtype=np.complex128)), dtype=float)
            v_ = np.asarray(v_, dtype=float)
            if v_.shape != ref_v.shape or not (np.abs(v_ - ref_v).max() <= 1e-9 * np.abs(ref_v).max()):
                part.fail("coefficients:vector", "%s descriptor of %s (property %s): the vector returned with coefficients=True differs from the one returned without" % (cname, name, prop), {"kind": "shared-sht", "mol": name, "L": L})
            elif again.shape != v_.shape or not (np.abs(again ** 3 - v_ ** 3).max() <= 1e-6 * np.abs(v_ ** 3).max()):
                part.fail("coefficients:inconsistent", "%s descriptor of %s (property %s): the invariants of the coefficients handed back next to the vector are not the vector (max cubed dev %.3g)"
                          % (cname, name, prop, float(np.abs(again ** 3 - v_ ** 3).max() / np.abs(v_ ** 3).max()) if again.shape == v_.shape else np.inf), {"kind": "shared-sht", "mol": name, "L": L})
            part.outcome(("coefficients", cname, prop))
    between = {
        "nothing": lambda sht: None,
        "evaluate_at_points": lambda sht: [sht.evaluate_at_points(coeffs, th, ph) for th, ph in ((0.3, 0.2), (1.1, 2.9), (2.6, 5.1))],   # one colatitude per call
        "evaluate_at_points(one point)": lambda sht: sht.evaluate_at_points(coeffs, 0.77, 4.0),
        "synthesis": lambda sht: sht.synthesis(coeffs),
        "synthesis_pure_python": lambda sht: sht.synthesis_pure_python(coeffs) if L <= 6 else None,
        "power_spectrum": lambda sht: sht.power_spectrum(coeffs),
        "grid": lambda sht: sht.grid_cartesian,
    }
    case = {"kind": "shared-sht", "mol": name, "L": L}
    for first in calls:
        for bname, bfn in between.items():
            for second in calls:
                sht = SHT(L)
                part.ev()
                part.tr(3)
                try:
                    a = np.asarray(calls[first](sht, "reference"), dtype=float)
                    bfn(sht)
                    b = np.asarray(calls[second](sht, "translated"), dtype=float)
                    bfn(sht)
                    c = np.asarray(calls[second](sht, "rotated"), dtype=float)
                except Exception as e:
                    part.fail("shared-sht:raise", "descriptors of %s through one SHT object (%s, %s in between, %s) raised %s: %s" % (name, first, bname, second, type(e).__name__, str(e)[:80]), case)
                    continue
                for got, key in ((a, (first, "reference")), (b, (second, "translated")), (c, (second, "rotated"))):
                    dev = float(np.abs(got - fresh[key]).max() / max(1e-300, np.abs(fresh[key]).max())) if got.shape == fresh[key].shape else np.inf
                    part.dev("shared_sht_vs_fresh", dev)
                    if not (dev <= 1e-9):
                        part.fail("shared-sht:%s" % bname.split("(")[0], "%s descriptor of %s (%s pose, l_max=%d) through an SHT object that had served %s and then %s differs by %.3g (relative) from the one a "
                                  "fresh SHT gives" % (key[0], name, key[1], L, first, bname, dev), case)
                        break
                part.outcome(("shared-sht", first, bname, second))
    part.nstates(1)


def zero_property_worker(part, _):
    """
    special values: a surface property that is EXACTLY zero everywhere (the electrostatic potential of a homonuclear diatomic, whose
    charges are exactly zero): the descriptor with that channel attached is the descriptor of the shape alone - same length, same
    values, in every pose
    """
    from chmpy.shape import SHT, promolecule_density_descriptor, stockholder_weight_descriptor

    Q = rot((1, 2, 3), 0.7)
    for name, zs, pos in (("N2", [7, 7], [[0.0, 0.0, -0.55], [0.0, 0.0, 0.55]]), ("Cl2", [17, 17], [[0.3, 0.2, -1.0], [0.3, 0.2, 0.99]]), ("H2", [1, 1], [[0.0, 0.0, 0.0], [0.74, 0.0, 0.0]])):
        zs = np.array(zs)
        p0 = np.array(pos, dtype=float)
        ez, ep = exterior_for(name, zs, p0 * 1.0)
        for L in (4, 6):
            for pname, P in (("reference", p0), ("rotated+translated", p0 @ Q.T + np.array([2.0, -1.0, 0.5]))):
                part.ev()
                part.tr(2)
                case = {"kind": "zero-property"}
                try:
                    plain = np.asarray(promolecule_density_descriptor(SHT(L), zs, P), dtype=float)
                    withp = np.asarray(promolecule_density_descriptor(SHT(L), zs, P, with_property="esp"), dtype=float)
                except Exception as e:
                    part.fail("zero-property:raise", "promolecule descriptor of %s with the esp channel raised %s: %s" % (name, type(e).__name__, str(e)[:80]), case)
                    continue
                if withp.shape != plain.shape or not (np.abs(withp - plain).max() <= 1e-6 * np.abs(plain).max()):
                    part.fail("zero-property", "promolecule descriptor of %s (l_max=%d, %s pose) with an esp channel that is exactly zero: %d values%s, the shape-only descriptor has %d"
                              % (name, L, pname, withp.size, "" if withp.shape != plain.shape else " differing by %.3g" % float(np.abs(withp - plain).max() / np.abs(plain).max()), plain.size), case)
                part.outcome(("zero-property", name, L, pname))
    part.nstates(3)


def worker(part, job):
    if job[0] == "zero-property":
        return zero_property_worker(part, None)
    if job[0] == "shared-sht":
        return shared_sht_worker(part, job[1])
    if job[0] == "mol":
        mol_worker(part, job[1])
    elif job[0] == "radial":
        radial_worker(part, job[1])
    elif job[0] == "crystal-shift":
        crystal_shift_worker(part, job[1])
    else:
        crystal_worker(part, job[1])


def rod_rotations():
    """the rod laid along axes, face diagonals and body diagonals (default search bounds must reach its tips in every pose)"""
    def to_dir(v):
        v = np.array(v, dtype=float) / np.linalg.norm(v)
        z = np.array([0.0, 0.0, 1.0])
        ax = np.cross(z, v)
        if not (np.linalg.norm(ax) >= 1e-12):
            return np.eye(3)
        return rot(tuple(ax), math.acos(max(-1.0, min(1.0, float(z @ v)))))
    return [(("z->%s" % (v,),), to_dir(v)) for v in ((1, 0, 0), (0, 1, 0), (1, 1, 0), (1, 0, -1), (1, 1, 1), (1, -1, 1), (-1, 1, 1), (1, 1, -1), (2, 1, 3))]


def run(ctx):
    words, trans = rotation_words(2)
    ctx.tr(trans)
    rots = words + [(("seed",), rot((1 + ctx.seed, 2, 3), 0.37 + 0.23 * ctx.seed))]
    jobs = []
    rod_rots = rod_rotations()
    for L in (4, 8, 12):
        for kind, ch, iso in (("promolecule", None, 2e-4), ("molecule-api", None, None), ("promolecule", "d_norm", 2e-4), ("promolecule-origin", None, 2e-4)):
            jobs.append(("mol", ("C6H2", L, kind, ch, iso, rod_rots, ctx.seed)))
    # medium-sized molecules (a blocked / chunked sum over the atoms that mishandles some remainder has nowhere to hide below the bound):
    # compact clusters of 9 .. 130 atoms, every property channel, under translation and five reorderings (no rotations: the pose bounds
    # are calibrated on small molecules)
    for n_ in (BLOB_SIZES_THOROUGH if ctx.thorough else BLOB_SIZES_QUICK):
        for kind, ch, iso in (("promolecule", None, 2e-4), ("promolecule", "d_norm", 2e-4), ("promolecule", "esp", 2e-4), ("molecule-api", "esp", None)):
            jobs.append(("mol", ("blob%d" % n_, 4 if n_ % 2 else 6, kind, ch, iso, [], ctx.seed)))
    for name in MOLS:
        if name == "C6H2" or name.startswith("blob"):
            continue
        for L in LMAX:
            # default: promolecule shape at isovalue 2e-4; deviations one axis at a time (thorough: full product)
            combos = [("promolecule", None, 2e-4), ("promolecule", None, 2e-3), ("promolecule", "d_norm", 2e-4), ("promolecule", "esp", 2e-4),
                      ("stockholder", None, None), ("stockholder", "d_norm", None), ("stockholder", "esp", None), ("molecule-api", None, None),
                      ("stockholder-default", None, None), ("stockholder-default", "d_norm", None), ("stockholder-default", "esp", None),
                      ("promolecule-origin", None, 2e-4), ("promolecule-origin", "d_norm", 2e-4), ("promolecule-origin-zero", None, 2e-4)]
            combos += [("promolecule|N", None, 2e-4), ("molecule-api|N", None, None), ("stockholder|N", None, None),
                       ("promolecule|N", "d_norm", 2e-4)]
            if L == 6:
                combos.append(("atomic-api", None, None))
            if ctx.thorough:
                combos += [("promolecule", "d_norm", 2e-3), ("promolecule", "esp", 2e-3), ("molecule-api", "d_norm", 2e-4)]
            for kind, ch, iso in combos:
                jobs.append(("mol", (name, L, kind, ch, iso, rots if kind != "atomic-api" else rots[:4], ctx.seed)))
        jobs.append(("radial", (name, 8)))
        if name in ("H2O", "NH3", "H2CO") or ctx.thorough:
            jobs.append(("shared-sht", (name, 6 if name != "NH3" else 9)))
        jobs.append(("radial", (name, 5)))
    for fname in ("acetic_acid.cif", "iceII.cif"):
        for L in ((4, 6, 8) if not ctx.thorough else LMAX):
            for api in ("molecular", "molecular-dnorm", "atomic", "atom_group"):
                for ri in ((0,) if not ctx.thorough else (0, 1, 2)):
                    jobs.append(("crystal", (fname, L, api, ri, ctx.seed)))
    for fname in ("acetic_acid.cif", "iceII.cif", "oblique-P1"):
        for si in range(len(SHIFTS) if fname == "oblique-P1" else 6 if fname == "iceII.cif" else 2):
            for api in (("molecular", "molecular-dnorm") if si < 2 else ("molecular",)):
                jobs.append(("crystal-shift", (fname, 4 if not ctx.thorough else 6, api, si)))
    jobs.sort(key=lambda j: -(j[1][1] if j[0] != "radial" else 0))
    jobs.append(("zero-property", ("-", 0)))
    ctx.pmap(worker, jobs)
    ctx.rule = ("molecules %s x l_max %s x surfaces {promolecule (2 isovalues; default and explicit off-centre origin), stockholder with a 6-molecule exterior (explicit and default origin/bounds), Molecule API, per-atom API; kinds in {NP, N}} x channels "
                "{none, d_norm, esp} (one deviation from the default at a time%s) x poses: %d rotations (BFS words of length <= 2 over 5 generators + a seed-rotated "
                "one) combined with 3 translations, 2 pure translations, all atom orders (<= 4 atoms) / 3 orders (5 atoms), reversed exterior; radial-function "
                "residuals; error reporting for excluded surfaces; bundled crystals in a rotated lattice through 4 Crystal APIs; distinct = (molecule, l_max, surface, "
                "channel, isovalue)" % (list(MOLS), list(LMAX), "" if not ctx.thorough else "; thorough adds two-deviation combinations", len(rots)))
    ctx.bounds = {"rotations": len(rots), "tau_rotation": TAU_ROT_BY, "tau_rotation_N_only": TAU_ROT_N, "tau_translation": TAU_TRANS, "tau_permutation": TAU_PERM}
    ctx.assumptions = ["pose independence holds up to discretisation: the bounds are calibrated on the unchanged tree (>= 10x the worst observed over seeds 0..9), not derived",
                       "descriptor distance: N block relative to its maximum, P block compared after cubing (the signed cube root amplifies noise at 0)",
                       "compiled root finder exercised as built"]
    ctx.sample({"molecule": "H2CO", "pose": "rotation Rx72*Rz1rad + translation (5,-3,2)"})


def replay(ctx, case):
    k = case["kind"]
    words, _ = rotation_words(2)
    rots = words + [(("seed",), rot((1 + case.get("seed", 0), 2, 3), 0.37 + 0.23 * case.get("seed", 0)))]
    if k == "mol":
        if case["mol"] == "C6H2":
            rots = rod_rotations()
        mol_worker(ctx, (case["mol"], case["L"], case["surface"], case["channel"], case["isovalue"], rots, case.get("seed", 0)))
    elif k == "crystal-shift":
        crystal_shift_worker(ctx, (case["file"], case["L"], case["api"], case["shift"]))
    elif k == "radial":
        radial_worker(ctx, (case["mol"], case["L"]))
    elif k == "shared-sht":
        shared_sht_worker(ctx, (case["mol"], case["L"]))
    elif k == "zero-property":
        zero_property_worker(ctx, None)
    else:
        crystal_worker(ctx, (case["file"], case["L"], case["api"], case["rot"], case.get("seed", 0)))

"""
C01 - unit-cell contents are exactly the symmetry orbit of the asymmetric unit.

Primary axis: all 530 settings.  Sites: every point of a rational grid (i,j,k)/N - contains every
special position whose coordinates are multiples of 1/N and general positions; grid points are
>= 1/N apart, i.e. outside the 0.01 merge tolerance.  The exact model (mc.ref.symm) partitions the grid
into orbits (BFS over the group action) and predicts, for every asymmetric-unit site, its images,
their multiplicities and admissible generator operations.
"""
import itertools
import math

import numpy as np

from mc.core import chunked
from mc.ref import lattice, symm

PROPERTY = "C01"
LEVEL = "model_checking"

OCC = (1.0, 0.5, 0.25, 0.0)      # 0.0: a dummy atom / a disorder component refined to zero is still a site with all its images
SLABS = (((-1, -1, -1), (1, 1, 1)), ((0, 0, 0), (2, 1, 0)), ((-2, 0, 1), (-1, 0, 3)),
         # degenerate slabs: exactly one cell (the origin cell; another cell), one cell thick along two axes
         ((0, 0, 0), (0, 0, 0)), ((1, 2, -1), (1, 2, -1)), ((-3, 0, 0), (-3, 0, 2)))


def grid_points(N, mode):
    """integer triples over D=N; mode 'full' = all N^3, 'quick12' = multiples of 1/12 and 1/8 on the N=24 grid"""
    if mode == "full":
        return [p for p in itertools.product(range(N), repeat=3)]
    assert N == 24
    a = set(itertools.product(range(0, 24, 2), repeat=3))
    b = set(itertools.product(range(0, 24, 3), repeat=3))
    return sorted(a | b)


def orbits_of(ops, points, D):
    """partition `points` (closed under the group? not necessarily) into orbits; returns list of sorted lists"""
    seen = set()
    out = []
    pts = set(points)
    for p in points:
        if p in seen:
            continue
        orb = {symm.apply(op, p, D) for op in ops}
        seen |= orb
        out.append(sorted(orb))
    return out


FRAMES = {
    "rotated": np.array([[0.36, 0.48, -0.8], [-0.8, 0.6, 0.0], [0.48, 0.64, 0.6]]),          # a proper rotation with no zero-free symmetry
    "permuted": np.array([[0.0, 1.0, 0.0], [0.0, 0.0, 1.0], [1.0, 0.0, 0.0]]),                # Cartesian axes cyclically permuted
    "mirrored": np.array([[1.0, 0.0, 0.0], [0.0, 0.0, 1.0], [0.0, 1.0, 0.0]]),                # left-handed frame (axes swapped)
}


def frame_matrix(cell, frame):
    M = lattice.cell_matrix(*cell)
    return M if not frame else M @ FRAMES[frame].T


def build_crystal(number, choice, cell, sites_int, D, start_z=1, occ_cycle=True, container="float64", frame=None, no_occ=False):
    from chmpy.crystal import Crystal, SpaceGroup, UnitCell, AsymmetricUnit
    from chmpy.core.element import Element

    uc = UnitCell.from_lengths_and_angles(list(cell[:3]), list(cell[3:]), unit="degrees") if not frame else UnitCell(frame_matrix(cell, frame))
    sg = SpaceGroup(number, choice=choice)
    zs = [((start_z - 1 + i) % 103) + 1 for i in range(len(sites_int))]
    els = [Element.from_atomic_number(z) for z in zs]
    labels = ["%s%d" % (e.symbol, i + 1) for i, e in enumerate(els)]
    occ = np.array([OCC[i % len(OCC)] if occ_cycle else 1.0 for i in range(len(sites_int))])
    pos = np.array(sites_int, dtype=np.float64) / D
    if container == "int":       # e.g. fcc Cu written as [[0, 0, 0]]
        assert np.all(pos == np.rint(pos))
        pos = np.rint(pos).astype(np.int64)
    elif container == "list":
        pos = pos.tolist()
    elif container == "float32":
        pos = pos.astype(np.float32)
    if no_occ:
        # pairwise: an asymmetric unit given WITHOUT occupancies (every site fully occupied by default) together with special positions
        occ = np.ones(len(sites_int))
        return Crystal(uc, sg, AsymmetricUnit(els, pos, labels=labels)), zs, labels, occ
    asym = AsymmetricUnit(els, pos, labels=labels, occupation=occ)
    return Crystal(uc, sg, asym), zs, labels, occ


def check_crystal(part, row, ops, cell, sites_int, D, case, slab_bounds=None, start_z=1, container="float64"):
    """one execution: build the real crystal, expand it, compare with the exact orbit model"""
    number, choice = row["number"], row["choice"]
    sk = "%d:%s" % (number, choice)
    part.ev()
    try:
        c, zs, labels, occ = build_crystal(number, choice, cell, sites_int, D, start_z, container=container, frame=case.get("frame"), no_occ=bool(case.get("no_occ")))
        if case.get("variant") == "after-exports":
            # the unit-cell atoms are asked for AFTER the three file exports and a first query have run on the same object (and the
            # dictionary handed out first must itself stay intact): exports are read-only users of the same data
            first = c.unit_cell_atoms()
            snap = {k: np.array(v, copy=True) for k, v in first.items() if isinstance(v, np.ndarray)}
            for export in (c.to_poscar_string, c.to_cif_string, c.to_shelx_string, c.to_poscar_string):
                export()
            for k, v in snap.items():
                if not np.array_equal(np.asarray(first[k]), v):
                    part.fail("export-mutates:%s" % k, "exporting the crystal to POSCAR / CIF / .res changed the %r array of the unit-cell atoms handed out before (%s)" % (k, sk), case)
                    break
        if case.get("variant") == "after-refused-calls":
            # the first requests this object ever sees are ones the API refuses (a tolerance that is not a number, a slab with malformed
            # bounds, an unknown setting name): each raises, and the expansion asked for afterwards is the one a fresh object gives
            for refused in (lambda: c.unit_cell_atoms(tolerance=None), lambda: c.slab(bounds=((0, 0), (1, 1))), lambda: c.choose_trigonal_lattice("r"),
                            lambda: c.atoms_in_radius("far"), lambda: c.unit_cell_atoms(tolerance="x")):
                try:
                    refused()
                    part.count("refused_call_answered")
                except Exception:
                    pass
        uc = c.unit_cell_atoms()
    except Exception as e:
        part.fail("raise:%s" % sk, "unit_cell_atoms raised %r for %s" % (e, sk), case)
        return
    part.tr(len(sites_int) * len(ops))
    frac = np.asarray(uc["frac_pos"])
    M = frame_matrix(cell, case.get("frame"))
    nfail0 = len(part.failures)
    if frac.size and (not (frac.min() >= 0) or frac.max() >= 1):
        part.fail("range:%s" % sk, "fractional coordinate outside [0,1) in %s (min %g max %g)" % (sk, frac.min(), frac.max()), case)
    scaled = frac * D
    ints = np.rint(scaled).astype(np.int64)
    err = np.abs(scaled - ints).max() if frac.size else 0.0
    part.dev("frac_grid_error", err / D)
    if not (err <= 1e-6):
        part.fail("offgrid:%s" % sk, "image not on the expected rational position (err %g) in %s" % (err / D, sk), case)
    ints %= D
    # model
    expected = {}
    gcodes = {symm.encode(op): op for op in ops}
    for p, site in enumerate(sites_int):
        for img, oplist in symm.orbit(ops, site, D).items():
            expected[(p, img)] = len(oplist)
    part.nstates(len(expected))
    observed = {}
    asym = np.asarray(uc["asym_atom"])
    for k in range(len(frac)):
        key = (int(asym[k]), tuple(int(v) for v in ints[k]))
        observed[key] = observed.get(key, 0) + 1
    dup = [k for k, v in observed.items() if v > 1]
    missing = [k for k in expected if k not in observed]
    extra = [k for k in observed if k not in expected]
    if dup:
        part.fail("duplicate:%s" % sk, "%d image(s) listed more than once in %s, e.g. parent %d at %s/%d"
                  % (len(dup), sk, dup[0][0], dup[0][1], D), case)
    if missing:
        part.fail("missing:%s" % sk, "%d image(s) missing in %s, e.g. parent %d at %s/%d"
                  % (len(missing), sk, missing[0][0], missing[0][1], D), case)
    if extra:
        part.fail("extra:%s" % sk, "%d unexpected image(s) in %s, e.g. parent %d at %s/%d"
                  % (len(extra), sk, extra[0][0], extra[0][1], D), case)
    el = np.asarray(uc["element"])
    lab = np.asarray(uc["label"])
    sym = np.asarray(uc["symop"])
    oc = np.asarray(uc["occupation"])
    zs_a = np.asarray(zs)
    if len(asym) and not np.array_equal(el, zs_a[asym]):
        part.fail("element:%s" % sk, "element of an image differs from its parent's in %s" % sk, case)
    if len(asym) and not np.array_equal(lab, np.asarray(labels)[asym]):
        part.fail("label:%s" % sk, "label of an image differs from its parent's in %s" % sk, case)
    bad_gen = 0
    bad_occ = 0
    for k in range(len(frac)):
        p = int(asym[k])
        img = tuple(int(v) for v in ints[k])
        g = gcodes.get(int(sym[k]))
        if g is None or symm.apply(g, sites_int[p], D) != img:
            bad_gen += 1
        mult = expected.get((p, img))
        if mult is not None and not (abs(oc[k] - mult * occ[p]) <= 1e-9):
            bad_occ += 1
    if bad_gen:
        part.fail("generator:%s" % sk, "%d image(s) report a generating operation that does not map the parent onto them in %s"
                  % (bad_gen, sk), case)
    if bad_occ:
        part.fail("occupancy:%s" % sk, "%d merged site(s) whose occupancy is not multiplicity x parent occupancy in %s"
                  % (bad_occ, sk), case)
    tot = float(np.sum(oc))
    want = len(ops) * float(np.sum(occ))
    if not (abs(tot - want) <= 1e-9 * max(1.0, want)):
        part.fail("occupancy-total:%s" % sk, "total occupancy %.6f != |G| x asymmetric-unit occupancy %.6f in %s" % (tot, want, sk), case)
    cart = np.asarray(uc["cart_pos"])
    if len(frac):
        dev = np.abs(cart - frac @ M).max() / max(cell[:3])
        part.dev("cart_rel_error", dev)
        if not (dev <= 1e-9):
            part.fail("cart:%s" % sk, "cart_pos inconsistent with the cell (rel. dev %g) in %s" % (dev, sk), case)
    # outcome for vacuity accounting: multiplicity histogram
    hist = {}
    for v in expected.values():
        hist[v] = hist.get(v, 0) + 1
    part.outcome((len(ops), tuple(sorted(hist.items()))))
    if any(v > 1 for v in expected.values()):
        part.count("crystals_with_special_positions")
    part.count("images_compared", len(expected))

    if slab_bounds is not None:
        check_slab(part, c, uc, M, slab_bounds, sk, case)
    return len(part.failures) == nfail0


def check_slab(part, c, uc, M, bounds, sk, case):
    try:
        s = c.slab(bounds=bounds)
    except Exception as e:
        part.fail("slab-raise:%s" % sk, "slab(%s) raised %r" % (bounds, e), case)
        return
    part.tr()
    (h0, k0, l0), (h1, k1, l1) = bounds
    cells = list(itertools.product(range(h0, h1 + 1), range(k0, k1 + 1), range(l0, l1 + 1)))
    n_uc = len(uc["frac_pos"])
    if s["n_uc"] != n_uc or s["n_cells"] != len(cells) or len(s["frac_pos"]) != n_uc * len(cells):
        part.fail("slab-count:%s" % sk, "slab(%s): n_uc=%s n_cells=%s len=%d, expected %d x %d"
                  % (bounds, s["n_uc"], s["n_cells"], len(s["frac_pos"]), n_uc, len(cells)), case)
        return
    seen_cells = set()
    ok = True
    for i in range(len(cells)):
        sl = slice(i * n_uc, (i + 1) * n_uc)
        cell = s["cell"][sl]
        if not (np.abs(cell - cell[0]).max() <= 0):
            ok = False
            break
        cc = tuple(int(v) for v in cell[0])
        seen_cells.add(cc)
        if not (np.abs(s["frac_pos"][sl] - (uc["frac_pos"] + cell[0])).max() <= 1e-12):
            ok = False
        for k in ("asym_atom", "element", "symop", "label", "occupation"):
            if not np.array_equal(s[k][sl], uc[k]):
                ok = False
    if seen_cells != set(cells):
        ok = False
    if not (np.abs(s["cart_pos"] - s["frac_pos"] @ M).max() <= 1e-9 * max(1.0, np.abs(s["cart_pos"]).max())):
        ok = False
    if not ok:
        part.fail("slab-content:%s" % sk, "slab(%s) is not the unit-cell list repeated once per cell with the offset added in %s"
                  % (bounds, sk), case)


def generic_sites(seed, D, ops):
    """
    three generic sites (denominator 997 -> over D=12*997), rotated by the seed, chosen from a fixed candidate
    sequence so that for THIS group no two images are closer than 0.03 (fractional): the library merges sites
    closer than 0.01, and the property keeps sites away from that tolerance
    """
    from mc import xtal

    out = []
    k = 0
    while len(out) < 3 and k < 4000:
        a = (131 + 7 * seed + 211 * k) % 997
        b = (467 + 13 * seed + 389 * k) % 997
        c = (811 + 29 * seed + 97 * k) % 997
        k += 1
        cand = out + [(a * 12, b * 12, c * 12)]
        if not (xtal.image_separation(ops, np.array(cand, dtype=float) / D) <= 0.03):
            out = cand
    if len(out) < 3:
        raise RuntimeError("no generic sites found")
    return out


def plan_for_setting(row, tier, seed):
    """list of cases (JSON-able) for one setting"""
    number, choice = row["number"], row["choice"]
    ops = [symm.decode(c) for c in row["symops"]]
    cells = lattice.compatible_cells(number, choice)
    cases = []
    default = row["index_in_number"] == 0
    if tier == "quick":
        N, pts = 24, grid_points(24, "full" if default else "quick12")
    else:
        N, pts = 24, grid_points(24, "full")
        if default:
            N, pts = 48, grid_points(48, "full")
    orbs = orbits_of(ops, pts, N)
    for variant, pick in (("first", 0), ("last", -1)):
        reps = [o[pick] for o in orbs]
        if variant == "last":
            reps = [o[pick] for o in orbs if len(o) > 1]
        for bi, batch in enumerate(chunked(reps, 400)):
            # deviation-bounded secondary axes: default cell / default no slab; deviate on the first batches
            cell_i = 1 if (bi % 5 == 1) else 0
            slab_i = (bi % 7) if (bi % 7) < 6 and bi < 14 else None
            cases.append({"number": number, "choice": choice, "D": N, "sites": batch, "cell": cells[cell_i],
                          "slab": SLABS[slab_i] if slab_i is not None else None, "z0": 1 + (bi * 17) % 103,
                          "variant": variant})
    # the same orbit representatives given with negative / > 1 coordinates (shifted by lattice vectors): identical unit cell
    reps0 = [o[0] for o in orbs][:120]
    shifts = [(-1, 0, 0), (0, 2, -1), (-3, 1, 2), (4, -2, 0), (-6, -6, 5), (-7, 9, -12), (11, -8, 0)]
    shifted = [tuple(p[k] + shifts[i % len(shifts)][k] * N for k in range(3)) for i, p in enumerate(reps0)]
    cases.append({"number": number, "choice": choice, "D": N, "sites": shifted, "cell": cells[0], "slab": SLABS[4], "z0": 3, "variant": "lattice-shifted"})
    # containers / dtypes of the positions array: integer-typed (sites with integer coordinates), nested lists, float32
    cases.append({"number": number, "choice": choice, "D": N, "sites": [(N, -N, 2 * N)], "cell": cells[0], "slab": None, "z0": 29,
                  "variant": "int-array", "container": "int"})
    cases.append({"number": number, "choice": choice, "D": N, "sites": reps0[:7], "cell": cells[0], "slab": SLABS[3], "z0": 11, "variant": "list", "container": "list"})
    cases.append({"number": number, "choice": choice, "D": N, "sites": reps0[:7], "cell": cells[0], "slab": SLABS[5], "z0": 5, "variant": "after-exports"})
    special0 = [o[0] for o in orbs if len(o) < len(ops)][:20]                    # special positions first: that is where merging happens
    special0 += [p for p in reps0[:12] if p not in special0][:7]
    cases.append({"number": number, "choice": choice, "D": N, "sites": special0, "cell": cells[0], "slab": SLABS[0], "z0": 7, "variant": "after-refused-calls"})
    cases.append({"number": number, "choice": choice, "D": N, "sites": special0, "cell": cells[-1], "slab": SLABS[1], "z0": 9, "variant": "no-occupancies", "no_occ": True})
    # the same cell given by lattice VECTORS in another Cartesian frame (what the POSCAR / .gen readers produce): the fractional
    # side is unchanged, Cartesian coordinates must follow the given vectors
    for fi, frame in enumerate(("rotated", "permuted", "mirrored")):
        cases.append({"number": number, "choice": choice, "D": N, "sites": reps0[:7], "cell": cells[fi % len(cells)], "slab": SLABS[fi % len(SLABS)], "z0": 17,
                      "variant": "frame:" + frame, "frame": frame})
    # a pseudo-special cell: free lengths a hair off whole numbers, free angles a hair off 90 / 120 / 60 degrees
    cases.append({"number": number, "choice": choice, "D": N, "sites": reps0[:40], "cell": lattice.pseudo_special_cell(number, choice), "slab": SLABS[1], "z0": 8,
                  "variant": "pseudo-special-cell"})
    Dg = 12 * 997
    for ci, cell in enumerate(cells):
        cases.append({"number": number, "choice": choice, "D": Dg, "sites": generic_sites(seed + ci, Dg, ops), "cell": cell,
                      "slab": SLABS[ci], "z0": 6, "variant": "generic"})
    return cases


def run_case(part, case, rows):
    row = rows[(case["number"], case["choice"])]
    ops = [symm.decode(c) for c in row["symops"]]
    sites = [tuple(s) for s in case["sites"]]
    slab = case["slab"]
    if slab is not None:
        slab = tuple(tuple(x) for x in slab)
    ok = check_crystal(part, row, ops, tuple(case["cell"]), sites, case["D"], case, slab_bounds=slab, start_z=case["z0"], container=case.get("container", "float64"))
    if ok is False and len(sites) > 1:
        # shrink: find one failing site so that the replay file is minimal
        for s in sites:
            sub = dict(case, sites=[s])
            from mc.core import Part
            p2 = Part()
            check_crystal(p2, row, ops, tuple(case["cell"]), [s], case["D"], sub, slab_bounds=slab, start_z=case["z0"], container=case.get("container", "float64"))
            if p2.failures:
                key, what, _ = p2.failures[0]
                part.failures.append((key + ":single-site", what + " [single site %s/%d]" % (s, case["D"]), sub))
                break


CLASS_RANGES = [(1, 2), (3, 5), (6, 9), (10, 15), (16, 24), (25, 46), (47, 74), (75, 80), (81, 82), (83, 88), (89, 98), (99, 110), (111, 122), (123, 142),
                (143, 146), (147, 148), (149, 155), (156, 161), (162, 167), (168, 173), (174, 174), (175, 176), (177, 182), (183, 186), (187, 190), (191, 194),
                (195, 199), (200, 206), (207, 214), (215, 220), (221, 230)]


def cross_setting_worker(part, rows_group, seed, rows):
    """
    settings that look alike (all choices of one group, all groups of one crystal class) expanded ONE AFTER THE OTHER in one
    process, in table order and then in reverse: anything remembered from one setting must not leak into the next.  (Which
    settings share a worker process in the main sweep is decided by the pool; this pass makes the co-location deterministic.)
    """
    light = []
    for row in rows_group:
        ops = [symm.decode(c) for c in row["symops"]]
        cell = lattice.compatible_cells(row["number"], row["choice"])[0]
        N = 24
        sites = [(1, 5, 9), (7, 2, 11), (0, 0, 0), (12, 12, 12), (6, 18, 3)]
        # keep only sites whose images do not collide with another site's (exact model)
        keep, taken = [], set()
        for st in sites:
            imgs = set(symm.orbit(ops, st, N))
            if not (imgs & taken):
                keep.append(st)
                taken |= imgs
        light.append((row, ops, cell, keep))
    for pass_name, seq in (("forward", light), ("reverse", light[::-1])):
        for row, ops, cell, sites in seq:
            case = {"number": row["number"], "choice": row["choice"], "D": 24, "sites": [list(x) for x in sites], "cell": list(cell), "slab": None, "z0": 7,
                    "variant": "cross-setting:" + pass_name, "group": [[r["number"], r["choice"]] for r in rows_group]}
            check_crystal(part, row, ops, tuple(cell), sites, 24, case, slab_bounds=None, start_z=7)
    part.outcome(("cross-setting", len(rows_group)))


def worker(part, rows_chunk, tier, seed, rows):
    if rows_chunk and rows_chunk[0] == "cross-setting":
        cross_setting_worker(part, rows_chunk[1], seed, rows)
        return
    for row in rows_chunk:
        for case in plan_for_setting(row, tier, seed):
            run_case(part, case, rows)
        part.nontriv("%d:%s" % (row["number"], row["choice"]))
    if rows_chunk and rows_chunk[0]["number"] in (1, 14, 167, 227):
        r = rows_chunk[0]
        cs = plan_for_setting(r, tier, seed)
        part.sample({"setting": "%d:%s" % (r["number"], r["choice"]), "n_cases": len(cs),
                     "first_case_sites": cs[0]["sites"][:5], "D": cs[0]["D"], "cell": cs[0]["cell"]})


def conformance_apply(ctx, table):
    """SymmetryOperation.apply on (N,3) agrees with the model for every distinct table operation on a grid sample"""
    from chmpy.crystal.symmetry_operation import SymmetryOperation

    codes = sorted({c for r in table for c in r["symops"]})
    N = 24
    pts = [p for p in itertools.product(range(0, 24, 5), repeat=3)]
    arr = np.array(pts, dtype=float) / N
    for c in codes:
        op = symm.decode(c)
        s = SymmetryOperation.from_integer_code(c)
        got = s.apply(arr)
        want = np.array([symm.apply_noreduce(op, p, N) for p in pts], dtype=float) / N
        ctx.trace()
        if not (np.abs(got - want).max() <= 1e-12):
            ctx.fail("apply-conformance:%d" % c, "SymmetryOperation.apply of code %d disagrees with the exact model" % c,
                     {"code": c, "kind": "apply"})


def run(ctx):
    table = symm.load_table()
    rows = {(r["number"], r["choice"]): r for r in table}
    ctx.rule = ("530 settings x all sites of the %s rational grid (+3 generic sites/cell, seed-rotated) partitioned into exact "
                "orbits; asymmetric units = first / last member of every orbit in batches of <=400; each batch expanded by the "
                "real Crystal.unit_cell_atoms and compared image-by-image with the exact model; states = distinct "
                "(parent, image) pairs; transitions = operation applications"
                % ("1/24 (230 first-listed settings) or 1/12 + 1/8 (other 300)" if ctx.tier == "quick" else "1/48 (230 first-listed settings) or 1/24 (other 300)"))
    ctx.bounds = {"settings": len(table), "grid": "1/24 for first-listed settings, multiples of 1/12 and 1/8 for the rest" if ctx.tier == "quick" else "1/48 (110592 sites) for first-listed settings, 1/24 (13824 sites) for the rest",
                  "batch": 400, "cells_per_setting": 2, "slab_bounds": [list(map(list, s)) for s in SLABS],
                  "occupancies": list(OCC)}
    ctx.assumptions = ["sites are on a rational grid >= 1/24 apart, i.e. away from the 0.01 merge tolerance, as the property stipulates",
                       "reference orbit computed in exact integer arithmetic from sgdata.json codes decoded by mc/ref/symm.py (decoder conformance checked in C02/C01)"]
    conformance_apply(ctx, table)
    # order settings by cost (number of ops) so that chunks balance
    order = sorted(table, key=lambda r: -len(r["symops"]))
    chunks = [[r] for r in order]
    groups = [("cross-setting", [r for r in table if lo <= r["number"] <= hi]) for lo, hi in CLASS_RANGES]
    ctx.bounds["cross_setting_groups"] = "%d crystal classes: all settings of a class expanded in one process, forward and in reverse" % len(groups)
    ctx.pmap(worker, sorted(groups, key=lambda g: -sum(len(r["symops"]) for r in g[1])) + chunks, tier=ctx.tier, seed=ctx.seed, rows=rows)


def replay(ctx, case):
    table = symm.load_table()
    rows = {(r["number"], r["choice"]): r for r in table}
    if case.get("kind") == "apply":
        conformance_apply(ctx, [r for r in table if case["code"] in r["symops"]][:1])
        return
    if str(case.get("variant", "")).startswith("cross-setting"):
        cross_setting_worker(ctx, [rows[(n, ch)] for n, ch in case["group"]], 0, rows)
        return
    run_case(ctx, case, rows)

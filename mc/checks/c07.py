"""
C07 - the spherical harmonic transform is exact and invertible on band-limited functions.

The transform is linear: exactness on a basis is exactness everywhere.  Enumerated: every L in 0..64
(real) / 1..64 (complex); for L <= L_b EVERY basis vector e_(l,m) and i*e_(l,m) of both layouts; above
L_b the boundary channels and two dense vectors; pure-Python paths and point-wise evaluation on small L.
Oracle: scipy's orthonormal Condon-Shortley harmonics (mc.ref.ylm).
"""
import itertools

import numpy as np

from mc.ref import ylm

PROPERTY = "C07"
LEVEL = "exploration"


def tol(L):
    return 1e-10 * (L + 1)


def prime_factors_ok(n):
    for p in (2, 3, 5, 7):
        while n % p == 0:
            n //= p
    return n == 1


def dense(n, which):
    """fixed vectors with pairwise distinct entries; beyond 512 entries only ~256 pseudo-randomly placed entries are non-zero
    (so that the independent reference synthesis stays affordable) - a wrong channel still cannot cancel"""
    k = np.arange(n)
    if which == 0:
        v = (np.sin(1.0 + 1.7 * k) + 0.3) + 1j * np.cos(0.3 + 2.3 * k)
    else:
        v = (1.0 / (1.0 + k)) * np.cos(0.7 * k * k + 0.1) + 1j * (np.sin(1.9 * k + 0.5) * 0.25)
    if n > 512:
        h = ((k.astype(np.uint64) * np.uint64(2654435761) + np.uint64(which * 977)) % np.uint64(2 ** 32)).astype(float) / 2.0 ** 32
        keep = h < 256.0 / n
        keep[[0, 1, n - 1, n - 2, n // 2]] = True
        v = np.where(keep, v, 0.0)
    return v


def channels(L, Lb):
    if L <= Lb:
        return None  # all
    ls = sorted({0, 1, L // 2, L - 1, L})
    out = set()
    for l in ls:
        for m in {-l, -1, 0, 1, l}:
            if abs(m) <= l:
                out.add((l, m))
    return sorted(out)


def use_ref_small(L):
    return L <= 20 or L in (33, 48, 64)


def check_L(part, job):
    from chmpy.shape.sht import SHT

    L, Lb, Lpy = job
    t = tol(L)
    case = {"L": L, "Lb": Lb, "Lpy": Lpy}
    sht = SHT(L)
    part.nstates(1)
    # grid facts
    part.ev()
    if not (sht.nphi >= 2 * L + 1 and prime_factors_ok(sht.nphi)):
        part.fail("grid-nphi:L=%d" % L, "L=%d: nphi=%d is not >= 2L+1 with prime factors <= 7" % (L, sht.nphi), case)
    if not sht.ntheta >= L + 1:
        part.fail("grid-ntheta:L=%d" % L, "L=%d: ntheta=%d < L+1" % (L, sht.ntheta), case)
    theta, phi = sht.grid
    if theta.shape != (sht.ntheta, sht.nphi):
        part.fail("grid-shape:L=%d" % L, "grid shape %s" % (theta.shape,), case)
    # the Cartesian form of the grid (what a user samples a function f(x, y, z) on) is the unit vector of (theta, phi):
    # x = sin(theta) cos(phi), y = sin(theta) sin(phi), z = cos(theta), point for point
    try:
        gx, gy, gz = sht.grid_cartesian                     # three arrays of the grid's shape
        gc = np.stack([np.asarray(gx, dtype=float), np.asarray(gy, dtype=float), np.asarray(gz, dtype=float)], axis=-1)
        want_gc = np.stack([np.sin(theta) * np.cos(phi), np.sin(theta) * np.sin(phi), np.cos(theta)], axis=-1).reshape(-1, 3)
        if gc.reshape(-1, 3).shape != want_gc.shape or not (np.abs(gc.reshape(-1, 3) - want_gc).max() <= 1e-12):
            part.fail("grid-cartesian:L=%d" % L, "L=%d: grid_cartesian is not (sin theta cos phi, sin theta sin phi, cos theta) of the angular grid (max dev %.3g)"
                      % (L, float(np.abs(gc.reshape(-1, 3) - want_gc).max()) if gc.reshape(-1, 3).shape == want_gc.shape else np.inf), case)
    except Exception as e:
        part.fail("grid-cartesian-raise", "grid_cartesian raised %r at L=%d" % (e, L), case)
    # what the object hands out is the caller's to keep: converting the returned mesh in place (colatitude -> latitude in degrees,
    # stretching z for a plot) leaves the object's own grid - and everything evaluated on it - where it was
    theta, phi = np.array(theta, dtype=float), np.array(phi, dtype=float)
    try:
        part.tr()
        g_th, g_ph = sht.grid
        if isinstance(g_th, np.ndarray) and g_th.flags.writeable:
            g_th *= -57.29577951308232
            g_th += 90.0
        if isinstance(g_ph, np.ndarray) and g_ph.flags.writeable:
            g_ph -= 1.0
        for a in sht.grid_cartesian:
            if isinstance(a, np.ndarray) and a.flags.writeable:
                a *= 3.0
        th2, ph2 = sht.grid
        gx2, gy2, gz2 = sht.grid_cartesian
        dev = max(float(np.abs(np.asarray(th2) - theta).max()), float(np.abs(np.asarray(ph2) - phi).max()),
                  float(np.abs(np.asarray(gz2, dtype=float).reshape(theta.shape) - np.cos(theta)).max()),
                  float(np.abs(np.asarray(gx2, dtype=float).reshape(theta.shape) - np.sin(theta) * np.cos(phi)).max()))
        vals = np.asarray(sht.compute_on_grid(lambda th, ph: np.cos(th) + 0.5 * np.sin(th) * np.cos(ph)))
        dev = max(dev, float(np.abs(vals - (np.cos(theta) + 0.5 * np.sin(theta) * np.cos(phi))).max()))
        # functions of ONE angle only (zonal; sectorial): the samples are still one value per grid point, (ntheta, nphi)
        for fname_, fn_, want_ in (("theta only", lambda th, ph: np.cos(th) ** 2, np.cos(theta) ** 2), ("phi only", lambda th, ph: np.cos(2 * ph), np.cos(2 * phi))):
            v_ = np.asarray(sht.compute_on_grid(fn_))
            if v_.shape != theta.shape or not (np.abs(v_ - want_).max() <= 1e-12):
                part.fail("compute_on_grid-shape", "L=%d: compute_on_grid of a function of %s returns shape %s, the grid has %s points" % (L, fname_, v_.shape, theta.shape), case)
        if not (dev <= 1e-12):
            part.fail("grid-aliased", "L=%d: after the caller converted the arrays returned by grid / grid_cartesian in place, the object's grid (or a function "
                      "computed on it) has moved by %.3g: returned arrays share memory with the object's state" % (L, dev), case)
    except Exception as e:
        part.fail("grid-aliased-raise", "re-reading the grid after editing the returned arrays raised %r at L=%d" % (e, L), case)
    lmc = ylm.lm_complex(L)
    lmr = ylm.lm_real(L)
    sel = channels(L, Lb)
    th_flat, ph_flat = theta.ravel(), phi.ravel()

    class _B:  # lazily evaluated rows Y_lm on the grid
        cache = {}

        def __getitem__(self, k):
            if k not in self.cache:
                l, m = lmc[k]
                self.cache[k] = ylm.Y(l, m, th_flat, ph_flat)
                if len(self.cache) > 64:
                    self.cache.pop(next(iter(self.cache)))
            return self.cache[k]

    Bc = _B()

    def fail(kind, what, extra=None):
        part.fail("%s:L%s" % (kind, "<=%d" % Lb if L <= Lb else ">%d" % Lb), "L=%d: %s" % (L, what), dict(case, **(extra or {})))

    # ---------------- complex transform on basis vectors ----------------------------------------------
    if L >= 1:
        for k, (l, m) in enumerate(lmc):
            if sel is not None and (l, m) not in sel:
                continue
            for ph_name, phase in (("1", 1.0), ("i", 1j)):
                part.ev()
                part.tr(2)
                e = np.zeros(len(lmc), dtype=complex)
                e[k] = phase
                f = (phase * Bc[k]).reshape(theta.shape)
                c = sht.analysis(f.astype(np.complex128))
                d = np.abs(c - e).max()
                part.dev("analysis_cplx", d / (L + 1))
                if d > t:
                    fail("analysis-cplx", "analysis of %s*Y(%d,%d) deviates from the unit vector by %.3g" % (ph_name, l, m, d), {"l": l, "m": m})
                v = sht.synthesis(e)
                d = np.abs(v - f).max()
                part.dev("synthesis_cplx", d / (L + 1))
                if d > t:
                    fail("synthesis-cplx", "synthesis of %s*e(%d,%d) deviates from Y_lm on the grid by %.3g" % (ph_name, l, m, d), {"l": l, "m": m})
                part.outcome(("c", np.sign(m), m % 2))
            # magnitudes: the transform is linear, so a vector of norm 1e-10 or 1e7 is analysed with the same RELATIVE accuracy, and a
            # complex function whose imaginary part is 1e-9 of its real part keeps that part (absolute accuracy 1e-12 here)
            if l in (0, 1, L // 2, L) and m in (-l, 0, min(1, l), l):
                for amp in (1e-10, 1e7):
                    part.ev()
                    part.tr(2)
                    e = np.zeros(len(lmc), dtype=complex)
                    e[k] = 1j * amp
                    f = (1j * amp * Bc[k]).reshape(theta.shape)
                    d = np.abs(sht.analysis(f.astype(np.complex128)) - e).max() / amp
                    if d > t:
                        fail("analysis-cplx-scale", "analysis of %g*i*Y(%d,%d) has relative error %.3g" % (amp, l, m, d), {"l": l, "m": m})
                    d = np.abs(sht.synthesis(e) - f).max() / amp
                    if d > t:
                        fail("synthesis-cplx-scale", "synthesis of %g*i*e(%d,%d) has relative error %.3g" % (amp, l, m, d), {"l": l, "m": m})
                part.ev()
                part.tr()
                k0 = ylm.idx_c(l, 0)
                f = (Bc[k0].real + 1e-9j * (Bc[k] + np.conj(Bc[k])).real).reshape(theta.shape)   # real g + i * 1e-9 * real h
                e = np.zeros(len(lmc), dtype=complex)
                e[k0] += 1.0
                e[k] += 1e-9j
                e[ylm.idx_c(l, -m)] += 1e-9j * (-1) ** m
                d = np.abs(sht.analysis(f.astype(np.complex128)) - e).max()
                if not (d <= 1e-12 * (L + 1)):
                    fail("analysis-cplx-small-imaginary", "analysis of Y(%d,0) + 1e-9*i*(Y(%d,%d)+cc) deviates by %.3g (the small imaginary part must survive)" % (l, l, m, d), {"l": l, "m": m})
    # ---------------- real transform on basis vectors ------------------------------------------------------
    for k, (l, m) in enumerate(lmr):
        if sel is not None and (l, m) not in sel:
            continue
        for ph_name, phase in (("1", 1.0), ("i", 1j)):
            if m == 0 and ph_name == "i":
                continue
            part.ev()
            part.tr(2)
            e = np.zeros(len(lmr), dtype=complex)
            e[k] = phase
            yk = Bc[ylm.idx_c(l, m)].reshape(theta.shape)
            f = (phase * yk).real * (1.0 if m == 0 else 2.0)
            c = sht.analysis(np.ascontiguousarray(f))
            d = np.abs(c - e).max()
            part.dev("analysis_real", d / (L + 1))
            if d > t:
                fail("analysis-real", "real analysis of %s*Y(%d,%d)+cc deviates from the unit vector by %.3g" % (ph_name, l, m, d), {"l": l, "m": m})
            v = sht.synthesis(e)
            d = np.abs(v - f).max()
            part.dev("synthesis_real", d / (L + 1))
            if d > t:
                fail("synthesis-real", "real synthesis of %s*e(%d,%d) deviates from the reference function by %.3g" % (ph_name, l, m, d), {"l": l, "m": m})
            # completion: c(l,-m) = (-1)^m conj c(l,m) and equals the complex analysis of the real function
            full = sht.complete_coefficients(e)
            want = ylm.complete(L, e)
            if not (np.abs(full - want).max() <= 1e-14):
                fail("complete", "complete_coefficients of %s*e(%d,%d) violates c(l,-m) = (-1)^m conj c(l,m)" % (ph_name, l, m), {"l": l, "m": m})
            if L >= 1:
                cc = sht.analysis(f.astype(np.complex128))
                if not (np.abs(cc - want).max() <= t):
                    fail("complete-vs-complex", "completed real coefficients differ from the complex analysis of the same real function (%d,%d)" % (l, m), {"l": l, "m": m})
            part.outcome(("r", m > 0, m % 2))
    # ---------------- dense vectors: round trips, linearity, Parseval, power spectrum ---------------------------
    use_ref = L <= 20 or L in (33, 48, 64)
    T, P, W = ylm.quadrature(L) if use_ref else (None, None, None)
    for which in (0, 1):
        part.ev()
        part.tr(6)
        if L >= 1:
            a = dense(len(lmc), which)
            fa = sht.synthesis(a)
            back = sht.analysis(fa)
            if not (np.abs(back - a).max() <= t * 4):
                fail("roundtrip-cplx", "analysis(synthesis(c)) differs from c by %.3g" % np.abs(back - a).max())
            ref = ylm.synth_complex(L, a, theta, phi) if use_ref and which == 0 else fa
            if not (np.abs(ref - fa).max() <= t * 20):
                fail("synthesis-dense-cplx", "dense complex synthesis deviates from the reference by %.3g" % np.abs(ref - fa).max())
            f2 = sht.synthesis(back)
            if not (np.abs(f2 - fa).max() <= t * 20):
                fail("roundtrip-grid-cplx", "synthesis(analysis(f)) differs from f on the grid")
            # linearity
            b = dense(len(lmc), 1 - which)[::-1].copy()
            fb = sht.synthesis(b)
            lin = sht.analysis((2.5 - 1j) * fa + 0.5j * fb)
            if not (np.abs(lin - ((2.5 - 1j) * a + 0.5j * b)).max() <= t * 20):
                fail("linearity-cplx", "analysis is not linear on a pair of dense fields")
            # Parseval with the independent quadrature
            fq = ylm.synth_complex(L, a, T, P) if use_ref and which == 0 else None
            integral = float(np.sum(np.abs(fq) ** 2 * W)) if fq is not None else float(np.sum(np.abs(a) ** 2))
            if not (abs(integral - np.sum(np.abs(a) ** 2)) <= 1e-9 * integral):
                fail("harness-parseval", "reference quadrature disagrees with Parseval (reference problem)")
            if not (abs(np.sum(np.abs(back) ** 2) - integral) <= 1e-8 * integral):
                fail("parseval-cplx", "sum |c|^2 = %.12g but integral |f|^2 = %.12g" % (np.sum(np.abs(back) ** 2), integral))
            ps = sht.power_spectrum(a)
            want = np.array([np.mean(np.abs(a[l * l:(l + 1) ** 2]) ** 2) for l in range(L + 1)])
            if np.shape(ps) != want.shape or not (np.abs(ps - want).max() <= 1e-12 * max(1.0, want.max())):
                fail("power-spectrum-cplx", "power_spectrum of a complex-layout vector (%d entries) %s" % (len(a), "has %d values for %d degrees" % (len(ps), L + 1) if np.shape(ps) != want.shape
                                                                                                          else "differs from the per-degree mean of |c|^2"))
        r = dense(len(lmr), which)
        r[: L + 1] = r[: L + 1].real
        fr = sht.synthesis(r)
        back = sht.analysis(fr)
        if not (np.abs(back - r).max() <= t * 4):
            fail("roundtrip-real", "real analysis(synthesis(c)) differs from c by %.3g" % np.abs(back - r).max())
        ref = ylm.synth_real(L, r, theta, phi) if use_ref and which == 0 else fr
        if not (np.abs(ref - fr).max() <= t * 20):
            fail("synthesis-dense-real", "dense real synthesis deviates from the reference by %.3g" % np.abs(ref - fr).max())
        full = ylm.complete(L, r)
        ps = sht.power_spectrum(r)
        want = np.array([np.mean(np.abs(full[l * l:(l + 1) ** 2]) ** 2) for l in range(L + 1)])
        if np.shape(ps) != want.shape or not (np.abs(ps - want).max() <= 1e-12 * max(1.0, want.max())):
            fail("power-spectrum-real", "power_spectrum (real layout) differs from the per-degree mean of |c|^2 of the completed vector")
        # the spectrum of a SHAPE: a large constant part (a sphere of radius 1e3) and ripples that fall off like 10^(-l/2) - every degree's
        # power is its own sum, to relative accuracy, however small it is next to the others
        if L >= 2:
            lc = np.array([l for (l, m) in lmc], dtype=float)
            a_dec = dense(len(lmc), which) * 10.0 ** (-0.5 * lc)
            a_dec[0] = 3.5e3
            lr = np.array([l for (l, m) in lmr], dtype=float)
            r_dec = dense(len(lmr), which) * 10.0 ** (-0.5 * lr)
            r_dec[: L + 1] = r_dec[: L + 1].real
            r_dec[0] = 3.5e3
            for nm, vec, full_ in (("complex", a_dec, a_dec), ("real", r_dec, ylm.complete(L, r_dec))):
                ps = np.asarray(sht.power_spectrum(vec), dtype=float)
                want = np.array([np.mean(np.abs(full_[l * l:(l + 1) ** 2]) ** 2) for l in range(L + 1)])
                if ps.shape != want.shape or not np.all(np.abs(ps - want) <= 1e-10 * want + 1e-300):
                    lbad = int(np.argmax(np.abs(ps - want) / (want + 1e-300))) if ps.shape == want.shape else -1
                    fail("power-spectrum-decaying:%s" % nm, "power_spectrum (%s layout) of a decaying spectrum (c00 = 3.5e3, |c_lm| ~ 10^(-l/2)): degree %d is %.6g, the mean of its |c|^2 is %.6g"
                         % (nm, lbad, ps[lbad] if lbad >= 0 else np.nan, want[lbad] if lbad >= 0 else np.nan))
        fq = ylm.synth_real(L, r, T, P) if use_ref and which == 0 else None
        integral = float(np.sum(fq ** 2 * W)) if fq is not None else float(np.sum(np.abs(full) ** 2))
        if not (abs(np.sum(np.abs(full) ** 2) - integral) <= 1e-8 * max(integral, 1e-30)):
            fail("parseval-real", "sum |c|^2 of the completed vector != integral f^2")
        part.outcome(("dense", which))
    # ---------------- the poles, at every L: only m = 0 contributes, Y_l0(0) = sqrt((2l+1)/4pi), Y_l0(pi) = (-1)^l sqrt((2l+1)/4pi) ----
    if L >= 1:
        part.ev()
        part.tr(4)
        a = dense(len(lmc), 0)
        r = dense(len(lmr), 1)
        r[: L + 1] = r[: L + 1].real
        nl = np.sqrt((2 * np.arange(L + 1) + 1) / (4 * np.pi))
        for th, sgn in ((0.0, np.ones(L + 1)), (np.pi, (-1.0) ** np.arange(L + 1))):
            want_c = complex(np.sum(np.array([a[ylm.idx_c(l, 0)] for l in range(L + 1)]) * nl * sgn))
            want_r = float(np.sum(r[: L + 1].real * nl * sgn))
            vc = complex(sht.evaluate_at_points(a, th, 0.7))
            vr = complex(sht.evaluate_at_points(r, th, 0.7))
            if not (abs(vc - want_c) <= t * 20) or not (abs(vr - want_r) <= t * 20):
                fail("evaluate_at_points:pole", "point-wise evaluation at theta=%s gives %s / %s, the m=0 sum is %s / %s" % ("0" if th == 0 else "pi", vc, vr, want_c, want_r))
    # ---------------- special VALUES of complex-layout vectors: all ones, real and symmetric in m (c(l,-m) = c(l,m): a conjugate
    # palindrome per degree - NOT a real function unless the odd m vanish), 1/(1+l), purely imaginary constants, alternating signs:
    # synthesis followed by analysis returns the vector, and the compiled path agrees with point-wise evaluation -----------------
    if L >= 1:
        lc_ = np.array([l for (l, m) in lmc], dtype=float)
        mc_ = np.array([m for (l, m) in lmc], dtype=float)
        specials = {"all ones": np.ones(len(lmc), dtype=complex), "1/(1+l)": (1.0 / (1.0 + lc_)).astype(complex), "symmetric in m": (1.0 + np.abs(mc_) + 0.1 * lc_).astype(complex),
                    "all i": np.full(len(lmc), 1j), "alternating signs": ((-1.0) ** np.arange(len(lmc))).astype(complex), "conjugate palindrome": (1.0 + 0.5j * np.sign(mc_)) * (1.0 + lc_)}
        for sname_, a_ in specials.items():
            part.tr(2)
            a_ = np.ascontiguousarray(a_)
            f_ = sht.synthesis(a_)
            back_ = sht.analysis(f_)
            if not (np.abs(back_ - a_).max() <= t * 4 * float(np.abs(a_).max())):
                fail("roundtrip-special-values", "analysis(synthesis(c)) differs from c by %.3g for the complex-layout vector '%s'" % (float(np.abs(back_ - a_).max()), sname_))
                continue
            th_, ph_ = 0.83, 2.17
            v_ = complex(sht.evaluate_at_points(a_, th_, ph_))
            want_ = complex(ylm.synth_complex(L, a_, np.array([th_]), np.array([ph_]))[0])
            if not (abs(v_ - want_) <= t * 20 * (1.0 + abs(want_))):
                fail("evaluate-special-values", "point-wise evaluation of the vector '%s' differs from the harmonics reference by %.3g" % (sname_, abs(v_ - want_)))
            if use_ref_small(L):
                ref_ = ylm.synth_complex(L, a_, theta.ravel(), phi.ravel()).reshape(theta.shape)
                if not (np.abs(ref_ - f_).max() <= t * 20 * (1.0 + float(np.abs(ref_).max()))):
                    fail("synthesis-special-values", "synthesis of the vector '%s' deviates from the harmonics reference by %.3g" % (sname_, float(np.abs(ref_ - f_).max())))
    # ---------------- angles given as whole numbers in integer types (theta = 0 the north pole, 1, 2, 3 rad; phi = 0, 5): the value is
    # that at the same angle written as a float, for Python ints, numpy integers and 0-d arrays, real and complex data ------------
    if L >= 1:
        a = dense(len(lmc), 0)
        r = dense(len(lmr), 1)
        r[: L + 1] = r[: L + 1].real
        for th_i, ph_i in ((0, 0), (1, 0), (2, 5), (3, 1), (1, 5)):
            wc = complex(sht.evaluate_at_points(a, float(th_i), float(ph_i)))
            wr = complex(sht.evaluate_at_points(r, float(th_i), float(ph_i)))
            for tname, conv in (("int", int), ("np.int64", np.int64), ("np.int32", np.int32), ("0-d integer array", lambda x: np.array(x, dtype=np.int64)), ("np.float32", np.float32)):
                part.tr(2)
                try:
                    gc = complex(sht.evaluate_at_points(a, conv(th_i), conv(ph_i)))
                    gr = complex(sht.evaluate_at_points(r, conv(th_i), conv(ph_i)))
                except Exception as e:
                    fail("evaluate_at_points:integer-angle-raise", "point-wise evaluation at theta=%d, phi=%d given as %s raised %r" % (th_i, ph_i, tname, e))
                    continue
                lim = t * 20 if tname != "np.float32" else 1e-5 * (1.0 + abs(wc))
                if not (abs(gc - wc) <= lim) or not (abs(gr - wr) <= lim):
                    fail("evaluate_at_points:integer-angle", "point-wise evaluation at theta=%d, phi=%d given as %s is %s / %s (complex / real data), at the same angles as floats %s / %s"
                         % (th_i, ph_i, tname, gc, gr, wc, wr))
    # ---------------- pure python paths and point-wise evaluation --------------------------------------------
    if L <= Lpy or L in (16, 33, 64):
        full_basis = L <= Lpy
        pts = [(0.3, 0.1), (1.1, 2.0), (0.0, 0.4), (np.pi, 1.0), (1e-4, 0.3), (2.0, 4.4), (2.9, 6.0), (np.pi / 2, np.pi)]
        vecs_c, vecs_r = [], []
        if full_basis:
            for k in range(len(lmc)):
                e = np.zeros(len(lmc), dtype=complex); e[k] = 1.0 + 0.5j; vecs_c.append(e)
            for k in range(len(lmr)):
                e = np.zeros(len(lmr), dtype=complex); e[k] = (1.0 + 0.5j) if lmr[k][1] > 0 else 1.0; vecs_r.append(e)
        vecs_c += [dense(len(lmc), 0), dense(len(lmc), 1)]
        for w_ in (0, 1):
            r = dense(len(lmr), w_); r[: L + 1] = r[: L + 1].real; vecs_r.append(r)
        for a in vecs_c if L >= 1 else []:
            part.ev(); part.tr(4)
            f1, f2 = sht.synthesis(a), sht.synthesis_pure_python_cplx(a)
            if not (np.abs(f1 - f2).max() <= t * 10):
                fail("python-vs-compiled:synthesis-cplx", "pure-Python and compiled complex synthesis differ by %.3g" % np.abs(f1 - f2).max())
            c1, c2 = sht.analysis(f1), sht.analysis_pure_python_cplx(f1)
            if not (np.abs(c1 - c2).max() <= t * 10):
                fail("python-vs-compiled:analysis-cplx", "pure-Python and compiled complex analysis differ by %.3g" % np.abs(c1 - c2).max())
            for (th, ph) in (pts if full_basis else pts[:4]):
                v = sht.evaluate_at_points(a, th, ph)
                want = complex(ylm.synth_complex(L, a, np.array([th]), np.array([ph]))[0])
                if not (abs(v - want) <= t * 20):
                    fail("evaluate_at_points-cplx:%s" % ("pole" if abs(np.cos(th)) == 1.0 else "generic"), "point-wise evaluation differs from the reference by %.3g at (theta=%.3g, phi=%.2f)" % (abs(v - want), th, ph))
                    break
        for r in vecs_r:
            part.ev(); part.tr(4)
            f1, f2 = sht.synthesis(r), sht.synthesis_pure_python(r)
            if not (np.abs(f1 - f2).max() <= t * 10):
                fail("python-vs-compiled:synthesis-real", "pure-Python and compiled real synthesis differ by %.3g" % np.abs(f1 - f2).max())
            c1, c2 = sht.analysis(f1), sht.analysis_pure_python(f1)
            if not (np.abs(c1 - c2).max() <= t * 10):
                fail("python-vs-compiled:analysis-real", "pure-Python and compiled real analysis differ by %.3g" % np.abs(c1 - c2).max())
            for (th, ph) in (pts if full_basis else pts[:4]):
                v = sht.evaluate_at_points(r, th, ph)
                want = float(ylm.synth_real(L, r, np.array([th]), np.array([ph]))[0])
                if not (abs(v - want) <= t * 20):
                    fail("evaluate_at_points-real:%s" % ("pole" if abs(np.cos(th)) == 1.0 else "generic"), "point-wise evaluation (real) differs from the reference by %.3g at (theta=%.3g, phi=%.2f)" % (abs(v - want), th, ph))
                    break
        part.outcome(("python", L))
    part.nontriv(L)


def object_history(part, job):
    """
    one SHT object is reused for many calls and owns scratch arrays: every sequence of up to `depth` calls over a small
    alphabet (point-wise evaluation at repeated / different angles, analysis, synthesis, pure-Python synthesis, power
    spectrum; real and complex data) must give, at every step, the answer a fresh object gives for that call alone
    """
    from chmpy.shape.sht import SHT

    L, depth = job
    nc, nr = (L + 1) ** 2, (L + 1) * (L + 2) // 2
    cc = dense(nc, 0)
    cr = dense(nr, 1)
    cr[: L + 1] = cr[: L + 1].real
    fresh = SHT(L)
    fc = fresh.synthesis(cc)
    fr = fresh.synthesis(cr)
    th1, th2, ph1, ph2 = 0.7, 1.9, 0.3, 2.1
    calls = {
        "eval_c(th1,ph1)": lambda s: s.evaluate_at_points(cc, th1, ph1),
        "eval_c(th1,ph2)": lambda s: s.evaluate_at_points(cc, th1, ph2),
        "eval_r(th1,ph1)": lambda s: s.evaluate_at_points(cr, th1, ph1),
        "eval_c(th2,ph1)": lambda s: s.evaluate_at_points(cc, th2, ph1),
        "analysis_c": lambda s: s.analysis(fc),
        "analysis_r": lambda s: s.analysis(fr),
        "synthesis_c": lambda s: s.synthesis(cc),
        "synthesis_r": lambda s: s.synthesis(cr),
        "synthesis_py_r": lambda s: s.synthesis_pure_python(cr),
        "power_r": lambda s: s.power_spectrum(cr),
        "power_c": lambda s: s.power_spectrum(cc),
    }
    names = list(calls)
    want = {}
    for n in names:
        want[n] = np.array(calls[n](SHT(L)), copy=True)
    # the references themselves are anchored: point-wise values against scipy's harmonics
    for n, (c_, th, ph, real) in {"eval_c(th1,ph1)": (cc, th1, ph1, False), "eval_r(th1,ph1)": (cr, th1, ph1, True)}.items():
        ref = ylm.synth_real(L, c_, np.array([th]), np.array([ph]))[0] if real else ylm.synth_complex(L, c_, np.array([th]), np.array([ph]))[0]
        if not (abs(complex(want[n]) - complex(ref)) <= tol(L) * 20):
            part.fail("object-history:reference", "fresh-object answer of %s differs from the harmonics reference" % n, {"kind": "objhist", "L": L, "depth": depth})
            return
    # ... and so are the others: analysis returns the coefficients the samples were synthesised from, synthesis the reference
    # samples on the object's grid, the power spectrum the per-degree sums (a fresh object in the same process is not an
    # independent reference if objects share state)
    th_g, ph_g = np.meshgrid(np.asarray(fresh.theta), np.asarray(fresh.phi), indexing="ij")
    ref_fc = ylm.synth_complex(L, cc, th_g.ravel(), ph_g.ravel()).reshape(th_g.shape)
    ref_fr = ylm.synth_real(L, cr, th_g.ravel(), ph_g.ravel()).reshape(th_g.shape)
    lm_r, lm_c = ylm.lm_real(L), ylm.lm_complex(L)
    pw_r = np.zeros(L + 1)
    for (l, m), v in zip(lm_r, cr):
        pw_r[l] += (1 if m == 0 else 2) * abs(v) ** 2 / (2 * l + 1)
    pw_c = np.zeros(L + 1)
    for (l, m), v in zip(lm_c, cc):
        pw_c[l] += abs(v) ** 2 / (2 * l + 1)
    anchors = {"analysis_c": cc, "analysis_r": cr, "synthesis_c": ref_fc, "synthesis_r": ref_fr.real, "synthesis_py_r": ref_fr.real, "power_r": pw_r, "power_c": pw_c}
    for n, ref in anchors.items():
        w = np.asarray(want[n])
        if w.shape != np.asarray(ref).shape or not (np.abs(w - ref).max() <= tol(L) * 50 * max(1.0, float(np.abs(ref).max()))):
            part.fail("object-history:reference", "fresh-object answer of %s differs from the independent reference" % n, {"kind": "objhist", "L": L, "depth": depth})
            return
    # after an error: the FIRST thing (or the thing in between) an object is asked is a call it refuses - samples transposed, too few
    # latitude rows, coefficients of the wrong dtype / length; it raises, and every valid call afterwards answers like a fresh object
    refused = {
        "analysis(transposed)": lambda s: s.analysis(np.ascontiguousarray(fc.T)),
        "analysis(rows missing)": lambda s: s.analysis(fr[: max(1, fr.shape[0] // 2)]),
        "synthesis(float64)": lambda s: s.synthesis(np.ascontiguousarray(cc.real)),
        "synthesis(too short)": lambda s: s.synthesis(cc[:5]),
        "eval(too short)": lambda s: s.evaluate_at_points(cc[:7], th1, ph1),
        "analysis(1-D)": lambda s: s.analysis(fr.ravel()),
    }
    for rname, rfn in refused.items():
        for pre in (None,) + tuple(names[:1] + names[4:6]):
            s = SHT(L)
            part.ev()
            try:
                if pre:
                    calls[pre](s)
                try:
                    rfn(s)
                    part.count("refused_call_answered")
                except Exception:
                    pass
                for n in names:
                    part.tr()
                    got = calls[n](s)
                    if not (np.abs(np.asarray(got) - want[n]).max() <= tol(L) * 20):
                        part.fail("object-history:%s-after-refused" % n.split("(")[0], "L=%d: %s on an SHT object returns another answer than on a fresh object after %s had been refused (raised)%s"
                                  % (L, n, rname, " following %s" % pre if pre else " as the object's first call"), {"kind": "objhist", "L": L, "depth": depth})
                        break
            except Exception as e:
                part.fail("object-history:raise-after-refused", "L=%d: a valid call raised %r after %s had been refused" % (L, e, rname), {"kind": "objhist", "L": L, "depth": depth})
    seen = set()
    for D in range(2, depth + 1):
        for hist in itertools.product(range(len(names)), repeat=D):
            part.ev()
            s = SHT(L)
            held = []
            for step, k in enumerate(hist):
                part.tr()
                got = calls[names[k]](s)
                if not (np.abs(np.asarray(got) - want[names[k]]).max() <= tol(L) * 20):
                    part.fail("object-history:%s-after-%s" % (names[k].split("(")[0], names[hist[step - 1]].split("(")[0] if step else "construction"),
                              "L=%d: %s on a reused SHT object returns another answer than on a fresh object after the calls %s"
                              % (L, names[k], [names[j] for j in hist[:step]]), {"kind": "objhist", "L": L, "depth": depth})
                    break
                for (g0, c0, n0) in held:
                    if isinstance(g0, np.ndarray) and not np.array_equal(g0, c0):
                        part.fail("object-history:result-aliasing", "L=%d: the array returned by %s changed after a later call (%s)" % (L, n0, names[k]),
                                  {"kind": "objhist", "L": L, "depth": depth})
                        held = []
                        break
                held.append((got, np.array(got, copy=True), names[k]))
            seen.add(hist[-2:])
    part.nstates(len(seen))
    part.outcome(("objhist", L))


def constructor_history(part, job):
    """
    two SHT objects with the same L but different (documented) grid sizes built one after the other in one process: each
    must be exact on ITS OWN grid - nodes are the Gauss-Legendre nodes of its ntheta, analysis of reference samples on its grid
    returns the coefficients, synthesis returns the reference samples - whatever was constructed before it
    """
    from chmpy.shape.sht import SHT

    L = job
    grids = [(None, None), (L + 1, 2 * L + 1), (2 * L + 2, 4 * L + 2), (L + 3, 2 * L + 4), (None, 4 * L + 4), (2 * L + 5, None)]
    nc, nr = (L + 1) ** 2, (L + 1) * (L + 2) // 2
    cc = dense(nc, 0)
    cr = dense(nr, 1)
    cr[: L + 1] = cr[: L + 1].real

    def verify(s, g, before):
        case = {"kind": "ctorhist", "L": L}
        nt = g[0] if g[0] is not None else s.ntheta
        if g[0] is not None and s.ntheta != g[0] or g[1] is not None and s.nphi != g[1]:
            part.fail("ctor-history:grid-size", "SHT(%d, ntheta=%s, nphi=%s) reports a %dx%d grid" % (L, g[0], g[1], s.ntheta, s.nphi), case)
            return
        x, _ = np.polynomial.legendre.leggauss(nt)
        if len(s.cos_theta) != nt or not (np.abs(np.sort(np.asarray(s.cos_theta)) - np.sort(x)).max() <= 1e-12):
            part.fail("ctor-history:nodes", "SHT(%d, ntheta=%s, nphi=%s) built after %s does not hold the %d Gauss-Legendre nodes of its own grid"
                      % (L, g[0], g[1], before, nt), case)
            return
        th, ph = np.meshgrid(np.asarray(s.theta), np.asarray(s.phi), indexing="ij")
        fc = ylm.synth_complex(L, cc, th.ravel(), ph.ravel()).reshape(th.shape)
        fr = ylm.synth_real(L, cr, th.ravel(), ph.ravel()).reshape(th.shape)
        for nm, got, want in (("analysis (complex)", s.analysis(fc), cc), ("analysis (real)", s.analysis(fr.real), cr),
                              ("synthesis (complex)", s.synthesis(cc), fc), ("synthesis (real)", s.synthesis(cr), fr.real)):
            part.tr()
            if np.asarray(got).shape != np.asarray(want).shape or not (np.abs(np.asarray(got) - want).max() <= tol(L) * 50):
                part.fail("ctor-history:%s" % nm.split(" ")[0], "L=%d: %s on the grid (ntheta=%s, nphi=%s) built after %s is not exact (dev %.3g)"
                          % (L, nm, g[0], g[1], before, float(np.abs(np.asarray(got) - want).max()) if np.asarray(got).shape == np.asarray(want).shape else np.inf), case)
                return

    for g1 in grids:
        for g2 in grids:
            part.ev()
            import importlib
            import chmpy.shape.sht as shtmod

            importlib.reload(shtmod)          # module-level state starts empty for every history
            s1 = shtmod.SHT(L, ntheta=g1[0], nphi=g1[1])
            verify(s1, g1, "nothing")
            s2 = shtmod.SHT(L, ntheta=g2[0], nphi=g2[1])
            verify(s2, g2, "SHT(%d, ntheta=%s, nphi=%s)" % ((L,) + g1))
            verify(s1, g1, "(re-checked after constructing another object)")
            part.outcome(("ctorhist", g1 == g2, g2[0] is None))
    part.nstates(len(grids) ** 2)


def long_sweep(part, job):
    """
    one SHT object, very many point-wise evaluations at DISTINCT polar angles (more than any fixed-size buffer would hold), then
    every point once more: the second pass must give the same values, and both equal the harmonics reference
    """
    from chmpy.shape.sht import SHT

    L, npts = job
    nc, nr = (L + 1) ** 2, (L + 1) * (L + 2) // 2
    cc = dense(nc, 0)
    cr = dense(nr, 1)
    cr[: L + 1] = cr[: L + 1].real
    k = np.arange(npts)
    th = 0.01 + (np.pi - 0.02) * ((k * 0.6180339887498949) % 1.0)
    ph = (2 * np.pi * ((k * 0.7548776662466927) % 1.0))
    ref_c = ylm.synth_complex(L, cc, th, ph)
    ref_r = ylm.synth_real(L, cr, th, ph)
    s = SHT(L)
    part.ev()
    for label, c_, ref in (("complex", cc, ref_c), ("real", cr, ref_r)):
        first = np.array([complex(s.evaluate_at_points(c_, float(t), float(p))) for t, p in zip(th, ph)])
        part.tr(npts)
        second = np.array([complex(s.evaluate_at_points(c_, float(t), float(p))) for t, p in zip(th, ph)])
        part.tr(npts)
        case = {"kind": "longsweep", "L": L, "npts": npts}
        d1 = np.abs(first - ref).max()
        d2 = np.abs(second - ref).max()
        if not (d1 <= tol(L) * 50) or not (d2 <= tol(L) * 50):
            bad = int(np.argmax(np.abs(second - ref) > tol(L) * 50)) if not (d2 <= tol(L) * 50) else int(np.argmax(np.abs(first - ref) > tol(L) * 50))
            part.fail("long-sweep:%s" % label, "L=%d, %s coefficients: point-wise evaluation of %d distinct points on one object deviates from the harmonics by %.3g in the first pass and %.3g when "
                      "every point is evaluated once more (first bad index %d)" % (L, label, npts, d1, d2, bad), case)
        part.outcome(("longsweep", label))
    part.nstates(1)


def run(ctx):
    Lb = 32 if ctx.thorough else 16
    Lpy = 12 if ctx.thorough else 8
    jobs = [(L, Lb, Lpy) for L in range(0, 65)]
    jobs.sort(key=lambda j: -(j[0] ** 2 if j[0] <= Lb else j[0]))
    ctx.pmap(check_L, jobs)
    hjobs = [(3, 3), (4, 3 if ctx.thorough else 2), (8, 2)]
    ctx.pmap(object_history, hjobs)
    ctx.pmap(long_sweep, [(3, 700), (6, 300), (4, 70000 if ctx.thorough else 5000)])
    ctx.pmap(constructor_history, [2, 3, 5, 8, 12] + ([16, 23] if ctx.thorough else []))
    ctx.bounds["object_histories"] = "all sequences of <= 3 calls at L=3 (thorough also L=4) and <= 2 calls at L in {4,8} over 11 methods on one reused SHT object"
    ctx.rule = ("every L in 0..64; for L <= %d every basis vector e_(l,m) and i*e_(l,m) of the complex and of the real (m-major) layout through analysis and "
                "synthesis; above, the channels l in {0,1,L/2,L-1,L} x m in {-l,-1,0,1,l} and two dense vectors; pure-Python paths and point-wise "
                "evaluation for every basis vector with L <= %d and dense vectors at L in {16,33,64}; linearity, Parseval (independent quadrature), power "
                "distinct = values of L" % (Lb, Lpy))
    ctx.bounds = {"L": [0, 64], "full_basis_up_to": Lb, "python_paths_up_to": Lpy, "tolerance": "1e-10*(L+1)"}
    ctx.assumptions = ["linearity of the transform (itself checked on dense pairs) lifts basis coverage to all coefficient vectors",
                       "reference harmonics: scipy.special.sph_harm_y (orthonormal, Condon-Shortley)", "compiled kernels exercised as built"]
    ctx.sample({"L": 5, "real_layout_first": ylm.lm_real(5)[:8], "complex_layout_first": ylm.lm_complex(5)[:6]})


def replay(ctx, case):
    if case.get("kind") == "longsweep":
        long_sweep(ctx, (case["L"], case["npts"]))
        return
    if case.get("kind") == "ctorhist":
        constructor_history(ctx, case["L"])
        return
    if case.get("kind") == "objhist":
        object_history(ctx, (case["L"], case["depth"]))
        return
    check_L(ctx, (case["L"], case["Lb"], case["Lpy"]))

"""
C06 - isosurfaces are closed, consistently oriented meshes on the requested level.

Layer 1 (the heart): complete enumeration of the mesher's case space on small free blocks padded by
"outside" samples: 2x2x2 block (one fully free cell + its 26 partly free neighbours) with corner values
from {-2,-1,+1,+2} (all 256 sign patterns x magnitudes deciding every face/interior ambiguity test),
3x2x2 block (two free cells sharing an ambiguous face), thorough: 3x3x2.  Secondary axes: gradient
direction, spacing, block position / grid shape, level.
Layer 2: smooth multi-blob fields and a volume-convergence ladder.
Layer 3: chmpy.surface functions on molecules / enclosed molecules along a separation ladder.
Layer 4: the user-level wrappers returning Trimesh objects.
Oracle: mc.ref.mesh (directed-edge manifold, signed volume, winding numbers) + level-set location.
"""
from mc.paths import TEST_FILES
import itertools
import math

import numpy as np

from mc.ref import interp, mesh
from mc.ref.mol import rot

PROPERTY = "C06"
LEVEL = "model_checking"

OUT = -2.0  # value of the padding samples relative to the level ("outside")


MC_OPTIONS = {}


def call_mc(vol, level, spacing, direction):
    from chmpy.mc import marching_cubes

    keep = np.array(vol, copy=True)
    out = marching_cubes(vol, level, spacing=spacing, gradient_direction=direction, **MC_OPTIONS)
    if not np.array_equal(keep, vol):
        raise AssertionError("marching_cubes modified the caller's volume array")
    return out


def has_face_tie(vol, level):
    """
    True if some unit face of the grid is ambiguous (checkerboard signs) with the products of its diagonals exactly
    equal: the mesher's asymptotic decider A*C - B*D is then 0 and the saddle of the bilinear interpolant lies ON the level
    """
    v = vol.astype(np.float32).astype(np.float64) - float(level)
    eps = np.spacing(1.0)
    for ax in range(3):
        o = [i for i in range(3) if i != ax]
        def sl(d0, d1):
            idx = [slice(None)] * 3
            idx[o[0]] = slice(d0, v.shape[o[0]] - 1 + d0)
            idx[o[1]] = slice(d1, v.shape[o[1]] - 1 + d1)
            return v[tuple(idx)]
        A, B, C, D = sl(0, 0), sl(1, 0), sl(1, 1), sl(0, 1)
        amb = (np.sign(A) == np.sign(C)) & (np.sign(B) == np.sign(D)) & (np.sign(A) != np.sign(B))
        if (amb & (np.abs(A * C - B * D) < eps)).any():
            return True
    return False


def check_mesh_on_grid(part, vol, level, spacing, direction, case, key, expect_sign=None, check_winding=True):
    """full layer-1/2 oracle for one grid; returns orientation sign (+1/-1) or None"""
    part.ev()
    part.tr()
    if has_face_tie(vol, level):
        key = key + ":face-tie"
        part.count("grids_with_exact_face_tie")
    above = vol > level
    if not above.any() or above.all():
        part.skip("no level crossing")
        return None
    try:
        verts, faces, normals, values = call_mc(vol, level, spacing, direction)
    except Exception as e:
        part.fail("raise:%s" % key, "marching_cubes raised %s: %s" % (type(e).__name__, str(e)[:80]), case)
        return None
    verts = np.asarray(verts, dtype=np.float64)
    faces = np.asarray(faces, dtype=np.int64)
    nfail = len(part.failures)
    rep = mesh.manifold_report(faces, len(verts))
    if not rep["ok"]:
        cls = "open" if "closed" in rep["reason"] else "orientation" if "more than once" in rep["reason"] else "degenerate" if "repeated" in rep["reason"] else "invalid"
        part.fail("mesh-%s:%s" % (cls, key), "mesh is not a closed oriented 2-manifold: %s" % rep["reason"], case)
        return None
    # vertex location
    sp = np.asarray(spacing, dtype=float)
    idx = verts / sp
    shape = np.array(vol.shape)
    if not (idx.min() >= -1e-6) or (idx > shape - 1 + 1e-6).any():
        part.fail("vertex-outside-grid:%s" % key, "a vertex lies outside the sampled grid", case)
        return None
    fr = idx - np.floor(idx + 1e-9)
    fr[np.abs(fr - 1) < 1e-6] = 0.0
    is_int = np.abs(fr) < 1e-6
    n_int = is_int.sum(axis=1)
    v32 = vol.astype(np.float32).astype(np.float64)
    worst_edge = 0.0
    for k in range(len(verts)):
        p = idx[k]
        if n_int[k] >= 2:
            ax = int(np.argmin(is_int[k])) if n_int[k] == 2 else None
            if ax is None:
                part.fail("vertex-on-sample:%s" % key, "a vertex coincides with a grid sample although no sample equals the level", case)
                break
            i0 = np.rint(p).astype(int)
            i0[ax] = int(math.floor(p[ax] + 1e-9))
            i1 = i0.copy()
            i1[ax] += 1
            f0, f1 = v32[tuple(i0)], v32[tuple(i1)]
            if not ((f0 > level) != (f1 > level)):
                part.fail("vertex-edge-not-straddling:%s" % key, "a vertex lies on a grid edge whose end values %g, %g do not straddle the level %g" % (f0, f1, level), case)
                break
            t = (level - f0) / (f1 - f0)
            worst_edge = max(worst_edge, abs((p[ax] - i0[ax]) - t))
        else:
            c0 = np.floor(p + 1e-9).astype(int)
            c0 = np.minimum(c0, shape - 2)
            cell = v32[c0[0]:c0[0] + 2, c0[1]:c0[1] + 2, c0[2]:c0[2] + 2]
            if not ((cell > level).any() and (cell <= level).any()):
                part.fail("vertex-cell-not-straddling:%s" % key, "an interior vertex lies in a cell whose corners do not straddle the level", case)
                break
            part.count("interior_vertices")
    part.dev("edge_crossing_position", worst_edge)
    if not (worst_edge <= 1e-5):
        part.fail("vertex-not-at-crossing:%s" % key, "a vertex is %.3g (index units) away from the linear crossing point of its grid edge" % worst_edge, case)
    sv = mesh.signed_volume(verts, faces)
    sign = 1 if sv > 0 else -1
    if expect_sign is not None and sign != expect_sign:
        part.fail("orientation:%s" % key, "signed volume %.4g has the wrong sign for gradient_direction=%s" % (sv, direction), case)
    if check_winding:
        ii = np.array(list(np.ndindex(*vol.shape)), dtype=float)
        pts = ii * sp
        wn = mesh.winding_numbers(verts, faces, pts)
        a = above.ravel()
        bad_in = np.abs(np.abs(wn[a]) - 1) > 1e-6
        bad_out = np.abs(wn[~a]) > 1e-6
        if bad_in.any() or bad_out.any():
            part.fail("separation:%s" % key, "the mesh does not separate the samples: %d above-level sample(s) not enclosed, %d below-level sample(s) enclosed"
                      % (int(bad_in.sum()), int(bad_out.sum())), case)
        elif a.any() and not (np.sign(wn[a]) == sign).all():
            part.fail("orientation-mixed:%s" % key, "components of the mesh are oriented inconsistently", case)
    part.outcome((len(verts), len(faces), sign))
    if len(part.failures) != nfail:
        return None
    return sign


# ---------------------------------------------------------------------------------------------------------
def block_grid(block_values, block_shape, grid_shape, offset, level):
    vol = np.full(grid_shape, OUT + level, dtype=np.float32)
    b = np.asarray(block_values, dtype=np.float32).reshape(block_shape) + level
    sl = tuple(slice(o, o + s) for o, s in zip(offset, block_shape))
    vol[sl] = b
    return vol


SECONDARY = [
    # (direction, spacing, grid shape, offset, level) ; first = default
    ("descent", (1.0, 1.0, 1.0), None, (1, 1, 1), 0.0),
    ("ascent", (1.0, 1.0, 1.0), None, (1, 1, 1), 0.0),
    ("descent", (0.5, 1.0, 2.0), None, (1, 1, 1), 0.0),
    ("descent", (1.0, 1.0, 1.0), "big1", (2, 1, 3), 0.0),
    ("descent", (1.0, 1.0, 1.0), "big2", (3, 2, 1), 0.0),
    ("descent", (1.0, 1.0, 1.0), None, (1, 1, 1), 0.37),
]


def grid_shape_for(tag, block_shape):
    base = tuple(s + 2 for s in block_shape)
    if tag is None:
        return base
    if tag == "big1":
        return tuple(s + a for s, a in zip(base, (1, 0, 2)))
    return tuple(s + a for s, a in zip(base, (2, 1, 0)))


def block_worker(part, job):
    block_shape, chunk, sec_every = job
    ncell = int(np.prod(block_shape))
    bkey = "block%dx%dx%d" % block_shape
    for idx, vals in chunk:
        part.nstates(1)
        # default configuration always; the secondary axes one deviation at a time on every `sec_every`-th case
        secs = [0] + (list(range(1, len(SECONDARY))) if idx % sec_every == 0 else [1 + (idx % (len(SECONDARY) - 1))])
        for si in secs:
            direction, spacing, gtag, offset, level = SECONDARY[si]
            gshape = grid_shape_for(gtag, block_shape)
            vol = block_grid(vals, block_shape, gshape, offset, level)
            case = {"kind": "block", "shape": list(block_shape), "values": [float(v) for v in vals], "secondary": si}
            expect = 1 if direction == "descent" else -1
            key = "%s:%s" % (bkey, "default" if si == 0 else ["", "ascent", "spacing", "position1", "position2", "level"][si])
            s = check_mesh_on_grid(part, vol, level, spacing, direction, case, key, expect_sign=None)
            if s is not None:
                part.count("sign_%s_%+d" % (direction, s))
    part.nontriv((block_shape, chunk[0][0] if chunk else 0))


def enumerate_blocks(block_shape, tier):
    n = int(np.prod(block_shape))
    out = []
    idx = 0
    if block_shape == (2, 2, 2):
        for signs in itertools.product((-1.0, 1.0), repeat=8):
            if tier == "thorough":
                mags = itertools.product((1.0, 2.0), repeat=8)
            else:
                mags = []
                for k in (0, 1, 2):
                    for which in itertools.combinations(range(8), k):
                        m = [1.0] * 8
                        for w in which:
                            m[w] = 2.0
                        mags.append(tuple(m))
            for m in mags:
                out.append((idx, tuple(s * mm for s, mm in zip(signs, m))))
                idx += 1
    else:
        patterns = []
        k = np.arange(n)
        patterns.append(np.ones(n))
        patterns.append(1.0 + (k % 2))
        patterns.append(1.0 + ((k // 2) % 2))
        patterns.append(1.0 + ((k * 5 + 1) % 3 == 0))
        if n > 12:
            patterns = patterns[:2]
        for signs in itertools.product((-1.0, 1.0), repeat=n):
            for p in patterns:
                out.append((idx, tuple(s * mm for s, mm in zip(signs, p))))
                idx += 1
    return out


# ---------------------------------------------------------------------------------------------------------
def gaussian_field(shape, spacing, centres, widths, amps):
    ax = [np.arange(n) * s for n, s in zip(shape, spacing)]
    X, Y, Z = np.meshgrid(*ax, indexing="ij")
    f = np.zeros(shape)
    for c, w, a in zip(centres, widths, amps):
        f += a * np.exp(-(((X - c[0]) / w[0]) ** 2 + ((Y - c[1]) / w[1]) ** 2 + ((Z - c[2]) / w[2]) ** 2))
    return f


def oriented_triangles(verts, faces):
    """sorted list of triangles as vertex-coordinate triples (rounded to 1e-5), each rotated to start at its smallest vertex: keeps orientation"""
    V = np.round(np.asarray(verts, dtype=np.float64), 5)
    out = []
    for f in np.asarray(faces):
        t = [tuple(V[i]) for i in f]
        k = t.index(min(t))
        out.append((t[k], t[(k + 1) % 3], t[(k + 2) % 3]))
    return sorted(out)


def node_valued_worker(part, job):
    """
    special values: fields whose value AT GRID NODES equals the level exactly (r^2 on an integer grid at level 25, |x|+|y|+|z| at 5 - any
    integer-valued or exactly representable field at a whole-number level): with and without allow_degenerate the result is a closed
    oriented manifold (also after welding coincident vertices), and allow_degenerate=False leaves no zero-area triangle
    """
    _, fname, direction, allow = job
    n = 15
    ax = np.arange(n) - 7.0
    X, Y, Z = np.meshgrid(ax, ax, ax, indexing="ij")
    f, lev = {"r2": (X * X + Y * Y + Z * Z, 25.0), "l1": (np.abs(X) + np.abs(Y) + np.abs(Z), 5.0), "r2-ellipsoid": (X * X + 2 * Y * Y + 3 * Z * Z, 36.0)}[fname]
    vol = (f if direction == "ascent" else -f).astype(np.float32)
    L = lev if direction == "ascent" else -lev
    case = {"kind": "smooth", "job": ["node-valued", fname, direction, allow]}
    part.ev()
    part.tr()
    from chmpy.mc import marching_cubes

    try:
        v, fa, _, _ = marching_cubes(vol, L, spacing=(1.0, 1.0, 1.0), gradient_direction=direction, allow_degenerate=allow)
    except Exception as e:
        part.fail("node-valued:raise", "marching_cubes on the field %s at level %g (node values equal to the level, allow_degenerate=%s) raised %r" % (fname, lev, allow, e), case)
        return
    v, fa = np.asarray(v, dtype=float), np.asarray(fa)
    rep = mesh.manifold_report(fa, len(v))
    v2, f2, _ = mesh.merge_vertices(v, fa, 1e-7)
    rep2 = mesh.manifold_report(f2, len(v2))
    if not rep["ok"] or not rep2["ok"]:
        part.fail("node-valued:%s" % ("open" if "closed" in (rep["reason"] + rep2["reason"]) else "invalid"), "field %s at level %g (node values equal to the level), allow_degenerate=%s, %s: %s"
                  % (fname, lev, allow, direction, rep["reason"] or ("after welding coincident vertices: " + rep2["reason"])), case)
        return
    if not allow:
        a_, b_, c_ = v[fa[:, 0]], v[fa[:, 1]], v[fa[:, 2]]
        area = 0.5 * np.linalg.norm(np.cross(b_ - a_, c_ - a_), axis=1)
        if (area <= 1e-12).any():
            part.fail("node-valued:degenerate-left", "allow_degenerate=False leaves %d zero-area triangles (field %s at level %g)" % (int((area <= 1e-12).sum()), fname, lev), case)
    inside = float(np.sum((f < lev))) + 0.5 * float(np.sum(f == lev))
    vol_mesh = abs(mesh.signed_volume(v2, f2))
    if not (abs(vol_mesh - inside) <= 0.25 * inside):
        part.fail("node-valued:volume", "field %s at level %g: enclosed volume %.1f, the level set encloses about %.0f grid cells" % (fname, lev, vol_mesh, inside), case)
    part.outcome(("node-valued", fname, direction, allow))
    part.nstates(1)


def smooth_worker(part, job):
    kind = job[0]
    if kind == "node-valued":
        return node_valued_worker(part, job)
    if kind == "blobs-nodegenerate":
        MC_OPTIONS["allow_degenerate"] = False
        try:
            smooth_worker(part, ("blobs",) + tuple(job[1:]))
        finally:
            MC_OPTIONS.clear()
        return
    if kind == "blobs":
        _, nblob, shape, spacing, direction, level, variant = job
        ext = np.array(shape) * np.array(spacing)
        cs = [ext * np.array(f) for f in ((0.5, 0.5, 0.5), (0.35, 0.6, 0.45), (0.68, 0.4, 0.6))][:nblob]
        if variant == 1:
            cs = [ext * np.array(f) for f in ((0.4, 0.45, 0.5), (0.62, 0.55, 0.5), (0.5, 0.5, 0.68))][:nblob]
        ws = [ext * 0.11, ext * np.array([0.08, 0.13, 0.1]), ext * 0.09][:nblob]
        amps = [1.0, 0.8, 1.2][:nblob]
        f = gaussian_field(shape, spacing, cs, ws, amps)
        if direction == "ascent":
            f = 1.5 - f
            lev = 1.5 - level
        else:
            lev = level
        # precondition: level set does not reach the boundary
        b = np.ones(shape, dtype=bool)
        b[1:-1, 1:-1, 1:-1] = False
        inside = (f > lev) if direction == "descent" else (f < lev)
        if inside[b].any():
            part.skip("level set reaches the grid boundary")
            return
        case = {"kind": "smooth", "job": [kind, nblob, list(shape), list(spacing), direction, level, variant]}
        vol = f.astype(np.float32)
        if direction == "ascent":
            # object = below level: winding test on the complement is not defined by the helper; use the mirrored field for it
            check_mesh_on_grid(part, vol, lev, spacing, direction, case, "smooth:ascent", check_winding=False)
            s = None
        else:
            s = check_mesh_on_grid(part, vol, lev, spacing, direction, case, "smooth:descent")
        part.nstates(1)
        # the same samples handed over in another memory layout / dtype give the same oriented mesh
        if not MC_OPTIONS:
            try:
                base = oriented_triangles(*call_mc(vol, lev, spacing, direction)[:2])
                big = np.zeros(tuple(2 * n for n in shape), dtype=np.float32)
                big[::2, ::2, ::2] = vol
                variants = (("fortran", np.asfortranarray(vol)), ("float64", vol.astype(np.float64)), ("strided", big[::2, ::2, ::2]),
                            ("transposed-view", np.ascontiguousarray(vol.transpose(2, 1, 0)).transpose(2, 1, 0)))
                # ... and the same field measured in other units: samples and level multiplied by a power of two (exact in float32) have
                # the same level set - fields of order 1e-5 (a density in other units), 1e-7, 1e6; below ~1e-9 the compiled kernel's absolute 2.2e-16 guard in its denominators moves vertices by 1e-6 of a cell, which exact comparison would flag and the property does not forbid
                variants = tuple((n_, v_, lev) for n_, v_ in variants) + tuple(
                    ("scaled-2^%d" % e_, (vol.astype(np.float64) * 2.0 ** e_).astype(np.float32), lev * 2.0 ** e_) for e_ in (-17, -24, -30, 20))
                for lname, v, lev_v in variants:
                    part.ev()
                    part.tr()
                    if lname.startswith("scaled"):
                        # (the compiled kernel guards its denominators with an absolute 2.2e-16, which moves vertices by up to ~1e-6 of a cell once
                        # the field is of order 1e-9: same triangles, vertices within 1e-4 of a grid step)
                        if has_face_tie(v, lev_v) and not has_face_tie(vol, lev):
                            # ... and the same guard turns every ambiguous cell face of a field below ~2e-7 into a "tie" (A*C - B*D is of
                            # order 1e-15 there), which the kernel may resolve either way: still a closed oriented mesh (checked above for
                            # the unscaled field), but not comparable triangle by triangle
                            part.count("scaled_fields_with_kernel_ties")
                            continue
                        v0_, f0_ = call_mc(vol, lev, spacing, direction)[:2]
                        v1_, f1_ = call_mc(v, lev_v, spacing, direction)[:2]
                        # the guard's effect on a vertex is 2.2e-16 / |f1 - f0| of the edge: on a fine grid and a field of order 1e-9 the
                        # smallest difference across a crossed edge reaches 1e-12, so the allowance follows the field (20x the guard's share)
                        dmin_ = np.inf
                        vv_ = np.asarray(v, dtype=np.float64) - float(lev_v)
                        for ax_ in range(3):
                            a_, b_ = np.moveaxis(vv_, ax_, 0)[:-1], np.moveaxis(vv_, ax_, 0)[1:]
                            cr_ = (a_ * b_) < 0
                            if cr_.any():
                                dmin_ = min(dmin_, float(np.abs(b_ - a_)[cr_].min()))
                        tol_steps_ = max(1e-4, 20 * 2.2e-16 / dmin_) if np.isfinite(dmin_) and dmin_ > 0 else 1e-4
                        if np.asarray(f0_).shape != np.asarray(f1_).shape or not np.array_equal(np.asarray(f0_), np.asarray(f1_)) \
                                or not (np.abs(np.asarray(v0_) - np.asarray(v1_)).max() <= tol_steps_ * max(spacing)):
                            part.fail("magnitude-dependence:%s" % direction, "the mesh of the same field in other units (samples and level times %s): %s"
                                      % (lname[7:], "%d faces instead of %d" % (len(f1_), len(f0_)) if np.asarray(f0_).shape != np.asarray(f1_).shape else
                                         "vertices move by %.3g grid steps" % float(np.abs(np.asarray(v0_) - np.asarray(v1_)).max() / max(spacing))
                                         if np.array_equal(np.asarray(f0_), np.asarray(f1_)) else "other triangles"), dict(case, layout=lname))
                        part.outcome(("layout", lname, direction))
                        continue
                    got = oriented_triangles(*call_mc(v, lev_v, spacing, direction)[:2])
                    if got != base:
                        part.fail("layout-dependence:%s:%s" % (lname, direction), "the mesh of identical samples changes with the array's memory layout / dtype (%s): %d of %d oriented triangles differ"
                                  % (lname, len(set(got) ^ set(base)), len(base)), dict(case, layout=lname))
                    part.outcome(("layout", lname, direction))
            except Exception as e:
                part.fail("layout-raise:%s" % direction, "marching cubes on a re-laid-out volume raised %r" % e, case)
    else:
        # volume ladder: sphere / ellipsoid, pitch h, h/2, h/4
        _, radii, direction = job
        errs = []
        for h in (0.5, 0.25, 0.125):
            n = int(math.ceil((2 * max(radii) + 2.0) / h)) + 1
            shape = (n, n, n)
            c = np.array([(n - 1) * h / 2 + 0.013] * 3)
            ax = np.arange(n) * h
            X, Y, Z = np.meshgrid(ax, ax, ax, indexing="ij")
            f = 1.0 - np.sqrt(((X - c[0]) / radii[0]) ** 2 + ((Y - c[1]) / radii[1]) ** 2 + ((Z - c[2]) / radii[2]) ** 2)
            lev = 0.0
            if direction == "ascent":
                f = -f
            part.ev()
            part.tr()
            verts, faces, _, _ = call_mc(f.astype(np.float32), lev, (h, h, h), direction)
            rep = mesh.manifold_report(np.asarray(faces), len(verts))
            case = {"kind": "smooth", "job": [kind, list(radii), direction]}
            if not rep["ok"]:
                part.fail("ladder-mesh:%s" % direction, "sphere/ellipsoid mesh at pitch %g: %s" % (h, rep["reason"]), case)
                return
            v = abs(mesh.signed_volume(verts, faces))
            vt = 4.0 / 3.0 * math.pi * radii[0] * radii[1] * radii[2]
            errs.append(abs(v - vt) / vt)
        part.dev("volume_error_h", errs[0])
        part.dev("volume_error_h/4", errs[2])
        bounds = (0.06, 0.015, 0.004)
        if not (errs[0] <= bounds[0] and errs[1] <= bounds[1] and errs[2] <= bounds[2] and errs[2] < errs[0]):
            part.fail("volume-convergence:%s" % direction, "enclosed volume does not converge: relative errors %s at pitch h, h/2, h/4 (bounds %s)"
                      % (["%.3g" % e for e in errs], bounds), case)
        part.outcome(("ladder", tuple(radii), direction))
        part.nstates(1)


# ---------------------------------------------------------------------------------------------------------
SURF_MOLS = {
    "H2": ([1, 1], [[0.0, 0.0, -0.37], [0.0, 0.0, 0.37]]),
    "H2O": ([8, 1, 1], [[0.0, 0.0, 0.1173], [0.0, 0.7572, -0.4692], [0.0, -0.7572, -0.4692]]),
    "CO2": ([6, 8, 8], [[0.0, 0.0, 0.0], [0.0, 0.0, 1.16], [0.0, 0.0, -1.16]]),
    "CH4": ([6, 1, 1, 1, 1], [[0.0, 0.0, 0.0], [0.629, 0.629, 0.629], [-0.629, -0.629, 0.629], [-0.629, 0.629, -0.629], [0.629, -0.629, -0.629]]),
    "ring12": ([6] * 6 + [1] * 6, [[1.39 * math.cos(k * math.pi / 3), 1.39 * math.sin(k * math.pi / 3), 0.0] for k in range(6)]
               + [[2.47 * math.cos(k * math.pi / 3), 2.47 * math.sin(k * math.pi / 3), 0.0] for k in range(6)]),
}


def neighbours_for(pos):
    """a dense shell of neighbour molecules (26 translated copies on a 3.6-4.4 A lattice) enclosing the central one"""
    pos = np.asarray(pos, dtype=float)
    span = pos.max(axis=0) - pos.min(axis=0)
    step = span + np.array([3.3, 3.5, 3.7])
    out = []
    for c in itertools.product((-1, 0, 1), repeat=3):
        if c == (0, 0, 0):
            continue
        out.append(pos + np.array(c) * step)
    return np.vstack(out)


def surface_oracle(part, verts, faces, inside_pts, outside_pts, box, case, key, f_at=None, isovalue=None):
    verts = np.asarray(verts, dtype=float)
    faces = np.asarray(faces, dtype=np.int64)
    rep = mesh.manifold_report(faces, len(verts))
    if not rep["ok"]:
        cls = "open" if "closed" in rep["reason"] else "orientation" if "more than once" in rep["reason"] else "invalid"
        part.fail("surface-%s:%s" % (cls, key), "surface mesh is not a closed oriented 2-manifold: %s" % rep["reason"], case)
        return None
    lo, hi = box
    if (verts < np.asarray(lo) - 1e-4).any() or (verts > np.asarray(hi) + 1e-4).any():
        part.fail("surface-outside-box:%s" % key, "surface vertices lie outside the sampling box (frame error)", case)
        return None
    wi = mesh.winding_numbers(verts, faces, inside_pts)
    if (np.abs(np.abs(wi) - 1) > 1e-5).any():
        part.fail("surface-atoms-not-enclosed:%s" % key, "%d of %d atoms of the molecule are not enclosed by its surface" % (int((np.abs(np.abs(wi) - 1) > 1e-5).sum()), len(wi)), case)
        return None
    if len(outside_pts):
        wo = mesh.winding_numbers(verts, faces, outside_pts)
        if (np.abs(wo) > 1e-5).any():
            part.fail("surface-encloses-neighbour:%s" % key, "%d neighbouring atoms are enclosed by the surface" % int((np.abs(wo) > 1e-5).sum()), case)
            return None
    if f_at is not None:
        dev = float(np.abs(f_at(verts) - isovalue).max())
        return dev
    return 0.0


def surf_worker(part, job):
    from chmpy.interpolate.density import PromoleculeDensity, StockholderWeight
    from chmpy import surface as S

    kind, name, param, smoothing, seps, pose = job
    zs, pos = SURF_MOLS[name]
    zs = np.array(zs)
    pos = np.array(pos, dtype=float)
    if pose:
        pos = pos @ rot((1, 2, 3), 0.7).T + np.array([3.0, -2.0, 1.5])
    devs = []
    for sep in seps:
        part.ev()
        part.tr()
        case = {"kind": "surf", "job": [kind, name, param, smoothing, [sep], pose]}
        key = "%s:%s" % (kind, "smoothed" if smoothing else "raw")
        try:
            if kind == "promolecule":
                d = PromoleculeDensity((zs, pos))
                box = d.bb()
                if sep == seps[0]:
                    # the first request this density object sees is one the API refuses (a level the field never reaches): it raises, and
                    # the surface asked for afterwards from the SAME object is where it belongs
                    try:
                        S.promolecule_density_isosurface(d, isovalue=2000.0, sep=sep, smoothing=smoothing)
                        part.count("refused_call_answered")
                    except Exception:
                        pass
                iso = S.promolecule_density_isosurface(d, isovalue=param, sep=sep, smoothing=smoothing)
                f_at = (lambda v: np.asarray(d.rho(v), dtype=float))
                out_pts = np.zeros((0, 3))
                isovalue = param
            else:
                ext = neighbours_for(pos)
                ez = np.tile(zs, len(ext) // len(zs))
                s = StockholderWeight.from_arrays(zs, pos, ez, ext)
                box = s.bb()
                # precondition: weight on the faces of the sampling box below the isovalue (decided by the reference)
                lo, hi = np.asarray(box[0], dtype=float), np.asarray(box[1], dtype=float)
                g = [np.linspace(lo[i], hi[i], 9) for i in range(3)]
                fp = []
                for ax in range(3):
                    for v in (lo[ax], hi[ax]):
                        a, b = [g[i] for i in range(3) if i != ax]
                        A, B = np.meshgrid(a, b, indexing="ij")
                        P = np.zeros((A.size, 3))
                        P[:, ax] = v
                        oth = [i for i in range(3) if i != ax]
                        P[:, oth[0]] = A.ravel()
                        P[:, oth[1]] = B.ravel()
                        fp.append(P)
                fp = np.vstack(fp)
                ra, _ = interp.promolecule_rho(zs, pos, fp)
                rb, _ = interp.promolecule_rho(ez, ext, fp)
                if (ra / (ra + rb) >= param - 0.02).any():
                    part.skip("stockholder weight on the sampling-box faces not below the isovalue")
                    return
                if sep == seps[0]:
                    try:
                        S.stockholder_weight_isosurface(s, isovalue=1.5, sep=sep, smoothing=smoothing)
                        part.count("refused_call_answered")
                    except Exception:
                        pass
                iso = S.stockholder_weight_isosurface(s, isovalue=param, sep=sep, smoothing=smoothing)
                f_at = (lambda v: np.asarray(s.weights(np.asarray(v, dtype=np.float32)), dtype=float))
                out_pts = ext
                isovalue = param
        except Exception as e:
            part.fail("surface-raise:%s" % key, "%s isosurface of %s at separation %g raised %s: %s" % (kind, name, sep, type(e).__name__, str(e)[:80]), case)
            return
        dev = surface_oracle(part, iso.vertices, iso.faces, pos, out_pts, box, case, key, f_at, isovalue)
        if dev is None:
            return
        devs.append(dev / (isovalue if kind == "promolecule" else 1.0))
        part.outcome((kind, name, sep, bool(smoothing)))
    part.nstates(1)
    if len(devs) >= 2 and not smoothing:
        bound = 0.35 if kind == "promolecule" else 0.05
        part.dev("levelset_residual_%s_finest" % kind, devs[-1])
        if not (devs[-1] < devs[0] and devs[-1] <= bound):
            part.fail("levelset-convergence:%s" % kind, "%s surface of %s: max |f(vertex) - isovalue| along separations %s is %s (not decreasing to below %g)"
                      % (kind, name, list(seps), ["%.3g" % x for x in devs], bound), {"kind": "surf", "job": [kind, name, param, smoothing, list(seps), pose]})


def node_level_worker(part, arg):
    """
    "the isosurface through this point": the isovalue is the density AT A NODE of the sampling grid, so the level set passes exactly
    through a grid node and the mesher emits coincident vertices there.  Through the function and through the Molecule method, with and
    without smoothing: indices valid, and after welding coincident vertices a closed oriented surface round all atoms
    """
    from chmpy import PromoleculeDensity
    from chmpy.core.element import Element
    from chmpy.core.molecule import Molecule
    from chmpy.surface import promolecule_density_isosurface

    zs, pos = SURF_MOLS[arg]
    zs, pos = np.array(zs), np.array(pos, dtype=float)
    sep = 0.5
    pro = PromoleculeDensity((zs, pos))
    lo, hi = pro.bb()
    grids = [np.arange(lo[i], hi[i], sep, dtype=np.float32) for i in range(3)]
    for ti, off in enumerate(([1.9, 0.3, 0.2], [-0.4, 1.7, 0.6], [0.2, -0.3, 2.1])):
        target = pos[0] + np.array(off)
        node = np.array([[g[np.argmin(np.abs(g - t))] for g, t in zip(grids, target)]], dtype=np.float32)
        iso = float(pro.rho(node)[0])
        if not 1e-4 < iso < 0.05:
            part.skip("node density outside the usual isovalue range")
            continue
        for route in ("function", "function-unsmoothed", "molecule"):
            part.ev()
            part.tr()
            case = {"kind": "nodelevel", "mol": arg}
            try:
                if route == "molecule":
                    tm = Molecule([Element.from_atomic_number(int(z)) for z in zs], pos.copy()).promolecule_density_isosurface(isovalue=iso, separation=sep)
                    v, f = np.asarray(tm.vertices), np.asarray(tm.faces)
                else:
                    m_ = promolecule_density_isosurface(pro, isovalue=iso, sep=sep, **({"smoothing": None} if route.endswith("unsmoothed") else {}))
                    v, f = np.asarray(m_.vertices), np.asarray(m_.faces)
            except Exception as e:
                part.fail("node-level:raise:%s" % route, "promolecule surface (%s) of %s at the density of a grid node (isovalue %.6g) raised %s: %s" % (route, arg, iso, type(e).__name__, str(e)[:80]), case)
                continue
            if f.size == 0 or not (f.min() >= 0) or f.max() >= len(v):
                part.fail("node-level:indices:%s" % route, "promolecule surface (%s) of %s at the density of a grid node: face indices %s..%s for %d vertices"
                          % (route, arg, f.min() if f.size else None, f.max() if f.size else None, len(v)), case)
                continue
            v2, f2, _ = mesh.merge_vertices(v, f, 1e-6)
            surface_oracle(part, v2, f2, pos, np.zeros((0, 3)), (pos.min(axis=0) - 8.0, pos.max(axis=0) + 8.0), case, "node-level:%s" % route)
            # ... and every vertex still lies near the level set (a factor 3 in density is more than half a grid step at this spacing)
            ratio = np.asarray(pro.rho(np.asarray(v, dtype=np.float64)), dtype=float) / iso
            part.dev("node_level_density_ratio_max", float(ratio.max()))
            if not (ratio.max() <= 3.0) or not (ratio.min() >= 1.0 / 3.0):
                part.fail("node-level:off-surface:%s" % route, "promolecule surface (%s) of %s at the density of a grid node (isovalue %.6g): %d vertices lie at densities %.3g .. %.3g "
                          "times the isovalue" % (route, arg, iso, int(((ratio > 3.0) | (ratio < 1.0 / 3.0)).sum()), float(ratio.min()), float(ratio.max())), case)
            part.outcome(("nodelevel", route, ti))
    part.nstates(1)


def lattice_cluster(radius, pert, shift):
    g = np.arange(-6, 7) * 1.54
    P = np.array(list(itertools.product(g, g, g)))
    P = P[np.linalg.norm(P, axis=1) <= radius]
    k = np.arange(len(P))
    return P + pert * np.c_[np.sin(1 + 1.7 * k), np.cos(2 + 2.3 * k), np.sin(3 + 0.7 * k)] + shift


# (radius, perturbation, separation, shift): carbon clusters on a 1.54 A lattice whose default-isovalue surface passes through a node of
# the sampling grid at the given separation (found by scanning placements; the first five are the inputs of the finding fixed in
# surface.smooth_laplacian), and neighbours of them that do not
NODE_HIT_CLUSTERS = [(3.5, 0.0, 0.25, 0.0), (3.5, 0.0, 0.25, 0.37), (6.5, 0.03, 0.25, 0.0), (6.5, 0.03, 0.25, 0.013), (3.5, 0.0, 0.25, 0.013), (3.5, 0.03, 0.25, 0.0),
                     (5.0, 0.0, 0.25, 0.0), (5.0, 0.03, 0.3, 0.37), (3.5, 0.0, 0.5, 0.0), (5.0, 0.0, 0.5, 0.0), (3.5, 0.0, 1.0, 0.0)]


def cluster_surface_worker(part, spec):
    """
    larger molecules (57..305 atoms) at the default isovalue through both user routes with the DEFAULT smoothing and without: closed oriented
    surface round all atoms, every vertex near the level set.  Big surfaces cross many grid nodes; where the field at a node equals the
    isovalue to float32 accuracy the mesher emits coincident vertices, which whatever post-processes the mesh must survive
    """
    from chmpy import PromoleculeDensity
    from chmpy.core.element import Element
    from chmpy.core.molecule import Molecule
    from chmpy.surface import promolecule_density_isosurface

    radius, pert, sep, shift = spec
    pos = lattice_cluster(radius, pert, shift)
    zs = np.full(len(pos), 6)
    pro = PromoleculeDensity((zs, pos))
    case = {"kind": "cluster-surface", "spec": list(spec)}
    for route in ("function", "function-unsmoothed", "molecule"):
        part.ev()
        part.tr()
        try:
            if route == "molecule":
                tm = Molecule([Element.from_atomic_number(6)] * len(pos), pos.copy()).promolecule_density_isosurface(separation=sep)
                v, f = np.asarray(tm.vertices), np.asarray(tm.faces)
            else:
                m_ = promolecule_density_isosurface(pro, sep=sep, **({"smoothing": None} if route.endswith("unsmoothed") else {}))
                v, f = np.asarray(m_.vertices), np.asarray(m_.faces)
        except Exception as e:
            part.fail("cluster-surface:raise:%s" % route, "promolecule surface (%s) of a %d-atom cluster at separation %g raised %s: %s" % (route, len(pos), sep, type(e).__name__, str(e)[:80]), case)
            continue
        if f.size == 0 or not (f.min() >= 0) or f.max() >= len(v):
            part.fail("cluster-surface:indices:%s" % route, "promolecule surface (%s) of a %d-atom cluster: invalid face indices" % (route, len(pos)), case)
            continue
        ratio = np.asarray(pro.rho(np.asarray(v, dtype=np.float64)), dtype=float) / 0.002
        part.dev("cluster_density_ratio_max", float(ratio.max()))
        bound = 1.5 if sep <= 0.3 else 3.0 if sep <= 0.5 else 8.0
        if not (ratio.max() <= bound) or not (ratio.min() >= 1.0 / bound):
            part.fail("cluster-surface:off-surface:%s" % route, "promolecule surface (%s) of a %d-atom carbon cluster (radius %g, separation %g, shift %g): %d of %d vertices lie at densities "
                      "%.3g .. %.3g times the isovalue" % (route, len(pos), radius, sep, shift, int(((ratio > bound) | (ratio < 1.0 / bound)).sum()), len(v), float(ratio.min()), float(ratio.max())), case)
            continue
        v2, f2, _ = mesh.merge_vertices(v, f, 1e-6)
        surface_oracle(part, v2, f2, pos, np.zeros((0, 3)), (pos.min(axis=0) - 8.0, pos.max(axis=0) + 8.0), case, "cluster-surface:%s" % route)
        part.outcome(("cluster-surface", route, sep))
    part.nstates(1)


def c60_positions():
    """truncated icosahedron, C-C 1.42 A (radius 3.52 A): its promolecule surface at the default isovalue has an inner sheet round a cavity"""
    import itertools

    phi = (1 + 5 ** 0.5) / 2
    base = [(0, 1, 3 * phi), (1, 2 + phi, 2 * phi), (phi, 2, 2 * phi + 1)]
    pts = set()
    for b in base:
        for signs in itertools.product((1, -1), repeat=3):
            v = tuple(x * s for x, s in zip(b, signs))
            for perm in ((0, 1, 2), (1, 2, 0), (2, 0, 1)):       # even permutations
                pts.add(tuple(round(v[i], 9) for i in perm))
    P = np.array(sorted(pts)) * 0.71
    assert len(P) == 60
    return P


def cavity_worker(part, _):
    """a molecule whose surface has TWO sheets: the solid lies between them, so the atoms are inside (winding number 1) and the centre of
    the cage is outside (winding number 0); the enclosed volume is outer minus cavity"""
    import trimesh
    from chmpy.core.element import Element
    from chmpy.core.molecule import Molecule
    from chmpy.surface import promolecule_density_isosurface
    from chmpy import PromoleculeDensity

    pos = c60_positions()
    zs = np.full(60, 6)
    rho_centre = float(interp.promolecule_rho(zs, pos, np.zeros((1, 3)))[0][0])
    case = {"kind": "cavity"}
    if not rho_centre < 0.5 * 0.002:
        part.skip("no cavity at the default isovalue")
        return
    for route in ("molecule", "function"):
        part.ev()
        part.tr()
        try:
            if route == "molecule":
                tm = Molecule([Element.from_atomic_number(6)] * 60, pos.copy()).promolecule_density_isosurface(separation=0.5)
                v, f = np.asarray(tm.vertices), np.asarray(tm.faces)
            else:
                m_ = promolecule_density_isosurface(PromoleculeDensity((zs, pos)), sep=0.5)
                v, f = np.asarray(m_.vertices), np.asarray(m_.faces)
        except Exception as e:
            part.fail("cavity:raise:%s" % route, "promolecule surface of C60 (%s) raised %r" % (route, e), case)
            continue
        v2, f2, _ = mesh.merge_vertices(v, f, 1e-7)
        r = surface_oracle(part, v2, f2, pos, np.zeros((0, 3)), (pos.min(axis=0) - 8.0, pos.max(axis=0) + 8.0), case, "cavity:%s" % route)
        if r is None:
            continue
        wc = float(mesh.winding_numbers(v2, f2, np.zeros((1, 3)))[0])
        sv = mesh.signed_volume(v2, f2)
        comps = trimesh.Trimesh(vertices=v2, faces=f2, process=False).split(only_watertight=False)
        vols = sorted(abs(mesh.signed_volume(np.asarray(c.vertices), np.asarray(c.faces))) for c in comps)
        if not (abs(wc) <= 1e-5):
            part.fail("cavity:centre-enclosed:%s" % route, "the centre of the C60 cage (density %.2g, below the isovalue) has winding number %.3f: the inner sheet is oriented like the outer one" % (rho_centre, wc), case)
        elif len(vols) == 2 and not (abs(abs(sv) - (vols[1] - vols[0])) <= 1e-6 * vols[1]):
            part.fail("cavity:volume:%s" % route, "enclosed volume %.4f is not outer %.4f minus cavity %.4f" % (abs(sv), vols[1], vols[0]), case)
        part.outcome(("cavity", route, len(vols)))
    part.nstates(1)


def wrapper_worker(part, job):
    """user-level wrappers returning Trimesh objects"""
    import trimesh

    which, arg = job
    if which == "cavity":
        cavity_worker(part, None)
        return
    if which == "node-level":
        node_level_worker(part, arg)
        return
    if which == "cluster-surface":
        cluster_surface_worker(part, tuple(arg))
        return
    part.ev()
    part.tr()
    case = {"kind": "wrapper", "job": [which, arg]}
    try:
        if which == "molecule":
            from chmpy.core.molecule import Molecule
            from chmpy.core.element import Element

            zs, pos = SURF_MOLS[arg]
            m = Molecule([Element.from_atomic_number(int(z)) for z in zs], np.array(pos, dtype=float))
            # the same surface with every documented vertex colouring (the colour is computed FROM the vertices, it must not move them)
            colors = [None, "d_i", "d_norm_i", "d_e", "d_norm_e", "esp"]
            meshes, inside, outside = [], [], []
            for col in colors:
                try:
                    meshes.append(m.promolecule_density_isosurface(separation=0.5, **({"color": col} if col else {})))
                except KeyError:
                    continue        # a colouring this kind of surface does not offer
                inside.append(np.array(pos, dtype=float))
                outside.append(np.zeros((0, 3)))
            if len(meshes) >= 2:
                v0 = np.asarray(meshes[0].vertices)
                for tm_ in meshes[1:]:
                    if np.asarray(tm_.vertices).shape != v0.shape or not (np.abs(np.asarray(tm_.vertices) - v0).max() <= 1e-9):
                        part.fail("wrapper-colour-moves-surface", "the promolecule surface of %s has other vertices when another vertex colouring is asked for" % arg, case)
                        break
        else:
            from chmpy.crystal import Crystal

            c = Crystal.load(TEST_FILES + arg)
            defaults = which.endswith(":defaults")      # the call a user types first: no arguments at all (separation 0.2, radius 12)
            which = which.split(":")[0]
            if which == "crystal-hirshfeld":
                meshes = c.hirshfeld_surfaces() if defaults else c.hirshfeld_surfaces(separation=0.5, radius=8.0)
            else:
                meshes = c.promolecule_density_isosurfaces() if defaults else c.promolecule_density_isosurfaces(separation=0.5)
            mols = c.symmetry_unique_molecules()
            inside = [np.asarray(mm.positions) for mm in mols]
            outside = []
            # the neighbours that must stay outside each Hirshfeld surface are found by brute force from the unit-cell atoms
            # (not through molecule_environments, which the library's own surface construction uses)
            uc = c.unit_cell_atoms()
            M = np.asarray(c.unit_cell.direct, dtype=float)
            reach = [int(np.ceil(8.0 / w)) + 1 for w in 1.0 / np.linalg.norm(np.linalg.inv(M), axis=0)]
            shifts = np.array(list(itertools.product(*[range(-r - 1, r + 2) for r in reach])), dtype=float)
            allpos = ((np.asarray(uc["frac_pos"])[None, :, :] + shifts[:, None, :]).reshape(-1, 3)) @ M
            for ins_ in inside:
                if which != "crystal-hirshfeld":
                    outside.append(np.zeros((0, 3)))
                    continue
                dmin = np.min(np.linalg.norm(allpos[:, None, :] - ins_[None, :, :], axis=2), axis=1)
                outside.append(allpos[(dmin > 1e-3) & (dmin <= 8.0)])
    except Exception as e:
        part.fail("wrapper-raise:%s" % which, "%s wrapper (%s) raised %s: %s" % (which, arg, type(e).__name__, str(e)[:100]), case)
        return
    if len(meshes) != len(inside):
        part.fail("wrapper-count:%s" % which, "%d surfaces for %d molecules" % (len(meshes), len(inside)), case)
        return
    for tm, ins, outs in zip(meshes, inside, outside):
        if not isinstance(tm, trimesh.Trimesh):
            part.fail("wrapper-type:%s" % which, "wrapper returned %s, not a Trimesh" % type(tm).__name__, case)
            return
        v, f, _ = mesh.merge_vertices(np.asarray(tm.vertices), np.asarray(tm.faces), 1e-7)
        box = (ins.min(axis=0) - 8.0, ins.max(axis=0) + 8.0)
        surface_oracle(part, v, f, ins, outs, box, case, "wrapper:%s" % which)
        # what the mesh object says about its own orientation agrees with its triangles: the vertex normals it carries point to the
        # same side as the (area-weighted) normals of the faces round each vertex, in the molecule's frame
        try:
            vn = np.asarray(tm.vertex_normals, dtype=float)
            tv, tf = np.asarray(tm.vertices, dtype=float), np.asarray(tm.faces)
            fn_ = np.cross(tv[tf[:, 1]] - tv[tf[:, 0]], tv[tf[:, 2]] - tv[tf[:, 0]])
            acc = np.zeros_like(tv)
            for k_ in range(3):
                np.add.at(acc, tf[:, k_], fn_)
            nrm = np.linalg.norm(acc, axis=1)
            ok_ = nrm > 1e-12
            cosang = np.sum(vn[ok_] * acc[ok_], axis=1) / (nrm[ok_] * np.maximum(np.linalg.norm(vn[ok_], axis=1), 1e-300))
            if vn.shape != tv.shape or not (np.mean(cosang > 0.7) >= 0.98):
                part.fail("wrapper-vertex-normals:%s" % which, "the mesh returned by the %s wrapper carries vertex normals that disagree with its own triangles (%.0f%% of the vertices within 45 degrees)"
                          % (which, 100.0 * float(np.mean(cosang > 0.7)) if vn.shape == tv.shape else 0.0), case)
        except Exception as e:
            part.fail("wrapper-vertex-normals-raise:%s" % which, "reading vertex_normals of the mesh returned by the %s wrapper raised %r" % (which, e), case)
    part.outcome((which, arg))
    part.nstates(1)


def worker(part, job):
    k = job[0]
    if k == "block":
        block_worker(part, job[1])
    elif k == "smooth":
        smooth_worker(part, job[1])
    elif k == "surf":
        surf_worker(part, job[1])
    else:
        wrapper_worker(part, job[1])


def run(ctx):
    from mc.core import chunked

    jobs = []
    b222 = enumerate_blocks((2, 2, 2), ctx.tier)
    sec_every = 8 if ctx.thorough else 16
    jobs += [("block", ((2, 2, 2), ch, sec_every)) for ch in chunked(b222, max(1, len(b222) // 96))]
    b322 = enumerate_blocks((3, 2, 2), ctx.tier)
    jobs += [("block", ((3, 2, 2), ch, 64)) for ch in chunked(b322, max(1, len(b322) // 96))]
    n332 = 0
    if ctx.thorough:
        b332 = enumerate_blocks((3, 3, 2), ctx.tier)
        n332 = len(b332)
        jobs += [("block", ((3, 3, 2), ch, 4096)) for ch in chunked(b332, max(1, len(b332) // 512))]
    for nblob in (1, 2, 3):
        for shape, spacing in (((24, 24, 24), (0.5, 0.5, 0.5)), ((20, 28, 16), (0.5, 0.4, 0.8)), ((17, 19, 23), (0.7, 0.6, 0.5))):
            for direction in ("descent", "ascent"):
                for level in (0.25, 0.5, 0.75):
                    for variant in (0, 1):
                        jobs.append(("smooth", ("blobs", nblob, shape, spacing, direction, level, variant)))
                    if level == 0.5:
                        jobs.append(("smooth", ("blobs-nodegenerate", nblob, shape, spacing, direction, level, 0)))
    # every grid size of an interval (a wrapper that pads, tiles or chunks the volume has nowhere to hide below the bound): two blobs on
    # grids of n x (n+3) x (n-2) nodes, the physical extent kept at ~12 A so that the surface always fits
    for n in range(8, 81 if ctx.thorough else 44):
        shape = (n, n + 3, n - 2)
        spacing = (round(12.0 / n, 4), round(12.0 / (n + 3), 4), round(12.0 / (n - 2), 4))
        jobs.append(("smooth", ("blobs", 2, shape, spacing, "descent" if n % 2 else "ascent", 0.5, 0)))
    for radii in ((2.0, 2.0, 2.0), (1.5, 2.5, 2.0)):
        for direction in ("descent", "ascent"):
            jobs.append(("smooth", ("ladder", radii, direction)))
    for fname in ("r2", "l1", "r2-ellipsoid"):
        for direction in ("ascent", "descent"):
            for allow in (True, False):
                jobs.append(("smooth", ("node-valued", fname, direction, allow)))
    seps = (1.0, 0.5, 0.3, 0.2)
    for name in SURF_MOLS:
        for iso in (0.002, 0.02):
            jobs.append(("surf", ("promolecule", name, iso, None, seps, False)))
            jobs.append(("surf", ("promolecule", name, iso, "laplacian", seps[:3] if not ctx.thorough else seps, False)))
        jobs.append(("surf", ("promolecule", name, 0.002, None, (0.5,), True)))
        jobs.append(("surf", ("stockholder", name, 0.5, None, seps, False)))
        jobs.append(("surf", ("stockholder", name, 0.5, "laplacian", seps[:3] if not ctx.thorough else seps, False)))
        jobs.append(("surf", ("stockholder", name, 0.5, None, (0.5,), True)))
    for name in ("H2O", "CO2", "ring12"):
        jobs.append(("wrap", ("molecule", name)))
        if name in ("H2O", "CO2", "CH4"):
            jobs.append(("wrap", ("node-level", name)))
    jobs.append(("wrap", ("cavity", "C60")))
    jobs += [("wrap", ("cluster-surface", spec)) for spec in NODE_HIT_CLUSTERS]
    if ctx.thorough:
        # a sweep of placements and separations round the listed ones, and the sampling grids beyond 2^20 and 2^21 points
        jobs += [("wrap", ("cluster-surface", (r, pt, sep, sh))) for r in (3.5, 5.0) for pt in (0.0, 0.03) for sep in (0.2, 0.25, 0.3, 0.4) for sh in (0.0, 0.013, 0.37, 0.5)
                 if (r, pt, sep, sh) not in NODE_HIT_CLUSTERS]
    jobs += [("wrap", ("cluster-surface", spec)) for spec in ([(6.5, 0.03, 0.2, 0.0)] + ([(8.0, 0.03, 0.2, 0.0)] if ctx.thorough else []))]
    for f in ("acetic_acid.cif", "iceII.cif"):
        jobs.append(("wrap", ("crystal-hirshfeld", f)))
        jobs.append(("wrap", ("crystal-promolecule", f)))
    for f in (("acetic_acid.cif",) if not ctx.thorough else ("acetic_acid.cif", "iceII.cif", "r3c_example.cif")):
        jobs.append(("wrap", ("crystal-hirshfeld:defaults", f)))
        jobs.append(("wrap", ("crystal-promolecule:defaults", f)))
    order = {"surf": 0, "wrap": 1, "smooth": 2, "block": 3}
    jobs.sort(key=lambda j: order[j[0]])
    ctx.pmap(worker, jobs)
    # orientation is a fixed function of the gradient direction, opposite between the two
    c = ctx.counters
    for direction in ("descent", "ascent"):
        pos, neg = c.get("sign_%s_+1" % direction, 0), c.get("sign_%s_-1" % direction, 0)
        if pos and neg:
            ctx.fail("orientation-not-fixed:%s" % direction, "gradient_direction=%s gives both orientations (%d / %d cases)" % (direction, pos, neg), {"kind": "orientation"})
    d_sign = 1 if c.get("sign_descent_+1", 0) else -1
    a_sign = 1 if c.get("sign_ascent_+1", 0) else -1
    if (c.get("sign_ascent_+1", 0) or c.get("sign_ascent_-1", 0)) and d_sign == a_sign:
        ctx.fail("orientation-not-flipped", "descent and ascent give the same orientation", {"kind": "orientation"})
    ctx.rule = ("layer 1: 2x2x2 free block in a padded grid, corner values {-2,-1,+1,+2}: %d grids (%s), 3x2x2 block: %d grids (all 4096 sign patterns x 4 magnitude "
                "patterns)%s; secondary axes (ascent, anisotropic spacing, 2 block positions/grid shapes, level 0.37) one at a time on every case and all on every "
                "%dth; layer 2: 108 multi-blob fields + 4 volume ladders; layer 3: 5 molecules x {promolecule 0.002/0.02, stockholder in a 26-molecule shell} x "
                "separations %s x {raw, smoothed} x 2 poses; layer 4: 7 user-level wrapper calls; states = grids/fields/surfaces"
                % (len(b222), "all 65536" if ctx.thorough else "all 256 sign patterns x <= 2 corners of magnitude 2", len(b322),
                   "; 3x3x2 block: %d grids" % n332 if n332 else "", sec_every, list(seps)))
    ctx.bounds = {"block222": len(b222), "block322": len(b322), "block332": n332, "separations": list(seps)}
    ctx.assumptions = ["padding samples lie below the level so the level set cannot reach the grid boundary", "winding numbers by solid angles, tolerance 1e-6",
                       "volume ladder bounds 6% / 1.5% / 0.4%; level-set residual bounds at separation 0.2: 35% (promolecule, relative) / 0.05 (weight), and decreasing along the ladder",
                       "Hirshfeld cases whose weight on the sampling-box faces is not clearly below the isovalue are skipped (property's precondition)",
                       "compiled mesher exercised as built; lookup tables (lookup_tables.py) and all Python wrappers are live"]
    ctx.sample({"block_values": list(b222[4321 % len(b222)][1])})


def replay(ctx, case):
    k = case["kind"]
    if k == "block":
        block_worker(ctx, (tuple(case["shape"]), [(0, tuple(case["values"]))], 1))
    elif k == "smooth":
        j = case["job"]
        if j[0] == "node-valued":
            smooth_worker(ctx, tuple(j))
        elif j[0] == "blobs":
            smooth_worker(ctx, (j[0], j[1], tuple(j[2]), tuple(j[3]), j[4], j[5], j[6]))
        else:
            smooth_worker(ctx, (j[0], tuple(j[1]), j[2]))
    elif k == "surf":
        j = case["job"]
        surf_worker(ctx, (j[0], j[1], j[2], j[3], tuple(j[4]), j[5]))
    elif k == "cavity":
        cavity_worker(ctx, None)
    elif k == "nodelevel":
        node_level_worker(ctx, case["mol"])
    elif k == "cluster-surface":
        cluster_surface_worker(ctx, tuple(case["spec"]))
    elif k == "wrapper":
        wrapper_worker(ctx, tuple(case["job"]))

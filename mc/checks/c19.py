"""
C19 - the Wulff construction is the intersection of the facet half-spaces.

Degenerate axis-aligned family: the 7 axis pairs of {100}+{111}, each absent or with an energy from a
small alphabet - all assignments (cubes, prisms, truncated octahedra, facets cut off entirely, >= 4
facets through a vertex); generic family: every subset (size >= 3) of a pool of generic unit normals
with centrosymmetric completion x energy patterns; larger generic sets.  Oracle: brute-force
half-space intersection (mc.ref.halfspace), mesh predicates (mc.ref.mesh).
"""
import itertools

import numpy as np

from mc.ref import halfspace, mesh
from mc.ref.mol import rot

PROPERTY = "C19"
LEVEL = "exploration"

AXES = [(1, 0, 0), (0, 1, 0), (0, 0, 1), (1, 1, 1), (1, 1, -1), (1, -1, 1), (-1, 1, 1)]
AXES110 = [(1, 1, 0), (1, -1, 0), (1, 0, 1), (1, 0, -1), (0, 1, 1), (0, 1, -1)]


def unit(v):
    v = np.asarray(v, dtype=float)
    return v / np.linalg.norm(v)


def build_axis_case(assign, energies_alphabet, extra=()):
    normals, energies = [], []
    for ax, a in zip(AXES, assign):
        if a == 0:
            continue
        e = energies_alphabet[a - 1]
        n = unit(ax)
        normals += [n, -n]
        energies += [e, e]
    for ax, e in extra:
        n = unit(ax)
        normals += [n, -n]
        energies += [e, e]
    return np.array(normals), np.array(energies)


def generic_pool(seed):
    pool = []
    Q = rot((1, 2, 3), 0.37 + 0.11 * seed)
    for k in range(12):
        z = 1 - (2 * k + 1) / 12.0
        r = np.sqrt(max(0.0, 1 - z * z))
        phi = k * 2.399963229728653 + 0.3
        v = np.array([r * np.cos(phi), r * np.sin(phi), z])
        v = Q @ v
        if v[2] < 0:
            v = -v
        pool.append(v / np.linalg.norm(v))
    return pool


def check_shape(part, normals, energies, case, key, scale_test=False, rt=1e-6):
    """rt: relative resolution of the comparison (vertices closer than rt x the largest energy are not told apart)"""
    from chmpy.crystal.wulff import WulffConstruction

    if len(normals) < 4 or not halfspace.bounded(normals):
        part.skip("unbounded (normals do not positively span)")
        return
    part.ev()
    part.tr()
    ref_v = halfspace.vertices(normals, energies, dedupe_rel=0.1 * rt)
    ref_vol, ref_nf = halfspace.volume_and_facets(normals, energies, ref_v, tol=0.1 * rt)
    scale = float(np.abs(energies).max())
    try:
        w = WulffConstruction(np.array(normals), np.array(energies))
        V = np.asarray(w.wulff_vertices, dtype=float)
    except Exception as e:
        part.fail("raise:%s" % key, "WulffConstruction raised %s for %d facets" % (type(e).__name__, len(normals)), case)
        return
    nfail = len(part.failures)
    # every library vertex satisfies all inequalities and lies on >= 3 facets
    slack = V @ np.asarray(normals).T - np.asarray(energies)[None, :]
    worst = slack.max() / scale
    part.dev("inequality_violation", max(worst, 0.0))
    if not (worst <= 1e-7):
        part.fail("vertex-outside:%s" % key, "a vertex violates a facet inequality by %.3g (relative)" % worst, case)
    nb = (np.abs(slack) < rt * scale).sum(axis=1)
    if (nb < 3).any():
        part.fail("vertex-not-on-3-facets:%s" % key, "%d vertex/vertices lie on fewer than three facets" % int((nb < 3).sum()), case)
    # facet membership lists: every vertex listed for facet i lies on plane i, and every vertex on plane i that bounds a
    # facet of non-zero area is listed there
    try:
        F = w.wulff_facets
        if len(F) != len(normals):
            part.fail("facet-lists:%s" % key, "%d facet lists for %d facets" % (len(F), len(normals)), case)
        else:
            for i, lst in enumerate(F):
                lst = list(lst)
                if lst and not (np.abs(V[lst] @ np.asarray(normals)[i] - energies[i]).max() <= rt * scale):
                    part.fail("facet-membership:%s" % key, "facet %d lists a vertex that does not lie on its plane" % i, case)
                    break
                on_ref = ref_v[np.abs(ref_v @ np.asarray(normals)[i] - energies[i]) < 0.1 * rt * scale]
                if len(on_ref) >= 3 and len(lst):
                    listed = halfspace.dedupe(V[lst], rt * scale)
                    if len(listed) != len(on_ref):
                        part.fail("facet-vertices:%s" % key, "facet %d lists %d distinct vertices, the half-space intersection has %d on that plane" % (i, len(listed), len(on_ref)), case)
                        break
                    if len(lst) != len(listed):
                        # a facet polygon names each of its corners once (a corner listed twice gives collapsed triangles and an open mesh)
                        part.fail("facet-corner-listed-twice:%s" % key, "facet %d lists %d vertices for a polygon with %d corners (a corner is listed more than once)" % (i, len(lst), len(listed)), case)
                        break
    except Exception as e:
        part.fail("facet-lists-raise:%s" % key, "reading wulff_facets raised %r" % e, case)
    lib_v = halfspace.dedupe(V, rt * scale)
    # set equality with the reference
    def subset(X, Y):
        if len(X) == 0:
            return True
        if len(Y) == 0:
            return False
        d = np.abs(X[:, None, :] - Y[None, :, :]).max(axis=2).min(axis=1)
        return bool((d < rt * scale).all())

    if not (subset(lib_v, ref_v) and subset(ref_v, lib_v)):
        part.fail("vertex-set:%s" % key, "vertex set differs from the half-space intersection: %d distinct library vertices vs %d reference vertices"
                  % (len(lib_v), len(ref_v)), case)
    # mesh
    try:
        tm = w.to_trimesh()
        mv, mf, ndeg = mesh.merge_vertices(np.asarray(tm.vertices), np.asarray(tm.faces), rt * scale)
        # drop zero-area triangles (collinear after merging)
        a, b, c = mv[mf[:, 0]], mv[mf[:, 1]], mv[mf[:, 2]]
        area = 0.5 * np.linalg.norm(np.cross(b - a, c - a), axis=1)
        rep = mesh.manifold_report(mf, len(mv))
        if not rep["ok"]:
            part.fail("mesh-%s:%s" % ("open" if "closed" in rep["reason"] else "orientation" if "more than once" in rep["reason"] else "invalid", key),
                      "mesh: %s" % rep["reason"], case)
        else:
            sv = mesh.signed_volume(mv, mf)
            part.dev("volume_rel", abs(abs(sv) - ref_vol) / ref_vol)
            if sv <= 0:
                part.fail("mesh-inward:%s" % key, "faces are oriented inwards (signed volume %.6g)" % sv, case)
            if not (abs(abs(sv) - ref_vol) <= 1e-7 * ref_vol):
                part.fail("volume:%s" % key, "mesh volume %.9g differs from the half-space intersection's %.9g" % (abs(sv), ref_vol), case)
        # a caller may do what it likes with the mesh it was handed (scale it, move it): asking the construction again gives the
        # shape again, and the vertex list of the construction is untouched
        V_before = np.array(w.wulff_vertices, dtype=float, copy=True)
        tm.vertices *= 2.5
        tm.vertices += np.array([3.0, -1.0, 0.5])
        tm2 = w.to_trimesh()
        mv2, mf2, _ = mesh.merge_vertices(np.asarray(tm2.vertices), np.asarray(tm2.faces), rt * scale)
        part.tr()
        if len(mv2) != len(mv) or not (subset(mv2, mv) and subset(mv, mv2)) or not (abs(abs(mesh.signed_volume(mv2, mf2)) - abs(mesh.signed_volume(mv, mf))) <= 1e-7 * ref_vol) \
                or not (np.abs(np.asarray(w.wulff_vertices, dtype=float) - V_before).max() <= 0):
            part.fail("mesh-follows-callers-edits:%s" % key, "after the caller scaled and moved the mesh returned by to_trimesh(), a second to_trimesh() / wulff_vertices no longer describe the shape", case)
    except Exception as e:
        part.fail("mesh-raise:%s" % key, "to_trimesh / mesh check raised %r" % e, case)
    nn = np.asarray(normals)
    if np.array_equal(nn, np.rint(nn)):
        # axis-aligned directions written the natural way - an integer array, nested tuples, energies as a list - describe the same shape
        for cname, nrm, en in (("int-array", nn.astype(np.int64), np.array(energies)), ("tuples+list", tuple(tuple(int(x) for x in r) for r in nn), [float(e) for e in energies])):
            part.tr()
            try:
                w3 = WulffConstruction(nrm, en)
                v3 = halfspace.dedupe(np.asarray(w3.wulff_vertices, dtype=float), rt * scale)
                if not (subset(v3, lib_v) and subset(lib_v, v3)):
                    part.fail("container-dependence:%s:%s" % (cname, key), "normals given as %s give another vertex set than the same normals as floats (%d vs %d vertices)" % (cname, len(v3), len(lib_v)), case)
            except Exception as e:
                part.fail("container-raise:%s:%s" % (cname, key), "WulffConstruction with normals given as %s raised %r" % (cname, e), case)
    if scale_test:
        for s in (0.5, 3.0, 1.0e3, 1.0e-3):   # the shape is scale free: absolute magnitudes of the energies must not matter
            part.tr()
            try:
                w2 = WulffConstruction(np.array(normals), np.array(energies) * s)
                v2 = halfspace.dedupe(np.asarray(w2.wulff_vertices, dtype=float), rt * scale * s)
                if not (subset(v2 / s, lib_v) and subset(lib_v, v2 / s)):
                    part.fail("scaling:%s" % key, "scaling all energies by %g does not scale the vertex set by %g" % (s, s), case)
            except Exception as e:
                part.fail("scaling-raise:%s" % key, "WulffConstruction with scaled energies raised %r" % e, case)
    part.outcome((len(ref_v), ref_nf))
    part.nstates(1)
    return len(part.failures) == nfail


def corner_family_worker(part, _):
    """
    {100} + {111} facets at the cuboctahedron ratio e111 = 2/sqrt(3) e100 (and at the truncated-octahedron / truncated-cube ratios): corners
    where FOUR facets meet, whose copies computed from different facet triples differ in the last bits.  The overall size runs over values
    whose corner coordinates fall on, just below and just above multiples of 5e-6 and 1e-5 (where a de-duplication by rounding to a grid
    would split a corner), and over generic sizes.
    """
    ax100 = [(1, 0, 0), (0, 1, 0), (0, 0, 1)]
    ax111 = [(1, 1, 1), (1, 1, -1), (1, -1, 1), (-1, 1, 1)]
    for ratio_name, ratio in (("cuboctahedron", 2.0 / np.sqrt(3.0)), ("truncated-octahedron", 1.5 / np.sqrt(3.0) * 1.0), ("truncated-cube", 2.4 / np.sqrt(3.0))):
        for size in (1.0, 1.000005, 0.999995, 1.00001, 1.0000150000001, 2.000015, 0.500005, 3.1415926, 1.2345675):
            normals, energies = [], []
            for a in ax100:
                n = unit(a)
                normals += [n, -n]
                energies += [size, size]
            for a in ax111:
                n = unit(a)
                normals += [n, -n]
                energies += [size * ratio, size * ratio]
            case = {"kind": "corner", "ratio": ratio_name, "size": size}
            check_shape(part, np.array(normals), np.array(energies), case, "corner:" + ratio_name, scale_test=False)
    part.nontriv("corner")


def vicinal_worker(part, _):
    """
    vicinal facets: a facet whose normal is a fraction of a degree (0.01 .. 2 degrees) away from another facet's, at the same or nearly the
    same energy - both planes bound the shape (stepped surfaces next to a low-index face).  On a cube, on a cuboctahedron and on a generic
    body; one vicinal facet, a symmetric pair and a ring of four round the same face
    """
    bases = {
        "cube": ([unit(a) * s for a in ((1, 0, 0), (0, 1, 0), (0, 0, 1)) for s in (1, -1)], [1.0] * 6),
        "cuboctahedron": ([unit(a) * s for a in ((1, 0, 0), (0, 1, 0), (0, 0, 1), (1, 1, 1), (1, 1, -1), (1, -1, 1), (-1, 1, 1)) for s in (1, -1)], [1.0] * 6 + [1.1] * 8),
        "generic": ([v * s for v in generic_pool(0)[:5] for s in (1, -1)], [1.0, 1.0, 1.3, 1.3, 1.0, 1.0, 1.6, 1.6, 1.2, 1.2]),
    }
    for bname, (bn, be) in bases.items():
        n0 = np.asarray(bn[0], dtype=float)
        t1 = unit(np.cross(n0, np.array([0.3, 0.5, 0.8])))
        t2 = unit(np.cross(n0, t1))
        for deg in (0.01, 0.05, 0.1, 0.2, 0.25, 0.3, 0.6, 2.0):
            d = np.tan(np.radians(deg))
            for rel in (0.0, -1e-4, 1e-5, 1e-3):
                for family, tangents in (("one", [t1]), ("pair", [t1, -t1]), ("ring", [t1, -t1, t2, -t2])):
                    if rel == 0.0 and family != "one":
                        # at exactly equal energies a pair leaves of the face between them a strip ~1e-4 wide whose corners lie within the
                        # reference's own 1e-7 plane tolerance of the neighbouring facets: outside what the reference can decide
                        continue
                    normals = [np.asarray(x, dtype=float) for x in bn] + [unit(n0 + d * t) for t in tangents]
                    energies = list(be) + [be[0] * (1.0 + rel)] * len(tangents)
                    case = {"kind": "vicinal"}
                    check_shape(part, np.array(normals), np.array(energies), case, "vicinal:%s:%s" % (bname, family), scale_test=False)
    part.nontriv("vicinal")


def small_facet_worker(part, _):
    """
    a facet much smaller than the crystal: a cube of size E with one corner (or all eight) cut by a {111} plane that leaves a triangle of
    relative edge 1e-3 .. 3e-7 - at sizes where that triangle is still far larger than any absolute tolerance (E = 1e3: 1 .. 3e-4
    in absolute terms).  Compared at a resolution of 1e-9 of the size
    """
    ax = [unit(a) * s for a in ((1, 0, 0), (0, 1, 0), (0, 0, 1)) for s in (1, -1)]
    for E, rels in ((1.0, (1e-3, 1e-4)), (1e3, (1e-3, 1e-4, 1e-5, 1e-6, 3e-7)), (2.5e4, (1e-4, 1e-6, 1e-8))):
        for rel in rels:
            for corners in ("one", "all"):
                d = rel * E
                cs = [(1, 1, 1)] if corners == "one" else list(itertools.product((1, -1), repeat=3))
                normals = list(ax) + [unit(c) for c in cs]
                energies = [E] * 6 + [(3 * E - d) / np.sqrt(3.0)] * len(cs)
                case = {"kind": "small-facet"}
                check_shape(part, np.array(normals), np.array(energies), case, "small-facet:%s" % corners, scale_test=False, rt=1e-9)
    part.nontriv("small-facet")


def duplicate_worker(part, _):
    """
    special values: a facet listed TWICE (the same normal and energy - what a symmetry expansion that does not filter duplicates hands
    over), at the start, in the middle, at the end of the list; on a cube, a cuboctahedron, a generic body; also the same normal twice
    with different energies (the farther plane is redundant).  The shape is that of the list without the repetition
    """
    bodies = {
        "cube": ([unit(a) * s for a in ((1, 0, 0), (0, 1, 0), (0, 0, 1)) for s in (1, -1)], [1.0, 1.2, 0.9, 1.1, 1.3, 1.0]),
        "cuboctahedron": ([unit(a) * s for a in ((1, 0, 0), (0, 1, 0), (0, 0, 1), (1, 1, 1), (1, 1, -1), (1, -1, 1), (-1, 1, 1)) for s in (1, -1)], [1.0] * 6 + [2.0 / np.sqrt(3.0)] * 8),
        "generic": ([v * s for v in generic_pool(0)[:5] for s in (1, -1)], [1.0, 1.0, 1.3, 1.3, 1.0, 1.0, 1.6, 1.6, 1.2, 1.2]),
    }
    for bname, (bn, be) in bodies.items():
        n = len(bn)
        for which in (0, n // 2, n - 1):
            for at in (0, 1, n // 2, n):
                for de in (0.0, 0.5):
                    normals = [np.asarray(x, dtype=float) for x in bn]
                    energies = list(be)
                    normals.insert(at, np.asarray(bn[which], dtype=float).copy())
                    energies.insert(at, be[which] + de)
                    check_shape(part, np.array(normals), np.array(energies), {"kind": "duplicate"}, "duplicate:%s:%s" % (bname, "equal" if de == 0 else "farther"), scale_test=False)
    part.nontriv("duplicate")


def minimal_worker(part, _):
    """
    the smallest bounded shapes (the statement covers any facet set that bounds a finite region; these lie below the 6-normal
    centrosymmetric sets of the quantifier and are cheap): tetrahedra - regular, irregular, rotated, with redundant far facets added -
    a triangular prism, a square pyramid, an octahedron with one vertex cut
    """
    tet = [unit(v) for v in ((1, 1, 1), (1, -1, -1), (-1, 1, -1), (-1, -1, 1))]
    Q = rot((1, 2, 3), 0.7)
    shapes = {
        "tetrahedron": (tet, [1.0] * 4),
        "tetrahedron-irregular": (tet, [1.0, 1.3, 0.8, 1.7]),
        "tetrahedron-rotated": ([Q @ v for v in tet], [1.0, 1.2, 0.9, 1.1]),
        "tetrahedron-skew": ([unit(v) for v in ((1, 0.2, 0.1), (-0.5, 1, 0.3), (-0.4, -0.8, 1), (-0.1, -0.3, -1))], [1.0, 1.1, 0.9, 1.2]),
        "tetrahedron+redundant": (tet + [unit((1, 0, 0)), unit((0, -1, 0))], [1.0] * 4 + [9.0, 9.0]),
        "triangular-prism": ([unit(v) for v in ((1, 0, 0), (-0.5, 0.8660254037844386, 0), (-0.5, -0.8660254037844386, 0), (0, 0, 1), (0, 0, -1))], [1.0, 1.0, 1.0, 1.5, 1.5]),
        "square-pyramid": ([unit(v) for v in ((1, 0, 1), (-1, 0, 1), (0, 1, 1), (0, -1, 1), (0, 0, -1))], [1.0, 1.0, 1.0, 1.0, 0.7]),
    }
    for sname, (nrm, en) in shapes.items():
        for scale in (1.0, 37.0):
            check_shape(part, np.array([np.asarray(v, dtype=float) for v in nrm]), np.array(en) * scale, {"kind": "minimal"}, "minimal:%s" % sname.split("-")[0].split("+")[0], scale_test=(scale == 1.0))
    part.nontriv("minimal")


def axis_worker(part, chunk, alphabet):
    if chunk and chunk[0] == "minimal":
        minimal_worker(part, None)
        return
    if chunk and chunk[0] == "duplicate":
        duplicate_worker(part, None)
        return
    if chunk and chunk[0] == "small-facet":
        small_facet_worker(part, None)
        return
    if chunk and chunk[0] == "corner":
        corner_family_worker(part, None)
        return
    if chunk and chunk[0] == "vicinal":
        vicinal_worker(part, None)
        return
    for idx, assign, extra in chunk:
        normals, energies = build_axis_case(assign, alphabet, extra)
        case = {"kind": "axis", "assign": list(assign), "alphabet": list(alphabet), "extra": [[list(a), e] for a, e in extra]}
        if len(normals) == 0:
            continue
        check_shape(part, normals, energies, case, "axis" + ("+110" if extra else ""), scale_test=(idx % 50 == 0))
    part.nontriv(repr(chunk[0][1]) if chunk else "")


def generic_worker(part, chunk, seed):
    pool = generic_pool(seed)
    for idx, subset, pattern in chunk:
        normals, energies = [], []
        for j, k in enumerate(subset):
            e = (1.0, 1.5, 2.0)[(pattern + j * (pattern + 1)) % 3] if pattern > 0 else 1.0
            normals += [pool[k], -pool[k]]
            energies += [e, e]
        case = {"kind": "generic", "subset": list(subset), "pattern": pattern, "seed": seed}
        check_shape(part, np.array(normals), np.array(energies), case, "generic", scale_test=(idx % 50 == 0))
    part.nontriv(repr(chunk[0][1]) if chunk else "")


def large_worker(part, chunk, seed):
    for n, pattern in chunk:
        # n/2 generic directions from a spiral, centrosymmetric completion
        m = n // 2
        Q = rot((2, -1, 1), 0.9 + 0.1 * seed)
        normals, energies = [], []
        for k in range(m):
            z = 1 - (k + 0.5) / m
            r = np.sqrt(max(0.0, 1 - z * z))
            phi = k * 2.399963229728653
            v = Q @ np.array([r * np.cos(phi), r * np.sin(phi), z])
            e = [1.0, 1.0 + 0.5 * ((k * 7) % 3), 1.0 + ((k * 5) % 11) / 10.0, 2.0 - ((k * 3) % 11) / 10.0][pattern]
            normals += [v, -v]
            energies += [e, e]
        case = {"kind": "large", "n": n, "pattern": pattern, "seed": seed}
        check_shape(part, np.array(normals), np.array(energies), case, "large", scale_test=True)


def run(ctx):
    from mc.core import chunked

    alphabet = (1.0, 1.3, 1.7, 2.0) if ctx.thorough else (1.0, 1.3, 2.0)
    jobs = []
    idx = 0
    for assign in itertools.product(range(len(alphabet) + 1), repeat=7):
        jobs.append((idx, assign, ()))
        idx += 1
    n_axis = len(jobs)
    if ctx.thorough:
        # {110} pairs under a deviation bound: at most two present, energies {1.1, 1.6}, on every 3^7 assignment over (absent, 1.0, 2.0)
        extras = [()]
        for k in (1, 2):
            for axes in itertools.combinations(AXES110, k):
                for es in itertools.product((1.1, 1.6), repeat=k):
                    extras.append(tuple(zip(axes, es)))
        for assign in itertools.product((0, 1, 4), repeat=7):
            for ex in extras[1:]:
                jobs.append((idx, assign, ex))
                idx += 1
    ctx.pmap(axis_worker, [["corner"], ["vicinal"], ["small-facet"], ["minimal"], ["duplicate"]] + list(chunked(jobs, max(1, len(jobs) // 256))), alphabet=alphabet)
    gjobs = []
    idx = 0
    maxk = 12 if ctx.thorough else 7
    for k in range(3, maxk + 1):
        for subset in itertools.combinations(range(12), k):
            if not ctx.thorough and k > 5 and idx % 4:
                idx += 1
                continue
            for pattern in (0, 1, 2):
                gjobs.append((idx, subset, pattern))
            idx += 1
    ctx.pmap(generic_worker, chunked(gjobs, max(1, len(gjobs) // 128)), seed=ctx.seed)
    # every (even) facet count of an interval (a blocked facet / vertex table that mishandles some remainder has nowhere to hide below
    # the bound): quick one energy pattern per count in rotation, thorough all four
    ljobs = [(n, p) for n in (30, 60) for p in range(4)]
    ljobs += [(n, p) for n in range(8, 121 if ctx.thorough else 101, 2) for p in (range(4) if ctx.thorough else ((n // 2) % 4,)) if (n, p) not in ljobs]
    ctx.pmap(large_worker, [[j] for j in ljobs], seed=ctx.seed)
    ctx.rule = ("axis-aligned: all %d assignments of {absent, %s} to the 7 axis pairs of {100}+{111}%s; generic: subsets of a pool of 12 generic "
                "normals (sizes 3..%d, centrosymmetric completion) x 3 energy patterns; 30- and 60-facet generic sets x 4 energy patterns, generic sets of EVERY even facet count 8..%d; energy "
                "scaling on every 50th case; distinct = facet sets that bound a finite region"
                % (n_axis, ", ".join(map(str, alphabet)), " + {110} pairs (<= 2 present) on every 3^7 assignment" if ctx.thorough else "", maxk, 120 if ctx.thorough else 100))
    ctx.bounds = {"axis_cases": len(jobs), "generic_cases": len(gjobs), "energies": list(alphabet)}
    ctx.assumptions = ["vertex coincidence tolerance 1e-6 x max energy; volume tolerance 1e-7 relative; unbounded facet sets (rank < 3) skipped and counted"]
    ctx.sample({"axis_case": list(jobs[1234 % len(jobs)][1]), "generic_case": list(gjobs[0][1])})


def replay(ctx, case):
    k = case["kind"]
    if k == "axis":
        axis_worker(ctx, [(0, tuple(case["assign"]), tuple((tuple(a), e) for a, e in case["extra"]))], tuple(case["alphabet"]))
    elif k == "vicinal":
        vicinal_worker(ctx, None)
    elif k == "small-facet":
        small_facet_worker(ctx, None)
    elif k == "minimal":
        minimal_worker(ctx, None)
    elif k == "duplicate":
        duplicate_worker(ctx, None)
    elif k == "corner":
        corner_family_worker(ctx, None)
    elif k == "generic":
        generic_worker(ctx, [(0, tuple(case["subset"]), case["pattern"])], case["seed"])
    else:
        large_worker(ctx, [(case["n"], case["pattern"])], case["seed"])

"""
C12 - unit-cell geometry is self-consistent however the cell was specified.

Lattice of inputs enumerated completely: lengths {1, 2.5, 7.3, 31.7, 100}^3 x angles on a 5 degree
(thorough) / 10 degree (quick) grid in [20, 160]^3 filtered to positive volume with
sqrt(det G)/abc >= 0.02, both angle units, both construction routes, rotated / left-handed vector
input, all named constructors.
"""
import itertools
import math

import numpy as np

from mc.ref import lattice

PROPERTY = "C12"
LEVEL = "exploration"

LENGTHS = (1.0, 2.5, 7.3, 31.7, 100.0)
TOL = 1e-9
PTS = np.array([[0.0, 0.0, 0.0], [1.0, 0.0, 0.0], [0.0, 1.0, 0.0], [0.0, 0.0, 1.0], [0.31, -1.27, 2.53], [-7.5, 0.125, 0.9]])


def rt(text):
    """the same text as a string object created at run time (read from a file, a config, .lower() ...): equal to the literal, not identical to it"""
    return "".join(list(text))


def rotations():
    from mc.ref.mol import rot

    octa = []
    for perm in itertools.permutations(range(3)):
        for signs in itertools.product((1, -1), repeat=3):
            M = np.zeros((3, 3))
            for i, p in enumerate(perm):
                M[i, p] = signs[i]
            if not (abs(np.linalg.det(M) - 1) >= 1e-9):
                octa.append(M)
    return octa + [rot((1, 2, 3), 0.7), rot((-2, 1, 0.5), 2.1)]


def ref_geometry(a, b, c, al, be, ga):
    M = lattice.cell_matrix(a, b, c, al, be, ga)
    return M


def angle(u, v):
    return math.degrees(math.acos(max(-1.0, min(1.0, float(np.dot(u, v) / (np.linalg.norm(u) * np.linalg.norm(v)))))))


def check_cell(part, uc, params, how, case, frame_free=False):
    """all self-consistency statements of the property on one UnitCell object; params in degrees"""
    a, b, c, al, be, ga = params
    key = how
    scale = max(a, b, c)
    D = np.asarray(uc.direct, dtype=float)
    I = np.asarray(uc.inverse, dtype=float)
    nfail = len(part.failures)

    def bad(name, dev, what):
        part.dev(name, dev)
        if not dev <= TOL:
            part.fail("%s:%s" % (name, key), "%s (rel. dev %.3g) for cell %s built via %s" % (what, dev, tuple(round(x, 6) for x in params), how), case)

    # direct . inverse = I
    bad("inverse", np.abs(D @ I - np.eye(3)).max(), "direct @ inverse != identity")
    # round trip of coordinates
    cart = uc.to_cartesian(PTS)
    back = uc.to_fractional(cart)
    bad("roundtrip", np.abs(back - PTS).max() / 10.0, "to_fractional(to_cartesian(x)) != x")
    bad("to_cartesian", np.abs(cart - PTS @ D).max() / (10 * scale), "to_cartesian is not x @ direct")
    # one position: as a bare (3,) vector, as a (1,3) array, as a list of three numbers - the same point
    try:
        one_c = [np.asarray(uc.to_cartesian(v), dtype=float).reshape(-1) for v in (PTS[1], PTS[1:2], list(PTS[1]))]
        one_f = [np.asarray(uc.to_fractional(v), dtype=float).reshape(-1) for v in (cart[1], cart[1:2], list(cart[1]))]
        bad("single-position", max(max(np.abs(v - PTS[1] @ D).max() for v in one_c) / (10 * scale), max(np.abs(v - PTS[1]).max() for v in one_f) / 10.0),
            "to_cartesian / to_fractional of ONE position (given as a (3,) vector, a (1,3) array or a list) differ from the same row of an (N,3) array")
    except Exception as e:
        part.fail("single-position-raise:%s" % key, "to_cartesian / to_fractional of one position raised %r (cell built via %s)" % (e, how), case)
    # row norms / angles = reported parameters
    ln = np.linalg.norm(D, axis=1)
    bad("lengths", np.abs(ln - np.array([a, b, c])).max() / scale, "lattice-vector lengths differ from a, b, c")
    bad("reported-lengths", max(abs(uc.a - a), abs(uc.b - b), abs(uc.c - c)) / scale, "reported a, b, c differ")
    angs = (angle(D[1], D[2]), angle(D[0], D[2]), angle(D[0], D[1]))
    sens = max(1.0 / max(math.sin(math.radians(x)), 1e-3) for x in (al, be, ga))
    bad("angles", max(abs(x - y) for x, y in zip(angs, (al, be, ga))) / (57.3 * sens * 10), "inter-vector angles differ from alpha, beta, gamma")
    bad("reported-angles", max(abs(uc.alpha_deg - al), abs(uc.beta_deg - be), abs(uc.gamma_deg - ga)) / (57.3 * sens * 10), "reported angles differ")
    p = np.asarray(uc.parameters, dtype=float)
    bad("parameters", max(np.abs(p[:3] - [a, b, c]).max() / scale, np.abs(p[3:] - [al, be, ga]).max() / 57.3) / 1e3, "parameters vector differs (beyond its documented 1e-6 snapping)")
    # volume = |det|
    vol = abs(np.linalg.det(D))
    bad("volume", abs(uc.volume() - vol) / vol, "volume() != |det(direct)|")
    # reciprocal quantities
    Rl = np.asarray(uc.reciprocal_lattice, dtype=float)
    bad("reciprocal", np.abs(Rl @ D.T - np.eye(3)).max(), "reciprocal_lattice rows are not dual to the lattice vectors")
    rn = np.linalg.norm(Rl, axis=1)
    bad("star-lengths", max(abs(uc.a_star - rn[0]) / rn[0], abs(uc.b_star - rn[1]) / rn[1], abs(uc.c_star - rn[2]) / rn[2]), "a*, b*, c* differ from the reciprocal vector lengths")
    sa = (angle(Rl[1], Rl[2]), angle(Rl[0], Rl[2]), angle(Rl[0], Rl[1]))
    got = tuple(math.degrees(x) for x in (uc.alpha_star, uc.beta_star, uc.gamma_star))
    sens2 = max(1.0 / max(math.sin(math.radians(x)), 1e-3) for x in sa)
    bad("star-angles", max(abs(x - y) for x, y in zip(got, sa)) / (57.3 * sens2 * 100), "alpha*, beta*, gamma* differ from the angles between reciprocal vectors")
    for nm, v, w in (("v_a_star", uc.v_a_star, Rl[0]), ("v_b_star", uc.v_b_star, Rl[1]), ("v_c_star", uc.v_c_star, Rl[2])):
        bad("star-vectors", np.abs(np.asarray(v) - w).max() / np.abs(w).max(), "%s is not the reciprocal lattice vector" % nm)
    if not frame_free:
        M = lattice.cell_matrix(a, b, c, al, be, ga)
        bad("frame", np.abs(D - M).max() / scale, "direct matrix differs from the a-along-x, b-in-xy convention")
    return len(part.failures) == nfail


def grid_worker(part, chunk, unit_rad):
    from chmpy.crystal.unit_cell import UnitCell

    rots = rotations()
    for idx, (a, b, c, al, be, ga) in chunk:
        params = (a, b, c, al, be, ga)
        case = {"kind": "grid", "params": list(params)}
        part.ev()
        part.tr(2)
        try:
            u1 = UnitCell.from_lengths_and_angles([a, b, c], [al, be, ga], unit="degrees" if (int(a * 10) + int(al)) % 2 else rt("degrees"))
            ok = check_cell(part, u1, params, "lengths+angles(degrees)", case)
            if idx % 7 == 0:
                import copy
                import pickle

                for cname, dup in (("copy", copy.copy), ("deepcopy", copy.deepcopy), ("pickle", lambda x: pickle.loads(pickle.dumps(x)))):
                    check_cell(part, dup(u1), params, "lengths+angles(degrees)+" + cname, case)
                # the unit handed over positionally (third argument), as the documented signature (lengths, angles, unit) allows
                check_cell(part, UnitCell.from_lengths_and_angles([a, b, c], [al, be, ga], "degrees"), params, "lengths+angles(positional unit)", case)
                check_cell(part, UnitCell.from_lengths_and_angles([a, b, c], list(np.radians([al, be, ga]))), params, "lengths+angles(default unit)", case)
            if unit_rad:
                u1r = UnitCell.from_lengths_and_angles([a, b, c], list(np.radians([al, be, ga])), unit="radians" if (int(b * 10) + int(be)) % 2 else rt("radians"))
                check_cell(part, u1r, params, "lengths+angles(radians)", case)
            # vector route
            M = lattice.cell_matrix(*params)
            u2 = UnitCell(M.copy())
            check_cell(part, u2, params, "vectors", case)
            # both routes agree
            dev = max(np.abs(np.asarray(u1.direct) - np.asarray(u2.direct)).max() / max(a, b, c), abs(u1.volume() - u2.volume()) / u1.volume(),
                      np.abs(np.asarray(u1.inverse) - np.asarray(u2.inverse)).max() * min(a, b, c) / 1e3)
            part.dev("routes", dev)
            if not (dev <= 1e-8):
                part.fail("routes-disagree", "the two construction routes give different geometry (dev %.3g) for %s" % (dev, params), case)
            if idx % 50 == 0:
                for ri, Q in enumerate(rots):
                    part.tr()
                    u3 = UnitCell(M @ Q.T)
                    check_cell(part, u3, params, "rotated-vectors", dict(case, rot=ri), frame_free=True)
                # left-handed: swap two vectors -> parameters permuted
                Ml = M[[1, 0, 2]]
                u4 = UnitCell(Ml.copy())
                check_cell(part, u4, (b, a, c, be, al, ga), "left-handed-vectors", dict(case, lh=True), frame_free=True)
        except Exception as e:
            part.fail("raise:grid", "UnitCell construction/check raised %r for %s" % (e, params), case)
        part.outcome((round(al), round(be), round(ga)) if idx % 7 == 0 else "cell")
    part.nstates(len(chunk))


def named_worker(part, _):
    from chmpy.crystal.unit_cell import UnitCell

    L = (1.0, 7.3, 31.7)
    cases = []
    for a in L:
        cases.append(("cubic", (a,), (a, a, a, 90, 90, 90), {}))
        for c in L:
            if c != a:
                cases.append(("tetragonal", (a, c), (a, a, c, 90, 90, 90), "units"))
                cases.append(("hexagonal", (a, c), (a, a, c, 90, 90, 120), "units"))
            for b in L:
                if len({a, b, c}) == 3:
                    cases.append(("orthorhombic", (a, b, c), (a, b, c, 90, 90, 90), {}))
                    for be in (65.0, 97.3, 125.0):
                        cases.append(("monoclinic", (a, b, c, be), (a, b, c, 90, be, 90), "units-angle3"))
                    for (al, be, ga) in ((81.0, 97.0, 104.0), (60.0, 65.0, 115.0), (113.1, 113.1, 113.1)):
                        cases.append(("triclinic", (a, b, c, al, be, ga), (a, b, c, al, be, ga), "units-angle3:"))
        for al in (50.0, 77.0, 113.1):
            cases.append(("rhombohedral", (a, al), (a, a, a, al, al, al), "units-angle1"))
    for name, args, params, units in cases:
        variants = [("default-radians", {}, True)] if units else [("plain", {}, False)]
        if units:
            variants.append(("degrees", {"unit": "degrees"}, False))
            variants.append(("degrees-runtime-string", {"unit": rt("degrees")}, False))
            variants.append(("radians-runtime-string", {"unit": rt("radians")}, True))
        for vname, kw, rad in variants:
            call = list(args)
            if units and rad:
                # default unit is radians: angular arguments converted
                if name == "monoclinic":
                    call[3] = math.radians(call[3])
                elif name == "triclinic":
                    call[3:] = [math.radians(x) for x in call[3:]]
                elif name == "rhombohedral":
                    call[1] = math.radians(call[1])
            case = {"kind": "named", "name": name, "args": list(args), "variant": vname}
            part.ev()
            part.tr()
            for how, fn in (("direct", lambda: getattr(UnitCell, name)(*call, **kw)),
                            ("from_unique_parameters", lambda: UnitCell.from_unique_parameters(tuple(call), cell_type=name, **kw))):
                if how == "from_unique_parameters" and kw:
                    continue  # from_unique_parameters does not forward keyword arguments (documented signature)
                try:
                    uc = fn()
                    check_cell(part, uc, tuple(float(x) for x in params), "%s:%s:%s" % (name, vname, how), case, frame_free=True)
                except Exception as e:
                    part.fail("raise:named:%s:%s:%s" % (name, vname, how), "UnitCell.%s%s (%s) raised %r" % (name, tuple(call), vname, e), case)
            part.outcome((name, vname))
            part.state((name, tuple(args), vname))


def argument_forms_worker(part, _):
    """
    the same lattice handed over in every form a caller holds it in: integer arrays (lattice vectors with whole-number components are the
    usual textbook example - and oblique ones are the interesting case), Fortran order, a non-contiguous
    view, a read-only array; through the constructor and through set_vectors.  The cell is the one those numbers describe
    """
    from chmpy.crystal.unit_cell import UnitCell

    mats = [np.array(m) for m in ([[5, 0, 0], [0, 6, 0], [0, 0, 7]], [[5, 0, 0], [2, 6, 0], [1, -2, 7]], [[4, 0, 0], [-2, 5, 0], [0, 0, 9]], [[6, 0, 0], [0, 7, 0], [-3, 0, 8]],
                                   [[3, 1, 0], [-1, 4, 1], [1, 0, 5]], [[10, 0, 0], [5, 9, 0], [5, 3, 8]], [[1, 0, 0], [0, 1, 0], [0, 0, 1]], [[2, 0, 0], [1, 2, 0], [1, 1, 2]])]
    forms = {
        "int64": lambda m: m.astype(np.int64), "int32": lambda m: m.astype(np.int32), "uint8-where-possible": lambda m: m.astype(np.uint8) if m.min() >= 0 else m.astype(np.int16),
        "float64": lambda m: m.astype(np.float64),      # (lists / tuples are not accepted - the documented type is an array; float32 gives float32 accuracy: neither is demanded)
        "fortran-order": lambda m: np.asfortranarray(m.astype(np.float64)), "strided-view": lambda m: np.repeat(np.repeat(m.astype(np.float64), 2, axis=0), 2, axis=1)[::2, ::2],
        "read-only-int": lambda m: _readonly(m.astype(np.int64)), "read-only-float": lambda m: _readonly(m.astype(np.float64)),
    }
    for mi, m in enumerate(mats):
        D = m.astype(float)
        ln = np.linalg.norm(D, axis=1)
        params = (ln[0], ln[1], ln[2], angle(D[1], D[2]), angle(D[0], D[2]), angle(D[0], D[1]))
        for fname, conv in forms.items():
            for route in ("constructor", "set_vectors"):
                part.ev()
                part.tr()
                case = {"kind": "argforms"}
                arg = conv(m)
                keep = np.array(arg, dtype=float).copy()
                try:
                    if route == "constructor":
                        uc = UnitCell(arg)
                    else:
                        uc = UnitCell(np.eye(3) * 3.0)
                        uc.set_vectors(arg)
                    ok = check_cell(part, uc, params, "vectors-as-%s:%s" % (fname, route), case, frame_free=True)
                    if ok and not (np.abs(np.asarray(uc.direct, dtype=float) - D).max() <= 1e-6 * ln.max()):
                        part.fail("argforms:direct:%s" % fname, "UnitCell from the lattice %s given as %s (%s): direct matrix %s" % (m.tolist(), fname, route, np.asarray(uc.direct).tolist()), case)
                except Exception as e:
                    part.fail("raise:argforms:%s:%s" % (fname, route), "UnitCell from the lattice %s given as %s (%s) raised %s: %s" % (m.tolist(), fname, route, type(e).__name__, str(e)[:80]), case)
                    continue
                if not np.array_equal(np.array(arg, dtype=float), keep):
                    part.fail("argforms:argument-edited:%s" % fname, "UnitCell (%s) edited the caller's lattice array given as %s" % (route, fname), case)
                part.outcome(("argforms", fname, route, mi == 0))
        part.state(("argforms", mi))


def special_vectors_worker(part, _):
    """
    lattice VECTORS with special values: axes permuted or turned by exactly 90 degrees (three non-zero entries, unequal lengths), edges of
    equal length with unequal angles (hexagonal a = c; monoclinic a = b = c; a supercell whose scaled edges happen to coincide), exact
    right angles in a rotated frame - the cell is the one the vectors span, whatever they look like
    """
    from chmpy.crystal.unit_cell import UnitCell
    from mc.ref.mol import rot

    Q = rot((1, 2, 3), 0.7)
    P = np.array([[0.0, 1.0, 0.0], [0.0, 0.0, 1.0], [1.0, 0.0, 0.0]])
    named = {
        "permuted-diagonal": np.array([[0.0, 5.0, 0.0], [0.0, 0.0, 6.0], [7.0, 0.0, 0.0]]),
        "quarter-turn": np.array([[0.0, -5.0, 0.0], [6.0, 0.0, 0.0], [0.0, 0.0, 7.0]]),
        "negative-diagonal": np.diag([-5.0, 6.0, -7.0]),
        "hexagonal a=c": lattice.cell_matrix(6.0, 6.0, 6.0, 90.0, 90.0, 120.0),
        "monoclinic a=b=c": lattice.cell_matrix(6.0, 6.0, 6.0, 90.0, 105.0, 90.0),
        "triclinic a=b=c": lattice.cell_matrix(6.0, 6.0, 6.0, 81.0, 97.0, 104.0),
        "supercell with equal edges": lattice.cell_matrix(6.0, 12.0, 12.0, 90.0, 105.0, 90.0) * np.array([[2.0], [1.0], [1.0]]),
        "orthorhombic rotated": lattice.cell_matrix(5.0, 6.0, 7.0, 90.0, 90.0, 90.0) @ Q.T,
        "orthorhombic permuted": lattice.cell_matrix(5.0, 6.0, 7.0, 90.0, 90.0, 90.0) @ P.T,
        "hexagonal a=c rotated": lattice.cell_matrix(6.0, 6.0, 6.0, 90.0, 90.0, 120.0) @ Q.T,
        "two equal edges, three different angles": lattice.cell_matrix(7.0, 7.0, 9.0, 80.0, 95.0, 120.0),
    }
    for nm, D in named.items():
        ln = np.linalg.norm(D, axis=1)
        params = (ln[0], ln[1], ln[2], angle(D[1], D[2]), angle(D[0], D[2]), angle(D[0], D[1]))
        for route in ("constructor", "set_vectors"):
            part.ev()
            part.tr()
            case = {"kind": "specialvec"}
            try:
                if route == "constructor":
                    uc = UnitCell(D.copy())
                else:
                    uc = UnitCell(np.eye(3) * 3.0)
                    uc.set_vectors(D.copy())
                ok = check_cell(part, uc, params, "special-vectors:%s" % route, case, frame_free=True)
                if ok and not (np.abs(np.asarray(uc.direct, dtype=float) - D).max() <= 1e-9 * ln.max()):
                    part.fail("special-vectors:direct", "UnitCell from the vectors '%s' (%s) does not keep them as its direct matrix" % (nm, route), case)
            except Exception as e:
                part.fail("raise:special-vectors:%s" % route, "UnitCell from the vectors '%s' (%s) raised %s: %s" % (nm, route, type(e).__name__, str(e)[:80]), case)
            part.outcome(("specialvec", nm, route))
        part.state(("specialvec", nm))


def point_count_worker(part, base):
    """
    coordinate conversion of EVERY number of positions 1..N (a blocked or vectorised conversion that mishandles some remainder has
    nowhere to hide below the bound): to_cartesian of the first n rows is those rows times the direct matrix, and to_fractional
    brings them back - for generic points, and for the rows given as a Fortran-ordered array
    """
    from chmpy.crystal.unit_cell import UnitCell

    uc = UnitCell.from_lengths_and_angles(list(base[:3]), list(base[3:]), unit="degrees")
    D = np.asarray(uc.direct, dtype=float)
    scale = max(base[:3])
    k = np.arange(1, 601, dtype=float)[:, None]
    P = np.mod(k * np.array([0.6180339887, 0.7548776662, 0.5698402910]), 1.0) * 3.0 - 1.0
    case = {"kind": "pointcount", "base": list(base)}
    for n in range(1, 601):
        part.ev()
        part.tr(3)
        try:
            c1 = np.asarray(uc.to_cartesian(P[:n]), dtype=float)
            c2 = np.asarray(uc.to_cartesian(np.asfortranarray(P[:n])), dtype=float)
            f1 = np.asarray(uc.to_fractional(c1), dtype=float)
        except Exception as e:
            part.fail("pointcount-raise", "conversion of %d positions raised %r" % (n, e), case)
            break
        dev = np.inf if c1.shape != (n, 3) or c2.shape != (n, 3) or f1.shape != (n, 3) else max(np.abs(c1 - P[:n] @ D).max() / (10 * scale), np.abs(c2 - P[:n] @ D).max() / (10 * scale), np.abs(f1 - P[:n]).max() / 10.0)
        part.dev("pointcount", dev if np.isfinite(dev) else 1.0)
        if not dev <= TOL:
            part.fail("pointcount:%s" % ("n>=32" if n >= 32 else "n<32"), "to_cartesian / to_fractional of %d positions differ from the rows times the direct matrix (rel. dev %.3g) in cell %s" % (n, dev, tuple(base)), case)
            break
    part.state(("pointcount", tuple(base)))
    part.outcome(("pointcount", base[3:]))


def _readonly(a):
    a.setflags(write=False)
    return a


def history_worker(part, depth):
    """
    a UnitCell is a mutable object that can be re-specified through set_lengths_and_angles / set_vectors: every sequence of
    up to `depth` re-specifications over a small alphabet of cells (with all queries evaluated after every step) must leave
    the object describing exactly the cell specified last - and two objects alive at once must not influence each other.
    """
    from chmpy.crystal.unit_cell import UnitCell
    from mc.ref.mol import rot

    cells = [(7.0, 8.0, 9.0, 81.0, 97.0, 104.0), (5.1, 11.3, 13.7, 60.0, 65.0, 115.0), (7.0, 7.0, 7.0, 90.0, 90.0, 90.0)]
    Q = rot((1, 2, 3), 0.7)
    alphabet = []
    for i, p in enumerate(cells):
        alphabet.append(("angles", i, False))
        alphabet.append(("vectors", i, False))
    alphabet.append(("vectors", 0, True))   # rotated frame
    alphabet.append(("vectors", 1, True))

    def apply(uc, letter):
        how, i, rotated = letter
        p = cells[i]
        if how == "angles":
            uc.set_lengths_and_angles(list(p[:3]), list(np.radians(p[3:])))
        else:
            M = lattice.cell_matrix(*p)
            uc.set_vectors(M @ Q.T if rotated else M.copy())
        return p, (how == "vectors" and rotated)

    # after an error: a re-specification the object refuses (two lengths instead of three, a 3x2 matrix, a string) - on the SAME object or
    # on a bystander, with the SAME angles as the valid call that follows or with others - raises, and the next valid re-specification
    # describes exactly the cell it names
    def refuse(uc, which, p):
        try:
            if which == "short-lengths":
                uc.set_lengths_and_angles(list(p[:2]), list(np.radians(p[3:])))
            elif which == "short-angles":
                uc.set_lengths_and_angles(list(p[:3]), list(np.radians(p[3:5])))
            elif which == "bad-matrix":
                uc.set_vectors(np.zeros((3, 2)))
            elif which == "classmethod-short-lengths":
                UnitCell.from_lengths_and_angles(list(p[:2]), list(p[3:]), unit="degrees")
            else:
                uc.set_lengths_and_angles("abc", list(np.radians(p[3:])))
            part.count("refused_call_answered")
        except Exception:
            pass

    for which in ("short-lengths", "short-angles", "bad-matrix", "classmethod-short-lengths", "string-lengths"):
        for i_bad in range(len(cells)):
            for k in range(len(alphabet)):
                for target in ("same-object", "bystander"):
                    part.ev()
                    part.tr(2)
                    uc = UnitCell.from_lengths_and_angles(list(cells[(i_bad + 1) % 3][:3]), list(cells[(i_bad + 1) % 3][3:]), unit="degrees")
                    by = UnitCell(np.eye(3) * 3.0)
                    refuse(uc if target == "same-object" else by, which, cells[i_bad])
                    case = {"kind": "history", "hist": []}
                    try:
                        params, free = apply(uc, alphabet[k])
                        check_cell(part, uc, tuple(float(x) for x in params), "history:%s-after-refused-%s" % (alphabet[k][0], which), case, frame_free=True)
                        fresh = UnitCell.from_lengths_and_angles(list(cells[i_bad][:3]), list(cells[i_bad][3:]), unit="degrees")
                        check_cell(part, fresh, tuple(float(x) for x in cells[i_bad]), "history:new-object-after-refused-%s" % which, case, frame_free=True)
                    except Exception as e:
                        part.fail("history:raise-after-refused", "a valid cell specification raised %r after a refused one (%s)" % (e, which), case)
    # pairwise: provenance TOGETHER WITH re-specification - the object that is re-specified is itself a copy (copy.copy, copy.deepcopy,
    # pickle round trip) of a cell built either way; afterwards it describes the cell specified last, and its source is untouched
    import copy
    import pickle

    for cname, dup in (("copy", copy.copy), ("deepcopy", copy.deepcopy), ("pickle", lambda x: pickle.loads(pickle.dumps(x)))):
        for src_route in ("angles", "vectors"):
            for k in range(len(alphabet)):
                part.ev()
                part.tr(2)
                p_src = cells[(alphabet[k][1] + 1) % 3]
                src = UnitCell.from_lengths_and_angles(list(p_src[:3]), list(p_src[3:]), unit="degrees") if src_route == "angles" else UnitCell(lattice.cell_matrix(*p_src))
                case = {"kind": "history", "hist": []}
                try:
                    uc = dup(src)
                    params, free = apply(uc, alphabet[k])
                    check_cell(part, uc, tuple(float(x) for x in params), "history:%s-of-a-%s" % (alphabet[k][0], cname), case, frame_free=True)
                    check_cell(part, src, tuple(float(x) for x in p_src), "history:source-of-a-%s" % cname, case, frame_free=True)
                except Exception as e:
                    part.fail("history:raise-on-copy", "re-specifying a %s of a UnitCell raised %r" % (cname, e), case)
    seen = set()
    for L in range(1, depth + 1):
        for hist in itertools.product(range(len(alphabet)), repeat=L):
            part.ev()
            uc = UnitCell(np.eye(3) * 3.0)
            other = UnitCell.from_lengths_and_angles([4.0, 5.0, 6.0], [80.0, 85.0, 95.0], unit="degrees")
            for step, k in enumerate(hist):
                part.tr()
                params, free = apply(uc, alphabet[k])
                case = {"kind": "history", "hist": list(hist[: step + 1])}
                check_cell(part, uc, tuple(float(x) for x in params), "history:%s-after-%s" % (alphabet[k][0], alphabet[hist[step - 1]][0] if step else "construction"),
                           case, frame_free=True)
                # the bystander object is untouched
                if not (abs(other.volume() - abs(np.linalg.det(np.asarray(other.direct)))) <= 1e-9 * other.volume()) or not (abs(other.a - 4.0) <= 1e-12):
                    part.fail("history:bystander", "re-specifying one UnitCell changed another one", case)
            seen.add(hist[-2:])
    part.nstates(len(seen))
    part.outcome(("history", depth))


def near_duplicate_worker(part, base):
    """
    two cells whose parameters differ by less than any sensible rounding (angles by 1e-7 .. 5e-3 degrees, lengths by 1e-6
    relative) built one after the other in one process, in either order and through either route: each object describes
    exactly ITS parameters (anything shared between cells - tables keyed by rounded parameters - would show here)
    """
    import importlib
    import chmpy.crystal.unit_cell as ucmod

    a, b, c, al, be, ga = base
    variants = []
    for d in (2e-3, -4e-3, 4.9e-3, 1e-5, 1e-7):
        variants.append((a, b, c, al + d, be, ga))
        variants.append((a, b, c, al, be - d, ga + d))
    variants.append((a * (1 + 1e-6), b, c * (1 - 1e-6), al, be, ga))
    for var in variants:
        for first, second in ((base, var), (var, base)):
            for route in ("degrees", "radians-setter", "vectors"):
                part.ev()
                importlib.reload(ucmod)
                objs = []
                for p in (first, second):
                    part.tr()
                    if route == "degrees":
                        uc = ucmod.UnitCell.from_lengths_and_angles(list(p[:3]), list(p[3:]), unit="degrees")
                    elif route == "radians-setter":
                        uc = ucmod.UnitCell(np.eye(3) * 3.0)
                        uc.set_lengths_and_angles(list(p[:3]), list(np.radians(p[3:])))
                    else:
                        uc = ucmod.UnitCell(lattice.cell_matrix(*p))
                    objs.append((uc, p))
                    for (u, q) in objs:   # the new object AND the ones built before it
                        check_cell(part, u, tuple(float(x) for x in q), "near-duplicate:%s:%s" % (route, "second" if u is not objs[0][0] else "first"),
                                   {"kind": "neardup", "base": list(base)}, frame_free=(route == "vectors"))
                part.outcome(("neardup", route, first is base))
    part.nstates(len(variants) * 6)


def run(ctx):
    from mc.core import chunked

    step = 5 if ctx.thorough else 10
    angs = list(range(20, 161, step))
    cells = []
    idx = 0
    for al, be, ga in itertools.product(angs, repeat=3):
        ca, cb, cg = (math.cos(math.radians(x)) for x in (al, be, ga))
        g = 1 - ca * ca - cb * cb - cg * cg + 2 * ca * cb * cg
        if g <= 0 or not (math.sqrt(g) >= 0.02):
            continue
        for a, b, c in itertools.product(LENGTHS if ctx.thorough else (1.0, 7.3, 100.0), repeat=3):
            cells.append((idx, (a, b, c, float(al), float(be), float(ga))))
            idx += 1
    ctx.bounds = {"lengths": list(LENGTHS) if ctx.thorough else [1.0, 7.3, 100.0], "angle_step_deg": step, "cells": len(cells), "tolerance_rel": TOL}
    ctx.rule = ("all lengths %s^3 x all angle triples on a %d degree grid in [20,160]^3 with sqrt(det G)/abc >= 0.02 (%d cells); both construction "
                "routes, radians for all, rotated (24 octahedral + 2 generic) and left-handed vector input for every 50th cell; all seven named "
                "constructors + from_unique_parameters in both angle units; distinct = cells" % (list(LENGTHS) if ctx.thorough else [1.0, 7.3, 100.0], step, len(cells)))
    ctx.assumptions = ["relative tolerance 1e-9 (angles scaled by 1/sin near 0/180 degrees); cells flatter than sqrt(det G)/abc = 0.02 excluded as degenerate"]
    ctx.pmap(grid_worker, chunked(cells, max(1, len(cells) // 128)), unit_rad=True)
    ctx.pmap(named_worker, [0])
    ctx.pmap(argument_forms_worker, [0])
    ctx.pmap(special_vectors_worker, [0])
    ctx.bounds["argument_forms"] = "8 whole-number lattices (orthogonal and oblique) x 8 array forms (integer dtypes / Fortran / strided / read-only) x {constructor, set_vectors}"
    ctx.pmap(history_worker, [3 if ctx.thorough else 2])
    bases = [(7.0, 8.0, 9.0, 81.0, 97.0, 104.0), (5.1, 11.3, 13.7, 60.0, 65.0, 115.0), (7.0, 7.0, 7.0, 90.0, 90.0, 90.0), (6.0, 6.0, 11.0, 90.0, 90.0, 120.0),
             (9.5, 9.5, 9.5, 98.432, 98.432, 98.432), (3.0, 40.0, 7.5, 90.0, 131.25, 90.0)]
    ctx.pmap(near_duplicate_worker, bases)
    ctx.pmap(point_count_worker, bases[:4])
    ctx.bounds["point_counts"] = "every number of positions 1..600 in 4 cells (to_cartesian, Fortran-ordered input, to_fractional)"
    ctx.bounds["near_duplicate_pairs"] = "%d base cells x 11 nearly equal partners (angles +-1e-7..5e-3 deg, lengths 1e-6) x both orders x 3 routes, module state reset per pair" % len(bases)
    ctx.bounds["respecification_histories"] = "all sequences of <= %d set_lengths_and_angles / set_vectors calls over 8 letters on one object" % (3 if ctx.thorough else 2)
    ctx.sample({"first_cells": [c[1] for c in cells[:3]], "n_cells": len(cells)})


def replay(ctx, case):
    if case.get("kind") == "pointcount":
        point_count_worker(ctx, tuple(case["base"]))
    elif case.get("kind") == "neardup":
        near_duplicate_worker(ctx, tuple(case["base"]))
    elif case.get("kind") == "history":
        history_worker(ctx, 3)
    elif case.get("kind") == "specialvec":
        special_vectors_worker(ctx, 0)
    elif case.get("kind") == "argforms":
        argument_forms_worker(ctx, 0)
    elif case.get("kind") == "grid":
        grid_worker(ctx, [(0, tuple(case["params"]))], True)
    else:
        named_worker(ctx, 0)

"""
C17 - element lookup is total, exact and consistent across all spellings.

Finite domain, enumerated completely in both tiers: Z = 1..103 x spelling variants, every integer in
-200..300 through every numeric route, non-elements, all 103^2 ordered pairs, formula multisets.
"""
import itertools
import os

import numpy as np

from mc.ref.elements import ELEMENTS

PROPERTY = "C17"
LEVEL = "model_checking"

SUFFIXES = ["", "A", "_F2___i", "'", "B2", "_1"]
DIGITS = ["1", "2", "10", "123"]
NON_ELEMENTS = ["Xx", "J", "Q1", "", " ", "0x", "12.5", "-3", "1e1", "A1", "Jj12", "X", "Zz", "+6", "6.0"]


def routes_for(z):
    """(route name, callable) producing an Element for atomic number z by every spelling"""
    from chmpy.core.element import Element

    sym, name = ELEMENTS[z - 1]
    r = []
    r.append(("int", lambda: Element[z]))
    r.append(("np.int64", lambda: Element[np.int64(z)]))
    r.append(("np.int32", lambda: Element[np.int32(z)]))
    r.append(("np.uint8", lambda: Element[np.uint8(z)]))
    r.append(("from_atomic_number", lambda: Element.from_atomic_number(z)))
    r.append(("decimal-string", lambda: Element[str(z)]))
    r.append(("padded-decimal-string", lambda: Element["  %d " % z]))
    r.append(("zero-padded-decimal-string", lambda: Element["%03d" % z]))
    r.append(("symbol", lambda: Element[sym]))
    r.append(("from_string", lambda: Element.from_string(sym)))
    r.append(("SYMBOL", lambda: Element[sym.upper()]))
    r.append(("symbol-lower", lambda: Element[sym.lower()]))
    r.append(("padded-symbol", lambda: Element["  %s\t" % sym]))
    r.append(("name", lambda: Element[name]))
    r.append(("Name", lambda: Element[name.capitalize()]))
    r.append(("NAME", lambda: Element[name.upper()]))
    r.append(("padded-name", lambda: Element["  %s " % name]))
    r.append(("padded-NAME-newline", lambda: Element["%s\n" % name.upper()]))
    r.append(("from_string-padded-Name-tab", lambda: Element.from_string("\t%s\t" % name.capitalize())))
    for d in DIGITS:
        for suf in SUFFIXES:
            lab = sym + d + suf
            r.append(("label", (lambda lab=lab: Element[lab])))
            r.append(("from_label", (lambda lab=lab: Element.from_label(lab))))
        # pairwise: a label (symbol + digits / suffix) TOGETHER WITH the white space a line read from a file carries (newline, CRLF,
        # blanks and tab on either side)
        for wname, fmt_ in (("newline", "%s\n"), ("crlf", "%s\r\n"), ("trailing-blanks", "%s \t"), ("newline-middle", "%s\nx")):
            r.append(("label+%s" % wname, (lambda d=d, fmt_=fmt_: Element[fmt_ % (sym + d)])))
            if True:      # (LEADING blanks before a label are not accepted by the unchanged library on either route, and are not demanded)
                r.append(("from_label+%s" % wname, (lambda d=d, fmt_=fmt_: Element.from_label(fmt_ % (sym + d + "A")))))
        r.append(("LABEL", (lambda d=d: Element[sym.upper() + d])))
        r.append(("from_label-UPPER", (lambda d=d: Element.from_label(sym.upper() + d + "_F2____1____i"))))
        r.append(("from_label-lower", (lambda d=d: Element.from_label(sym.lower() + d + "A"))))
        r.append(("label-lower", (lambda d=d: Element[sym.lower() + d])))
    return r


def check_elements(part, zs):
    from chmpy.core import element as E
    from chmpy.core.element import Element

    nth_refused = 0
    for z in zs:
        sym, name = ELEMENTS[z - 1]
        row = E._ELEMENT_DATA[z - 1]
        for rname, fn in routes_for(z):
            part.ev()
            part.tr()
            case = {"kind": "lookup", "z": z, "route": rname}
            key = "lookup:%s:%d" % (rname, z)
            try:
                e = fn()
            except Exception as ex:
                part.fail(key, "lookup of Z=%d (%s) by %s raised %s" % (z, sym, rname, type(ex).__name__), case)
                continue
            part.trace()
            if not isinstance(e, Element) or int(e.atomic_number) != z:
                part.fail(key, "lookup of Z=%d (%s) by %s returned %r (Z=%s)" % (z, sym, rname, e, getattr(e, "atomic_number", None)), case)
                continue
            if e.symbol != sym or str(e.name).lower() != name or e.name != e.name.lower():
                part.fail("identity:%d" % z, "Z=%d via %s has symbol %r name %r, expected %r %r" % (z, rname, e.symbol, e.name, sym, name), case)
            if (e.name, e.symbol, e.cov, e.vdw, e.mass) != tuple(row):
                part.fail("row:%s:%d" % (rname, z), "Z=%d via %s carries data %r, table row is %r" % (z, rname, (e.name, e.symbol, e.cov, e.vdw, e.mass), row), case)
            if e.covalent_radius != row[2] or e.vdw_radius != row[3]:
                part.fail("radii:%d" % z, "radius properties of Z=%d disagree with the table" % z, case)
            # an element that went through copy.copy / copy.deepcopy / pickle is the same element with the same tabulated data
            if rname in ("int", "symbol", "name", "from_label"):
                import copy
                import pickle

                for cname, dup in (("copy", copy.copy), ("deepcopy", copy.deepcopy), ("pickle", lambda x: pickle.loads(pickle.dumps(x)))):
                    try:
                        t = dup(e)
                        if (t.atomic_number, t.name, t.symbol, t.cov, t.vdw, t.mass) != (z,) + tuple(row) or not (t == e) or hash(t) != hash(e) or t.covalent_radius != row[2] or t.vdw_radius != row[3]:
                            part.fail("copy-route:%s:%d" % (cname, z), "Z=%d (looked up via %s) after %s carries %r, table row is %r"
                                      % (z, rname, cname, (t.atomic_number, t.name, t.symbol, t.cov, t.vdw, t.mass), (z,) + tuple(row)), case)
                    except Exception as ex:
                        part.fail("copy-route-raise:%s" % cname, "%s of Element Z=%d raised %r" % (cname, z, ex), case)
            part.outcome((rname, z % 5))
            # the caller scribbles on the object it was handed (custom radii are a common use): every later lookup, by any route, must
            # still return the tabulated data (the next routes of this loop, and the vectorised helpers below, are those lookups)
            for attr, junk in (("vdw", -1.0), ("cov", -3.0), ("mass", -2.0), ("name", "scribbled"), ("symbol", "Zz")):
                try:
                    setattr(e, attr, junk)
                except Exception:
                    pass
            # after an error: between two valid lookups (this route and the next) comes one the table refuses - a look-alike label of THIS
            # element, an empty string, an unknown symbol, a number out of range; it raises, and the next lookup is answered as above
            nth_refused += 1
            probe = ("%sq7" % sym, "Qq7", "", "%s_q" % name[:3], 0, 104, "  ", "%sQ%d" % (sym, z))[nth_refused % 8]
            for rfn in ((lambda: Element[probe]), (lambda: Element.from_label(probe) if isinstance(probe, str) else Element.from_atomic_number(probe))):
                try:
                    rfn()
                    part.count("refused_lookup_answered")
                except Exception:
                    pass
        # vectorised helpers
        arr = np.array([z, 1, z])
        try:
            cv, vd = E.cov_radii(arr), E.vdw_radii(arr)
            nm, sy = E.element_names(arr), E.element_symbols(arr)
            part.trace()
            if not (abs(cv[0] - row[2]) <= 1e-6) or not (abs(vd[2] - row[3]) <= 1e-6) or nm[0].lower() != name or sy[2] != sym or sy[1] != "H":
                part.fail("vectorised:%d" % z, "cov_radii/vdw_radii/element_names/element_symbols disagree with Element for Z=%d" % z, {"kind": "vector", "z": z})
            # degenerate sizes: ONE atom (an (1,) array), none at all, and two - one entry per atom, each what the single lookup gives
            for nm_, sub in (("one atom", np.array([z])), ("no atoms", np.array([], dtype=int)), ("two atoms", np.array([z, z]))):
                outs = [E.cov_radii(sub), E.vdw_radii(sub), E.element_names(sub), E.element_symbols(sub)]
                part.trace()
                okv = all(len(o) == len(sub) and np.ndim(o) == 1 for o in outs if not isinstance(o, (list, tuple))) and all(len(o) == len(sub) for o in outs)
                if okv and len(sub):
                    okv = abs(float(outs[0][0]) - row[2]) <= 1e-6 and abs(float(outs[1][-1]) - row[3]) <= 1e-6 and str(outs[2][0]).lower() == name and str(outs[3][-1]) == sym
                if not okv:
                    part.fail("vectorised-size:%s" % nm_, "cov_radii / vdw_radii / element_names / element_symbols of an array holding %s (Z=%d) return %r"
                              % (nm_, z, [o.tolist() if hasattr(o, "tolist") else o for o in outs]), {"kind": "vector", "z": z})
                    break
        except Exception as ex:
            part.fail("vectorised-raise:%d" % z, "vectorised helpers raised %r for Z=%d" % (ex, z), {"kind": "vector", "z": z})
        part.state(z)
        part.nontriv(z)


ARRAY_PATTERNS = ("scrambled", "molecules", "sorted", "reversed", "one-element")


def array_of(pattern, n, shift):
    """n atomic numbers: scrambled over all 103 elements, a cell in file order (copies of a small molecule), sorted, reversed, one element"""
    i = np.arange(n)
    if pattern == "scrambled":
        return (7 * i * i + 3 * i + shift) % 103 + 1
    if pattern == "molecules":
        mol = np.array([6, 6, 8, 8, 1, 1, 1, 1, 7, 16, 17, 35][: 4 + shift % 9])
        return mol[i % len(mol)]
    if pattern == "sorted":
        return np.sort((5 * i + shift) % 103 + 1)
    if pattern == "reversed":
        return np.sort((5 * i + shift) % 103 + 1)[::-1].copy()
    return np.full(n, shift % 103 + 1)


def check_arrays(part, lengths):
    """cov_radii / vdw_radii / element_names / element_symbols of an array of n atomic numbers give, atom by atom, what the single lookup of
    that atom's element gives - for EVERY length n of an interval (a grouped or chunked fast path switching on at some size has nowhere to
    hide below the bound) and five arrangements of the elements (scrambled, file order of a cell, sorted, reversed, one element)"""
    from chmpy.core import element as E
    from chmpy.core.element import Element

    single = {}
    for z in range(1, 104):
        e = Element.from_atomic_number(z)
        single[z] = (float(e.cov), float(e.vdw), str(e.name), str(e.symbol))
    for n in lengths:
        for pattern in ARRAY_PATTERNS:
            arr = array_of(pattern, n, n)
            part.ev()
            case = {"kind": "array", "n": int(n), "pattern": pattern}
            for dt in ((np.int64, np.int32) if n % 8 == 0 else (np.int64,)):
                a = arr.astype(dt)
                keep = a.copy()
                try:
                    outs = [E.cov_radii(a), E.vdw_radii(a), E.element_names(a), E.element_symbols(a)]
                except Exception as ex:
                    part.fail("array-raise:%s" % pattern, "vectorised helpers raised %r for %d atomic numbers (%s)" % (ex, n, pattern), case)
                    break
                part.trace()
                part.tr(4 * n)
                if not np.array_equal(a, keep):
                    part.fail("array-input-changed:%s" % pattern, "a vectorised helper changed the caller's array of %d atomic numbers (%s)" % (n, pattern), case)
                    break
                bad = None
                for col, o in enumerate(outs):
                    if len(o) != n:
                        bad = "%s returns %d entries for %d atoms" % (("cov_radii", "vdw_radii", "element_names", "element_symbols")[col], len(o), n)
                        break
                    for i in range(n):
                        want = single[int(a[i])][col]
                        if (abs(float(o[i]) - want) > 1e-6) if col < 2 else (str(o[i]) != want):
                            bad = "%s: atom %d (Z=%d) gets %r, the single lookup gives %r" % (("cov_radii", "vdw_radii", "element_names", "element_symbols")[col], i, int(a[i]), o[i], want)
                            break
                    if bad:
                        break
                if bad:
                    part.fail("array:%s:%s" % (pattern, "n>=64" if n >= 64 else "n<64"), "array of %d atomic numbers (%s, %s): %s" % (n, pattern, np.dtype(dt).name, bad), case)
                    break
            part.state(("array", pattern, int(n)))
        part.outcome(("array", int(n) // 32))


def check_integers(part, ns):
    from chmpy.core import element as E
    from chmpy.core.element import Element

    for n in ns:
        valid = 1 <= n <= 103
        for rname, fn in (("int", lambda: Element[n]), ("from_atomic_number", lambda: Element.from_atomic_number(n)),
                          ("np.int64", lambda: Element[np.int64(n)]), ("string", lambda: Element[str(n)]),
                          ("padded-string", lambda: Element[" %d " % n]),
                          ("zero-padded", lambda: Element["%04d" % n if n >= 0 else "-%04d" % -n]),
                          ("cov_radii", lambda: E.cov_radii(np.array([1, n]))), ("vdw_radii", lambda: E.vdw_radii(np.array([n]))),
                          ("element_names", lambda: E.element_names(np.array([n, 2]))), ("element_symbols", lambda: E.element_symbols(np.array([n])))):
            part.ev()
            part.tr()
            case = {"kind": "integer", "n": n, "route": rname}
            try:
                r = fn()
                ok = True
            except Exception:
                ok = False
                r = None
            if valid and not ok:
                part.fail("int-rejected:%s:%d" % (rname, n), "valid atomic number %d rejected via %s" % (n, rname), case)
            if not valid and ok:
                rng = "zero" if n == 0 else ("negative" if n < 0 else "above-103")
                part.fail("int-accepted:%s:%s" % (rname, rng), "number %d outside 1..103 is accepted via %s and mapped to %r" % (n, rname, r), case)
            part.outcome((rname, valid, ok))
        part.state(("n", n))


def check_non_elements(part):
    from chmpy.core.element import Element

    for s in NON_ELEMENTS + [None, 1.5, (1,), b"C"]:
        part.ev()
        part.tr()
        try:
            r = Element[s]
        except Exception:
            part.outcome(("non", "raise"))
            continue
        part.fail("non-element-accepted:%r" % (s,), "%r names no element but is mapped to %r" % (s, r), {"kind": "non", "s": repr(s)})
    part.ev()
    try:
        d = Element["D"]
        if d.atomic_number != 1:
            part.fail("deuterium", "'D' is documented to map to hydrogen, got %r" % d, {"kind": "non", "s": "D"})
    except Exception as ex:
        part.fail("deuterium", "'D' raised %r" % ex, {"kind": "non", "s": "D"})


def check_order(part):
    from chmpy.core.element import Element

    els = [Element.from_atomic_number(z) for z in range(1, 104)]
    for a in els:
        for b in els:
            part.ev()
            za, zb = a.atomic_number, b.atomic_number
            want_lt = (za != zb) and ((za == 6) or (zb != 6 and za < zb))
            got = (a < b, a > b, a <= b, a >= b, a == b, hash(a) == hash(b))
            want = (want_lt, (not want_lt) and za != zb, want_lt or za == zb, (not want_lt), za == zb, za == zb)
            if got != want:
                part.fail("order:%d:%d" % (za, zb), "ordering of %s vs %s: got %s want %s" % (a, b, got, want), {"kind": "order", "a": za, "b": zb})
    part.tr(103 * 103)
    srt = sorted(els[::-1])
    if [e.atomic_number for e in srt] != [6] + [z for z in range(1, 104) if z != 6]:
        part.fail("sorted", "sorted(elements) is not carbon first then atomic number", {"kind": "order", "a": 0, "b": 0})
    part.outcome("order")


def ref_formula(zs):
    cnt = {}
    for z in zs:
        cnt[z] = cnt.get(z, 0) + 1
    order = sorted(cnt, key=lambda z: (z != 6, z))
    return "".join(ELEMENTS[z - 1][0] + (str(cnt[z]) if cnt[z] > 1 else "") for z in order)


def brief(lst):
    return str(lst) if len(lst) <= 12 else "[%s, ... %d atoms]" % (", ".join(repr(x) for x in lst[:6]), len(lst))


def check_formulas(part, chunks):
    from chmpy.core.element import Element, chemical_formula

    for zs in chunks:
        part.ev()
        part.tr()
        els = [Element.from_atomic_number(z) for z in zs]
        try:
            got = chemical_formula(els)
        except Exception as ex:
            part.fail("formula-raise", "chemical_formula raised %r for %s" % (ex, zs), {"kind": "formula", "zs": list(zs)})
            continue
        want = ref_formula(zs)
        if got != want:
            part.fail("formula:%d" % len(zs), "chemical_formula(%s) = %r, expected %r" % (brief([ELEMENTS[z - 1][0] for z in zs]), got, want), {"kind": "formula", "zs": list(zs)})
        # the subscript variant and a list of symbol strings count every atom once as well
        try:
            sub = chemical_formula(els, subscript=True)
            plain = "".join(chr(ord("0") + ord(ch) - 0x2080) if 0x2080 <= ord(ch) <= 0x2089 else ch for ch in sub)
            if plain != want or any(ch.isascii() and ch.isdigit() for ch in sub):
                part.fail("formula-subscript:%d" % len(zs), "chemical_formula(..., subscript=True) = %r, expected %r with every count in subscript digits" % (sub, want), {"kind": "formula", "zs": list(zs)})
            syms = [ELEMENTS[z - 1][0] for z in zs]
            fs = chemical_formula(syms)
            cnt = {}
            for sy in syms:
                cnt[sy] = cnt.get(sy, 0) + 1
            wants = "".join(k + (str(cnt[k]) if cnt[k] > 1 else "") for k in sorted(cnt))
            if fs != wants:
                part.fail("formula-strings:%d" % len(zs), "chemical_formula(%s) = %r, expected %r (every symbol counted once)" % (brief(syms), fs, wants), {"kind": "formula", "zs": list(zs)})
        except Exception as ex:
            part.fail("formula-variant-raise", "chemical_formula variant raised %r for %s" % (ex, zs), {"kind": "formula", "zs": list(zs)})
        # the atoms in every container an iterable of elements comes in: tuple, object array, a generator, an iterator, a map - and a
        # molecule's own element list; each atom is counted exactly once whichever it is
        try:
            import numpy as _np

            arr = _np.empty(len(els), dtype=object)
            arr[:] = els
            forms = {"tuple": tuple(els), "object-array": arr, "generator": (e for e in els), "iterator": iter(list(els)),
                     "map": map(Element.from_atomic_number, list(zs)), "reversed-iterator": reversed(list(els))}
            for fname, container in forms.items():
                part.tr()
                gotf = chemical_formula(container)
                if gotf != want:
                    part.fail("formula-container:%s" % fname, "chemical_formula of the atoms %s given as a %s = %r, expected %r" % (brief([ELEMENTS[z - 1][0] for z in zs]), fname, gotf, want),
                              {"kind": "formula", "zs": list(zs)})
        except Exception as ex:
            part.fail("formula-container-raise", "chemical_formula of a container raised %r for %s" % (ex, zs), {"kind": "formula", "zs": list(zs)})
        part.outcome(("formula", len(set(zs)), len(zs)))


def rejection_probes():
    taken = {e[0].lower() for e in ELEMENTS} | {e[1].lower() for e in ELEMENTS} | {"d"}
    probes = []
    for sym, name in [(e[0], e[1]) for e in ELEMENTS]:
        for cand in (sym + "q1", sym + "qx", sym.lower() + "qq2", name + "1", name.capitalize() + "2", name[:-1] + "q", "x" + name):
            letters = "".join(ch for ch in cand if ch.isalpha()).lower()
            if letters not in taken:
                probes.append(cand)
    return sorted(set(probes + CLEAR_NON_ELEMENTS))


CLEAR_NON_ELEMENTS = ["Hello", "Copper2", "carbon1", "Cab1", "Nab", "Heq3"]


def rejection_history_main():
    """runs in a pristine interpreter: outcome of every probe before and after every valid lookup, as JSON on stdout"""
    import json
    from chmpy.core.element import Element

    routes = {"Element[...]": lambda s: Element[s], "from_label": Element.from_label, "from_string": Element.from_string}

    def sweep():
        out = {}
        for s in rejection_probes():
            for rname, fn in routes.items():
                try:
                    out["%s|%s" % (rname, s)] = int(fn(s).atomic_number)
                except Exception:
                    out["%s|%s" % (rname, s)] = None
        return out

    before = sweep()
    for z in range(1, 104):
        for rname, fn in routes_for(z):
            try:
                fn()
            except Exception:
                pass
    print(json.dumps({"before": before, "after": sweep()}))


def check_rejection_history(part):
    """
    the answer to a lookup must not depend on what was looked up before: ~700 strings that merely START like an element
    (symbol + extra letters, name + digit, ...) get the same answer - an element or an error - in a pristine interpreter before
    and after every valid spelling of every element has been resolved once; the clear non-elements among them are rejected
    """
    import json
    import subprocess
    import sys
    from mc.paths import REPO_SRC

    code = "import sys; sys.path[:0] = [%r, %r]; from mc.checks import c17; c17.rejection_history_main()" % (
        os.path.dirname(os.path.dirname(os.path.dirname(os.path.abspath(__file__)))), REPO_SRC)
    r = subprocess.run([sys.executable, "-B", "-c", code], capture_output=True, text=True)
    part.ev()
    if r.returncode != 0:
        part.fail("harness:rejection-history", "pristine interpreter failed: %s" % r.stderr[-300:], {"kind": "rejhist"})
        return
    res = json.loads(r.stdout.strip().split("\n")[-1])
    for k, v in res["before"].items():
        part.tr()
        rname, s = k.split("|", 1)
        if res["after"][k] != v:
            part.fail("lookup-depends-on-history:%s" % rname, "%s(%r) gives %s in a fresh interpreter and %s after every element has been looked up once"
                      % (rname, s, "an error" if v is None else "Z=%d" % v, "an error" if res["after"][k] is None else "Z=%d" % res["after"][k]), {"kind": "rejhist"})
            break
    for s in CLEAR_NON_ELEMENTS:
        for rname in ("Element[...]", "from_label", "from_string"):
            for when in ("before", "after"):
                if res[when]["%s|%s" % (rname, s)] is not None:
                    part.fail("non-element-accepted:%s:%s" % (when, rname), "%r names no element but %s maps it to Z=%d (%s the valid lookups)" % (s, rname, res[when]["%s|%s" % (rname, s)], when), {"kind": "rejhist"})
    part.outcome(("rejhist", len(res["before"])))
    part.nstates(2)


def worker(part, job):
    kind, payload = job
    if kind == "elements":
        check_elements(part, payload)
    elif kind == "integers":
        check_integers(part, payload)
    elif kind == "misc":
        check_non_elements(part)
        check_order(part)
        check_rejection_history(part)
    elif kind == "formulas":
        check_formulas(part, payload)
    elif kind == "arrays":
        check_arrays(part, payload)


def run(ctx):
    from mc.core import chunked

    jobs = [("elements", c) for c in chunked(range(1, 104), 8)]
    jobs += [("integers", c) for c in chunked(range(-200, 301), 64)]
    jobs.append(("misc", None))
    array_to = 2100 if ctx.thorough else 420
    jobs += [("arrays", c) for c in chunked(range(1, array_to + 1), 30)]
    alphabet = [1, 6, 7, 8, 9, 17, 26, 11, 92, 2, 35, 14]
    forms = []
    for k in (1, 2, 3):
        forms += [list(m) for m in itertools.combinations_with_replacement(alphabet, k)]
        if k <= 3:
            forms += [list(m)[::-1] for m in itertools.combinations_with_replacement(alphabet, k)]
    forms.append([6] * 10 + [1] * 22 + [8] * 5 + [7] * 3)
    forms.append([6] * 120 + [1] * 104 + [7] * 8 + [17])
    forms.append([8] * 11 + [6] * 12 + [1] * 22)
    for cnt in (9, 10, 11, 99, 100, 101):
        forms.append([6] * cnt + [1])
        forms.append([26] * cnt)
    forms.append([((i * 7) % 103) + 1 for i in range(40)])
    # realistic sizes: unit-cell and cluster contents run to hundreds and thousands of atoms of one element (counts round 2^8, 2^15, 2^16)
    for cnt in (255, 256, 257, 432, 1000, 32767, 32768, 65535, 65536, 70000):
        forms.append([14] * (cnt // 2) + [8] * cnt)
        forms.append([6] * cnt)
    forms.append([8] * 432 + [14] * 216)
    jobs += [("formulas", c) for c in chunked(forms, 200)]
    nroutes = len(routes_for(1))
    ctx.rule = ("Z=1..103 x %d lookup routes (int/numpy ints/decimal strings/symbol in 3 cases/name in 3 cases/labels with %d digit strings x %d suffixes/"
                "padding) + vectorised helpers; all integers -200..300 x 10 numeric routes; %d non-elements; 103^2 ordered pairs; %d formula "
                "multisets; distinct = elements and integers" % (nroutes, len(DIGITS), len(SUFFIXES), len(NON_ELEMENTS) + 4, len(forms)))
    ctx.rule += "; vectorised helpers on arrays of EVERY length 1..%d x %d arrangements (atom by atom vs the single lookup)" % (array_to, len(ARRAY_PATTERNS))
    ctx.bounds = {"elements": 103, "routes_per_element": nroutes, "integers": [-200, 300], "array_lengths": [1, array_to]}
    ctx.assumptions = ["symbols and English names are compared with a hand-written reference list (IUPAC spellings aluminium, caesium, sulfur)",
                       "radii and mass are compared with the library's own table row through every route (cross-route consistency), not with external data"]
    ctx.pmap(worker, jobs)
    ctx.sample({"routes_for_Z=17": [r for r, _ in routes_for(17)][:20]})


def replay(ctx, case):
    k = case.get("kind")
    if k in ("lookup", "vector"):
        check_elements(ctx, [case["z"]])
    elif k == "array":
        check_arrays(ctx, [case["n"]])
    elif k == "integer":
        check_integers(ctx, [case["n"]])
    elif k == "non":
        check_non_elements(ctx)
    elif k == "rejhist":
        check_rejection_history(ctx)
    elif k == "order":
        check_order(ctx)
    elif k == "formula":
        check_formulas(ctx, [case["zs"]])

"""
C14 - derived crystal data always reflect the crystal's current state.

Explicit-state breadth-first search over call histories on real Crystal objects.  A state is reached by
an operation list replayed on a fresh crystal; states are deduplicated by a digest of the *whole*
instance state (public fields, properties, and every memo attribute found in vars(obj)), so two
histories with equal digests have equal futures.  The search runs to closure of the reachable state
space (or to the depth cap, reported), i.e. it covers every history of any length over the alphabet
as long as closure is reached.  Invariant on every transition: the answer equals the answer of a
freshly constructed crystal with the same cell, space group and asymmetric unit.
"""
from mc.paths import TEST_FILES
import copy
import os

import numpy as np

from mc import xtal
from mc.ref import ciftext, restext, symm

PROPERTY = "C14"
LEVEL = "model_checking"

BOUNDS1 = ((-1, -1, -1), (1, 1, 1))

QUERIES = {
    "unit_cell_atoms": lambda c: c.unit_cell_atoms(),
    "slab": lambda c: c.slab(bounds=BOUNDS1),
    "connectivity": lambda c: c.unit_cell_connectivity(),
    "unit_cell_molecules": lambda c: c.unit_cell_molecules(),
    "unique_molecules": lambda c: c.symmetry_unique_molecules(),
    "atoms_in_radius": lambda c: c.atoms_in_radius(5.0),
    "atomic_surroundings": lambda c: c.atomic_surroundings(4.0),
    "molecule_environments": lambda c: c.molecule_environments(4.0),
    "density": lambda c: c.density,
    "cif": lambda c: proj_cif(c.to_cif_string()),
    "res": lambda c: proj_res(c.to_shelx_string()),
    "poscar": lambda c: proj_poscar(c.to_poscar_string()),
    "as_P1": lambda c: c.as_P1(),
    "cartesian_symops": lambda c: c.cartesian_symmetry_operations(),
    # degenerate windows: a slab of exactly one cell (the origin cell, another cell)
    "slab_one_cell": lambda c: (c.slab(bounds=((0, 0, 0), (0, 0, 0))), c.slab(bounds=((1, 2, -1), (1, 2, -1)))),
    # further read-only queries of the public API (reflection lists are refused for rhombohedral axes - then a fresh crystal refuses too)
    "unique_reflections": lambda c: proj_reflections(c.unique_reflections()),
    "molecule_dict": lambda c: c.molecule_dict(),
    "group_surroundings": lambda c: c.atom_group_surroundings([0, 1], radius=4.0),
    "site_props": lambda c: (c.nsites, list(c.site_labels), np.asarray(c.site_positions), str(c.space_group.symbol),
                             [int(o.integer_code) for o in c.symmetry_operations],
                             # the short aliases are the same objects' data as the long names
                             np.asarray(c.uc.direct), str(c.sg.symbol), c.sg.choice, np.asarray(c.asym.positions), [int(z) for z in c.asym.atomic_numbers]),
}
MUTATORS = {
    "to_H": lambda c: c.choose_trigonal_lattice("H"),
    "to_R": lambda c: c.choose_trigonal_lattice("R"),
    # a request the API refuses (unknown setting name): it raises, and must leave the crystal as it was
    "to_invalid": lambda c: c.choose_trigonal_lattice("r"),
    # queries with an argument the API refuses: they raise (possibly after filling a memo on the way) and whatever they leave behind
    # must still answer every later query like a freshly built crystal
    "uc_atoms_refused": lambda c: c.unit_cell_atoms(tolerance=None),
    "shell_refused": lambda c: c.molecular_shell(method="centre_of_mass"),
    "descriptors_refused": lambda c: c.molecular_shape_descriptors(l_max=2, with_property="no_such_property"),
    "radius_refused": lambda c: c.atoms_in_radius("far"),
    "supercell_refused": lambda c: c.as_P1_supercell((1, 2)),
}
REFUSED = ("to_invalid", "uc_atoms_refused", "shell_refused", "descriptors_refused", "radius_refused", "supercell_refused")
ALPHABET = list(QUERIES) + list(MUTATORS) + ["deepcopy"]
NOT_TRIGONAL = ("disorder_P1",)


def alphabet_for(kind):
    """the same alphabet everywhere; for groups without an R lattice the trigonal switches are refused requests (see step)"""
    return ALPHABET


def proj_reflections(r):
    """reflection list in a canonical order (the library lists reflections of equal |q| in whatever order its sort leaves them)"""
    hkl = np.asarray(r.hkl)
    order = np.lexsort(hkl.T[::-1])
    return {"hkl": hkl[order], "q": np.asarray(r.q)[order], "q_mag": np.asarray(r.q_mag)[order]}


# ---- projections of exported text through the reference readers ---------------------------------
def proj_cif(text):
    try:
        d = ciftext.parse(text)
    except ValueError:
        # the text is not well-formed CIF (a C15/C10 matter, e.g. an unquoted value with blanks kept from the
        # source file); staleness is still judged, through the library's own reader
        from chmpy.fmt.cif import Cif

        d = {k: {n: ([ciftext._mk(str(x), False) for x in v] if isinstance(v, list) else ciftext._mk(str(v), False))
                 for n, v in b.items()} for k, b in Cif.from_string(text).data.items()}
    if len(d) != 1:
        return {"blocks": len(d)}
    b = list(d.values())[0]
    out = {}
    out["cell"] = [ciftext.number(b[k]) for k in ("cell_length_a", "cell_length_b", "cell_length_c",
                                                    "cell_angle_alpha", "cell_angle_beta", "cell_angle_gamma")]
    ops = None
    for k in ("symmetry_equiv_pos_as_xyz", "space_group_symop_operation_xyz"):
        if k in b:
            ops = sorted(symm.encode(symm.parse_string(str(s))) for s in b[k])
    out["ops"] = ops
    out["labels"] = [str(x) for x in b.get("atom_site_label", [])]
    out["symbols"] = [str(x) for x in b.get("atom_site_type_symbol", [])] if "atom_site_type_symbol" in b else None
    out["frac"] = np.array([[ciftext.number(v) for v in b["atom_site_fract_" + ax]] for ax in "xyz"], dtype=float).T
    return out


def proj_res(text):
    r = restext.parse_res(text)
    return {"cell": r["CELL"], "ops": sorted(symm.encode(o) for o in r["OPS"]),
            "labels": [a["label"] for a in r["ATOM"]], "symbols": [a["symbol"] for a in r["ATOM"]],
            "frac": np.array([a["frac"] for a in r["ATOM"]], dtype=float)}


def proj_poscar(text):
    p = restext.parse_poscar(text)
    return {"lattice": np.array(p["lattice"]), "symbols": p["symbols"], "pos": np.array(p["positions"]), "mode": p["mode"]}


# ---- structures --------------------------------------------------------------------------------------
def water_r3(choice):
    """one water molecule on a general position of R-3, hexagonal axes; optionally switched to R by construction"""
    import math
    from mc.ref import lattice

    cell = (11.0, 11.0, 9.0, 90.0, 90.0, 120.0)
    M = lattice.cell_matrix(*cell)
    o = np.array([0.31, 0.12, 0.21]) @ M
    h1 = o + np.array([0.757, 0.586, 0.0])
    h2 = o + np.array([-0.757, 0.586, 0.0])
    frac = np.array([o, h1, h2]) @ np.linalg.inv(M)
    c = xtal.make_crystal(148, "H", cell, ["O", "H", "H"], frac, labels=["O1", "H1", "H2"])
    if choice == "R":
        # re-express exactly (reference basis change), built fresh in the R setting
        T = np.array(((-1, 1, 1), (2, 1, 1), (-1, -2, 1))) / 3.0
        MR = T @ M
        fracR = (frac @ M) @ np.linalg.inv(MR)
        from chmpy.crystal import Crystal, SpaceGroup, UnitCell, AsymmetricUnit
        from chmpy.core.element import Element

        c = Crystal(UnitCell(MR), SpaceGroup(148, choice="R"),
                    AsymmetricUnit([Element["O"], Element["H"], Element["H"]], fracR, labels=["O1", "H1", "H2"]))
    return c


def ammonia_water_r3():
    """R-3 (hexagonal axes): NH3 on the three-fold axis (N at 0,0,z + one unique H) listed BEFORE a general-position water"""
    from mc.ref import lattice

    cell = (12.0, 12.0, 10.0, 90.0, 90.0, 120.0)
    M = lattice.cell_matrix(*cell)
    Mi = np.linalg.inv(M)
    o = np.array([0.42, 0.12, 0.30]) @ M
    h1 = o + np.array([0.757, 0.586, 0.0])
    h2 = o + np.array([-0.757, 0.586, 0.0])
    frac = np.vstack([[0.0, 0.0, 0.25], [0.08, 0.0, 0.22], o @ Mi, h1 @ Mi, h2 @ Mi])
    # the water is listed in ANOTHER cell than the ammonia (by the lattice vector (1, -2, 3): the same crystal); in rhombohedral axes
    # that is (0.2, 4.2, 5.2) cells from the origin - coordinates of that size are ordinary in files and nothing may treat them specially
    frac[2:] += np.array([1.0, -2.0, 3.0])
    return xtal.make_crystal(148, "H", cell, ["N", "H", "O", "H", "H"], frac, labels=["N1", "H1", "O1", "H2", "H3"])


def near_axis_r3():
    """R3 (hexagonal axes): a 1/3-occupancy site 0.04 A off the three-fold axis (its three images lie INSIDE the 0.01 merge
    tolerance of unit_cell_atoms but outside 0.001) next to an ordinary water - disordered sites like this are common"""
    from mc.ref import lattice

    cell = (12.0, 12.0, 10.0, 90.0, 90.0, 120.0)
    M = lattice.cell_matrix(*cell)
    Mi = np.linalg.inv(M)
    o = np.array([0.42, 0.12, 0.30]) @ M
    h1 = o + np.array([0.757, 0.586, 0.0])
    h2 = o + np.array([-0.757, 0.586, 0.0])
    frac = np.vstack([[0.0033, 0.0, 0.25], o @ Mi, h1 @ Mi, h2 @ Mi])
    return xtal.make_crystal(146, "H", cell, ["Ar", "O", "H", "H"], frac, labels=["Ar1", "O1", "H1", "H2"], occupation=[1 / 3, 1.0, 1.0, 1.0])


def disorder_p1():
    """P1, triclinic: substitutional disorder (Cu 0.6 / Au 0.4 on one position, 0.002 A apart: inside the 0.01 merge tolerance of
    unit_cell_atoms) next to a water; occupancies handed over as an ndarray, as the file readers do"""
    frac = np.array([[0.1, 0.2, 0.3], [0.1003, 0.2, 0.3], [0.5, 0.5, 0.5], [0.6, 0.55, 0.5], [0.42, 0.57, 0.5]])
    frac[2:] += np.array([7.0, -6.0, 12.0])      # the water is listed many cells away from the metal site
    return xtal.make_crystal(1, "", (7.0, 8.0, 9.0, 80.0, 95.0, 100.0), ["Cu", "Au", "O", "H", "H"], frac,
                             labels=["Cu1", "Au1", "O1", "H1", "H2"], occupation=np.array([0.6, 0.4, 1.0, 1.0, 1.0]))


def origin_atom_r3m():
    """R-3 (hexagonal axes): ONE atom, exactly at the origin - its fractional coordinates are (0, 0, 0) in both settings, so a setting
    switch changes the cell and the operations but not a single coordinate"""
    return xtal.make_crystal(148, "H", (9.0, 9.0, 12.0, 90.0, 90.0, 120.0), ["Hg"], np.array([[0.0, 0.0, 0.0]]), labels=["Hg1"])


def initial(kind):
    from chmpy.crystal import Crystal

    if kind == "origin_atom_H":
        return origin_atom_r3m()

    if kind == "disorder_P1":
        return disorder_p1()

    if kind == "ammonia_water_H":
        return ammonia_water_r3()
    if kind == "near_axis_H":
        return near_axis_r3()

    if kind == "water_H":
        return water_r3("H")
    if kind == "water_R":
        return water_r3("R")
    if kind == "water_H_cif":
        return Crystal.from_cif_string(water_r3("H").to_cif_string())
    if kind == "r3c_example":
        return Crystal.load(TEST_FILES + "r3c_example.cif")
    raise KeyError(kind)


# ---- reference answers from a pristine interpreter ---------------------------------------------------
# "a freshly constructed crystal ... would give" is also decided outside this process: comparing with a fresh object built
# HERE is blind to state shared between objects (class attributes, module-level caches, mutable defaults) - a polluted
# cache would serve the fresh object the same wrong answer.  For every public state met, a new interpreter that has done
# nothing else builds the crystal and answers every query once; the answers are kept as plain data for the run.
_PRISTINE = {}


def pristine_dir():
    import atexit
    import shutil
    import tempfile

    d = os.environ.get("VERIF_C14_PRISTINE")
    if not d or not os.path.isdir(d):
        d = tempfile.mkdtemp(prefix="c14_pristine_")
        os.environ["VERIF_C14_PRISTINE"] = d
        atexit.register(shutil.rmtree, d, True)
    return d


def pristine_main(psfile, out):
    import pickle

    ps = pickle.load(open(psfile, "rb"))
    res = {}
    for op, fn in QUERIES.items():
        res[op] = xtal.plain(answer(fn, xtal.fresh_from_state(ps)))
    pickle.dump(res, open(out, "wb"))


def exact_public_key(c):
    """the public state bit for bit (no rounding): cell vectors, coordinates, occupancies, group, elements, labels"""
    ps = xtal.public_state(c)
    return xtal.digest(repr((ps["direct"].tobytes(), ps["pos"].tobytes(), None if ps["occ"] is None else ps["occ"].tobytes(),
                             ps["number"], ps["choice"], ps["Z"], ps["labels"])))


def pristine_answers(c):
    import pickle
    import subprocess
    import sys
    from mc.paths import REPO_SRC

    ps = xtal.public_state(c)
    # keyed by the EXACT public state (no rounding): answers that list equidistant neighbours in floating-point order may
    # legitimately change their order under a 1e-16 drift of the cell, so every drifted state gets its own reference
    pd = xtal.digest(repr((ps["direct"].tobytes(), ps["pos"].tobytes(), None if ps["occ"] is None else ps["occ"].tobytes(),
                           ps["number"], ps["choice"], ps["Z"], ps["labels"])))
    if pd in _PRISTINE:
        return _PRISTINE[pd]
    d = pristine_dir()
    path = os.path.join(d, pd + ".pkl")
    if not os.path.exists(path):
        tmp = "%s.%d" % (path, os.getpid())
        pickle.dump(ps, open(tmp + ".ps", "wb"))
        code = "import sys; sys.path[:0] = [%r, %r]; from mc.checks import c14; c14.pristine_main(sys.argv[1], sys.argv[2])" % (
            os.path.dirname(os.path.dirname(os.path.dirname(os.path.abspath(__file__)))), REPO_SRC)
        r = subprocess.run([sys.executable, "-B", "-c", code, tmp + ".ps", tmp], capture_output=True, text=True)
        os.remove(tmp + ".ps")
        if r.returncode != 0:
            raise RuntimeError("pristine interpreter failed: " + r.stderr[-400:])
        os.replace(tmp, path)
    _PRISTINE[pd] = pickle.load(open(path, "rb"))
    return _PRISTINE[pd]


def sibling(c):
    """another crystal of the same space group, elements and size (what a badly keyed shared cache would confuse with c):
    cell 7% larger, every site shifted along the direction that keeps special positions of the R groups special"""
    ps = xtal.public_state(c)
    ps["direct"] = ps["direct"] * 1.07
    shift = np.array([0.0, 0.0, 0.013]) if (ps["choice"] == "H" or ps["number"] == 1) else np.array([0.013, 0.013, 0.013])
    ps["pos"] = ps["pos"] + shift
    return xtal.fresh_from_state(ps)


def cross_object(part, c, hist, kind):
    """all queries on a sibling crystal (same process), then all queries on c: c's answers must be the pristine ones"""
    case = {"structure": kind, "history": list(hist), "op": "sibling_then_all"}
    try:
        sib = sibling(c)
        for fn in QUERIES.values():
            answer(fn, sib)
    except Exception as e:
        part.fail("harness:sibling:%s" % kind, "building / querying the sibling crystal raised %r" % e, case)
        return
    pr = pristine_answers(c)
    for op, fn in QUERIES.items():
        part.tr()
        part.trace()
        try:
            xtal.compare(xtal.plain(answer(fn, c)), pr[op], tol=1e-7)
        except xtal.Mismatch as m:
            part.fail("cross-object:%s:%s" % (op, kind),
                      "after history %s and the same queries on ANOTHER crystal of the same group and size, %s differs from the answer of a pristine interpreter: %s" % (hist, op, m), case)


# ---- one transition ----------------------------------------------------------------------------------
def answer(fn, c):
    try:
        return ("ok", fn(c))
    except Exception as e:  # the answer of a query may legitimately be an error, then fresh must agree
        return ("raise", type(e).__name__)


def step(part, c, op, hist, kind, check=True):
    """execute op on crystal c (returns the object to continue with); with check: evaluate the invariant"""
    case = {"structure": kind, "history": list(hist), "op": op}
    if op == "deepcopy":
        c2 = copy.deepcopy(c)
        if check:
            part.tr()
            if xtal.state_digest(c2) != xtal.state_digest(c):
                part.fail("deepcopy-differs:%s" % kind, "deepcopy after %s is not state-equal to the original" % (hist,), case)
            # aliasing: changing the copy must not change the original
            before = xtal.state_digest(c)
            try:
                c3 = copy.deepcopy(c)
                c3.choose_trigonal_lattice("R" if c3.space_group.choice == "H" else "H")
                c3.asymmetric_unit.positions[0, 0] += 0.125
                c3.unit_cell_atoms()
            except Exception:
                pass
            if xtal.state_digest(c) != before:
                part.fail("deepcopy-aliasing:%s" % kind, "mutating a deep copy changed the original (history %s)" % (hist,), case)
        return c2
    if op in MUTATORS:
        try:
            MUTATORS[op](c)
            if check and (op in REFUSED or kind in NOT_TRIGONAL):
                part.count("refused_request_accepted")
        except Exception as e:
            # a refused request (unknown setting name; trigonal switch on a group without an R lattice) raises by contract and
            # the search simply continues from the state it left behind - which must still answer like a fresh crystal
            if check and not (op in REFUSED or kind in NOT_TRIGONAL):
                part.fail("mutator-raise:%s:%s" % (op, kind), "%s raised %r after %s" % (op, e, hist), case)
        if check:
            part.tr()
        return c
    fn = QUERIES[op]
    if not check:
        answer(fn, c)
        return c
    part.tr()
    pub0 = exact_public_key(c)
    a1 = answer(fn, c)
    post_digest_holder["d"] = xtal.state_digest(c)
    if exact_public_key(c) != pub0:      # bit for bit: a query that rewrites the cell "to within rounding" has modified it
        part.fail("query-mutates:%s:%s" % (op, kind), "query %s changed cell/space group/asymmetric unit (history %s)" % (op, hist), case)
    fresh = xtal.fresh_from_state(xtal.public_state(c))
    af = answer(fn, fresh)
    part.trace()
    muts = [h for h in hist if h in MUTATORS]
    try:
        xtal.compare(a1, af, tol=1e-7)
    except xtal.Mismatch as m:
        part.fail("stale:%s:%s" % (op, kind),
                  "after history %s the answer of %s differs from a freshly built crystal with the same cell/space group/asymmetric unit: %s"
                  % (hist, op, m), case)
    try:
        xtal.compare(xtal.plain(a1), pristine_answers(c)[op], tol=1e-7)
    except xtal.Mismatch as m:
        part.fail("stale-vs-pristine:%s:%s" % (op, kind),
                  "after history %s the answer of %s differs from the answer a pristine interpreter gives for the same cell/space group/asymmetric unit: %s"
                  % (hist, op, m), case)
    a2 = answer(fn, c)
    try:
        xtal.compare(a2, a1, tol=1e-9)
    except xtal.Mismatch as m:
        part.fail("repeat:%s:%s" % (op, kind), "repeating %s after %s gives a different answer: %s" % (op, hist, m), case)
    return c


post_digest_holder = {}


def replay_history(kind, hist, hold=False):
    c = initial(kind)
    held = []
    for op in hist:
        if hold and op in QUERIES:
            a = answer(QUERIES[op], c)
            held.append((op, a, xtal.answer_digest(a)))
        else:
            c = step(None, c, op, [], kind, check=False)
    return (c, held) if hold else c


def expand(part, job):
    """all transitions out of one state (kind, hist): executed on the real object, invariant evaluated"""
    kind, hist = job
    for op in alphabet_for(kind):
        c, held = replay_history(kind, hist, hold=True)
        post_digest_holder.pop("d", None)
        c = step(part, c, op, hist, kind, check=True)
        # answers handed out earlier must not change under later operations (no aliasing with internal state)
        for hop, ha, hd in held:
            if xtal.answer_digest(ha) != hd:
                part.fail("earlier-answer-changed:%s:by:%s:%s" % (hop, op, kind),
                          "the answer %s() returned earlier in history %s changed when %s was executed afterwards" % (hop, hist, op),
                          {"structure": kind, "history": list(hist), "op": op})
                break
        part.ev()
        d = post_digest_holder.get("d") or xtal.state_digest(c)
        part.outcome((op, d))
        part.extra.append((kind, tuple(hist), op, d))
    # one more transition out of this state: interference from another object living in the same process
    c = replay_history(kind, hist)
    cross_object(part, c, hist, kind)
    part.ev()


def clock_independence(part, kind):
    """
    repeating an export gives an equal result - also when the wall clock says another day: the process is put into two time zones
    26 hours apart (the local dates always differ) and every exported text must be byte-identical
    """
    import time

    exports = {"cif": lambda c: c.to_cif_string(), "res": lambda c: c.to_shelx_string(), "poscar": lambda c: c.to_poscar_string()}
    old = os.environ.get("TZ")
    texts = {}
    try:
        for tz in ("UTC+12", "UTC-14"):     # POSIX sign convention: 12 h behind / 14 h ahead of UTC
            os.environ["TZ"] = tz
            time.tzset()
            c = initial(kind)
            for name, fn in exports.items():
                part.tr()
                texts[(tz, name)] = answer(fn, c)
    finally:
        if old is None:
            os.environ.pop("TZ", None)
        else:
            os.environ["TZ"] = old
        time.tzset()
    part.ev()
    for name in exports:
        a, b = texts[("UTC+12", name)], texts[("UTC-14", name)]
        if a != b:
            part.fail("export-depends-on-clock:%s:%s" % (name, kind), "the %s export of the same crystal differs between two runs whose local dates differ (time zones UTC-12 / UTC+14): exported files must depend on the crystal only" % name,
                      {"kind": "clock", "structure": kind})
    part.outcome(("clock", kind))


def aliasing_worker(part, job):
    """
    answers handed out earlier must not change under later operations.  The canonical-state search above cannot
    see this (an outstanding reference is not part of the object's state, so histories that only differ in which
    answers are still held are merged); here every history up to the bound is executed WITHOUT deduplication.
    """
    kind, prefix = job
    for op in alphabet_for(kind):
        c = initial(kind)
        held = []
        hist = list(prefix) + [op]
        part.ev()
        for i, o in enumerate(hist):
            part.tr()
            if o in QUERIES:
                a = answer(QUERIES[o], c)
            else:
                a = None
                c = step(None, c, o, [], kind, check=False)
            bad = [hop for hop, ha, hd in held if xtal.answer_digest(ha) != hd]
            if bad:
                part.fail("earlier-answer-changed:%s:by:%s:%s" % (bad[0], o, kind),
                          "the answer %s() returned earlier in history %s changed when %s was executed afterwards" % (bad[0], hist[:i], o),
                          {"kind": "alias", "structure": kind, "history": list(prefix), "op": op})
                break
            if a is not None:
                held.append((o, a, xtal.answer_digest(a)))
        part.outcome(("alias", op, len(held)))


def run(ctx):
    kinds = ["water_H", "water_R", "water_H_cif", "r3c_example", "ammonia_water_H", "near_axis_H", "disorder_P1", "origin_atom_H"]
    max_depth = 8 if ctx.thorough else 6
    cap = 20000 if ctx.thorough else 1500
    ctx.bounds = {"alphabet": ALPHABET, "structures": kinds, "max_depth": max_depth, "state_cap": cap}
    ctx.rule = ("level-synchronous BFS over operation lists (18 queries with fixed arguments, 2 trigonal switches, 1 refused request, deepcopy) on real "
                "Crystal objects; state = digest of vars(obj) recursively (public fields + properties + all memo attributes); every "
                "transition compares the answer with a freshly built crystal; distinct = canonical states")
    ctx.assumptions = ["methods read only instance state reachable from vars(obj) (so equal digests have equal futures); state shared between objects is "
                       "covered separately: every answer is also compared with the answer of a pristine interpreter for the same public state, and every "
                       "state has a transition that first runs all queries on a sibling crystal (same group, elements, size) in the same process",
                       "exported text is compared through the reference readers (cell, operation set, sites), not byte-wise"]
    pristine_dir()
    seen = {k: {xtal.state_digest(initial(k)): []} for k in kinds}
    frontier = [(k, []) for k in kinds]
    depth = 0
    while frontier and depth < max_depth and sum(len(v) for v in seen.values()) < cap:
        ctx.extra = []
        ctx.pmap(expand, frontier)
        nxt = []
        for kind, hist, op, d in ctx.extra:
            if d not in seen[kind]:
                seen[kind][d] = list(hist) + [op]
                nxt.append((kind, list(hist) + [op]))
        frontier = nxt
        depth += 1
        ctx.log("depth %d done: %d states, frontier %d" % (depth, sum(len(v) for v in seen.values()), len(frontier)))
    closed = not frontier
    for k in kinds:
        for d in seen[k]:
            ctx.state((k, d))
        ctx.count("states_%s" % k, len(seen[k]))
        ctx.nontriv(k)
        longest = max(seen[k].values(), key=len)
        ctx.sample({"structure": k, "states": len(seen[k]), "a_longest_new_state_history": longest})
    ctx.count("depth_completed", depth)
    ctx.count("closed", 1 if closed else 0)
    import itertools as it

    alias_depth = 2 if ctx.thorough else 2
    prefixes = [(k, list(h)) for k in kinds for L in range(1, alias_depth + 1) for h in it.product(alphabet_for(k), repeat=L)
                if any(x in QUERIES for x in h) and (L == 1 or k in ("water_H", "ammonia_water_H") or ctx.thorough)
                and (L == 1 or ctx.thorough or not any(x in REFUSED[1:] for x in h))]     # refused queries: in the state search, and as prefixes of length 1
    ctx.pmap(aliasing_worker, prefixes)
    ctx.pmap(clock_independence, kinds)
    ctx.bounds["aliasing_histories"] = "%d prefixes of length <= %d (no deduplication) x %d final operations" % (len(prefixes), alias_depth, len(ALPHABET))
    # secondary binding: TLA+ memo-protocol model explored by TLC, every edge replayed on the real object
    from mc.checks import c14_tla
    import mc.checks.c14 as me

    res = c14_tla.conformance(ctx, me)
    if res is None:
        ctx.notes.append("TLA+ binding skipped or failed (see failures): TLC unavailable or model error")
    else:
        ctx.notes.append("TLA+ memo-protocol model: %(states)d states, %(edges)d edges (TLC, complete); %(replays)d edge replays on real crystals "
                         "(every edge x every API call of its action class), abstraction of the real state equals the model successor" % res)
    if not closed:
        ctx.cap("reachable state space not closed within depth %d / %d states; every history up to depth %d is covered"
                % (max_depth, cap, depth))
    else:
        ctx.notes.append("the reachable canonical state space was exhausted (frontier empty after depth %d): histories of every "
                         "length over the alphabet are covered" % depth)


def replay(ctx, case):
    if case.get("kind") == "alias":
        aliasing_worker(ctx, (case["structure"], case["history"]))
        return
    if case.get("kind") == "clock":
        clock_independence(ctx, case["structure"])
        return
    if case.get("op") == "sibling_then_all":
        cross_object(ctx, replay_history(case["structure"], case["history"]), case["history"], case["structure"])
        return
    if case.get("kind") == "tla":
        from mc.checks import c14_tla
        import mc.checks.c14 as me

        c14_tla.conformance(ctx, me)
        return
    kind = case["structure"]
    c = replay_history(kind, case["history"])
    step(ctx, c, case["op"], case["history"], kind, check=True)

"""
C05 - promolecule density is a sum of spherical atoms; stockholder weights are shares.

(a) one atom, whole table: Z = 1..103 x every table interval x two interior points (+ beyond the end);
(b) many atoms: all placements of <= 3 (thorough 4) atoms from a 6-element alphabet on a 7-point set x
    125 evaluation points; additivity over every bipartition, all atom orders, 24 octahedral + generic
    rotations and translations applied to atoms and points together;
(c) stockholder weights for every bipartition x 3 backgrounds.
Oracle: float64 interpolation of the table (mc.ref.interp).
"""
import itertools

import numpy as np

from mc.ref import interp
from mc.ref.mol import rot

PROPERTY = "C05"
LEVEL = "exploration"

ELEMENTS = [1, 6, 8, 17, 26, 92]
SITES = np.array([[0.0, 0.0, 0.0], [1.1, 0.0, 0.0], [-1.1, 0.0, 0.0], [0.0, 1.5, 0.0], [0.37, -0.81, 1.23], [-1.9, 1.3, -0.7], [2.3, 2.1, 1.7],
                  [0.0, 0.0, 0.0], [1.1, 1e-4, 0.0]])   # the last two coincide (nearly) with sites 0 and 1: only used for the mixed-site configurations
N_PLAIN_SITES = 7
REL = 1e-4  # float32 kernel: r^2 cancellation near the table end; probe worst 7e-6, wrong index/weight >= 1e-2


def eval_points(sites):
    g = (np.arange(5) - 2) * 0.9
    P = np.array(list(itertools.product(g, g, g))) + np.array([0.17, -0.23, 0.31])
    keep = np.ones(len(P), dtype=bool)
    for s in sites:
        keep &= np.linalg.norm(P - s, axis=1) >= 0.3
    return P[keep]


def relerr(got, want, alt=None):
    got = np.asarray(got, dtype=np.float64)
    e = np.abs(got - want) / np.maximum(np.abs(want), 1e-30)
    if alt is not None:
        e = np.minimum(e, np.abs(got - alt) / np.maximum(np.abs(want), 1e-30))
    # absolute floor: values below 1e-20 are float32 denormal territory
    e = np.where(np.abs(got - want) < 2e-8 * np.max(np.abs(want)) + 1e-30, np.minimum(e, 0.0), e)
    return float(e.max()) if e.size else 0.0


def table_worker(part, zs):
    from chmpy.interpolate.density import PromoleculeDensity

    dom, _ = interp.table()
    dx = dom[1] - dom[0]
    xs = []
    for t in (0.25, 0.75):
        xs.append(dom[:-1] + t * dx)
    xs.append(dom[-1] + dx * np.array([0.25, 1.0, 2.5, 10.0, 50.0, 200.0, 1000.0, 5000.0]))
    x = np.concatenate(xs)
    r = np.sqrt(x) * interp.BOHR
    r = r[r >= 0.3]
    pts = np.c_[r, np.zeros_like(r), np.zeros_like(r)]
    for z in zs:
        part.ev(len(r))
        part.tr()
        case = {"kind": "table", "z": int(z)}
        try:
            d = PromoleculeDensity((np.array([z]), np.zeros((1, 3))))
            got = np.asarray(d.rho(pts), dtype=np.float64)
        except Exception as e:
            part.fail("table-raise", "PromoleculeDensity for Z=%d raised %r" % (z, e), case)
            continue
        # the kernel sees float32 coordinates: evaluate the reference at the float32-rounded radius
        r32 = np.abs(pts[:, 0].astype(np.float32).astype(np.float64))
        want, alt = interp.atom_rho(int(z), r32)
        e = relerr(got, want, alt)
        part.dev("table_rel", e)
        if not (e <= REL):
            k = int(np.argmax(np.abs(got - want) / np.maximum(want, 1e-30)))
            part.fail("table-value", "Z=%d: density at r=%.5f A is %.6g, tabulated interpolation gives %.6g (rel. err %.3g)" % (z, r[k], got[k], want[k], e), case)
        if (got < 0).any() or not np.all(np.isfinite(got)):
            part.fail("table-positive", "Z=%d: negative or non-finite density" % z, case)
        part.outcome(("table", int(z) % 7))
        part.nstates(1)


def motions(seed):
    octa = []
    for perm in itertools.permutations(range(3)):
        for signs in itertools.product((1, -1), repeat=3):
            M = np.zeros((3, 3))
            for i, p in enumerate(perm):
                M[i, p] = signs[i]
            if not (abs(np.linalg.det(M) - 1) >= 1e-9):
                octa.append(M)
    gen = [rot((1, 2, 3), 0.7 + 0.13 * seed), rot((-2, 1, 0.5), 2.1 + 0.07 * seed), rot((0.3, -1, 2), 4.4 + 0.05 * seed)]
    ms = [(M, np.zeros(3)) for M in octa[1:] + gen]
    ms += [(np.eye(3), np.array(t)) for t in ((5.0, -3.0, 2.0), (-40.0, 25.0, 10.0), (0.001, 0.002, -0.003))]
    ms.append((gen[0], np.array([7.0, 1.0, -4.0])))
    return ms


def config_worker(part, chunk, seed, full_motions_every):
    from chmpy.interpolate.density import PromoleculeDensity, StockholderWeight

    ms = motions(seed)
    for idx, (sites_idx, zs) in chunk:
        sites = SITES[list(sites_idx)]
        zs = np.array(zs)
        pts = eval_points(sites)
        case = {"kind": "config", "sites": list(sites_idx), "zs": [int(z) for z in zs], "seed": seed}
        part.ev()
        part.nstates(1)
        try:
            d = PromoleculeDensity((zs, sites))
            got = np.asarray(d.rho(pts), dtype=np.float64)
        except Exception as e:
            part.fail("config-raise", "PromoleculeDensity raised %r" % e, case)
            continue
        part.tr()
        p32 = pts.astype(np.float32).astype(np.float64)
        s32 = sites.astype(np.float32).astype(np.float64)
        want, alt = interp.promolecule_rho(zs, s32, p32)
        e = relerr(got, want, alt)
        part.dev("sum_rel", e)
        if not (e <= REL):
            part.fail("sum-of-atoms", "density of %s at sites %s deviates from the sum of tabulated atomic densities (rel. err %.3g)" % (list(zs), list(sites_idx), e), case)
            continue
        if (got <= 0).any():
            part.fail("positivity", "non-positive density", case)
        n = len(zs)
        # order independence: all permutations
        for perm in itertools.permutations(range(n)):
            if perm == tuple(range(n)):
                continue
            part.tr()
            g2 = np.asarray(PromoleculeDensity((zs[list(perm)], sites[list(perm)])).rho(pts), dtype=np.float64)
            e = relerr(g2, got)
            part.dev("order_rel", e)
            if not (e <= 1e-5):
                part.fail("order-dependence", "density depends on the order of the atoms (rel. %.3g) for %s" % (e, list(zs)), case)
                break
        # additivity + weights over every bipartition
        for k in range(1, n):
            for A in itertools.combinations(range(n), k):
                B = [i for i in range(n) if i not in A]
                A = list(A)
                part.tr()
                ga = np.asarray(PromoleculeDensity((zs[A], sites[A])).rho(pts), dtype=np.float64)
                gb = np.asarray(PromoleculeDensity((zs[B], sites[B])).rho(pts), dtype=np.float64)
                e = relerr(ga + gb, got)
                part.dev("additivity_rel", e)
                if not (e <= 1e-5):
                    part.fail("additivity", "rho(A u B) != rho(A) + rho(B) (rel. %.3g) for %s split %s" % (e, list(zs), A), case)
                wa_ref, _ = interp.promolecule_rho(zs[A], s32[A], p32)
                wb_ref, _ = interp.promolecule_rho(zs[B], s32[B], p32)
                for bg in (0.0, 1e-5, 1e-2):
                    part.tr()
                    try:
                        s = StockholderWeight.from_arrays(zs[A], sites[A], zs[B], sites[B], background=bg)
                        w = np.asarray(s.weights(pts), dtype=np.float64)
                    except Exception as ex:
                        part.fail("weights-raise", "StockholderWeight raised %r" % ex, case)
                        break
                    wref = wa_ref / (wa_ref + wb_ref + bg)
                    dw = float(np.abs(w - wref).max())
                    part.dev("weight_abs", dw)
                    if not (dw <= 2e-4):
                        part.fail("weight-value:bg=%g" % bg, "stockholder weight deviates by %.3g from interior/(interior+exterior+background) for %s | %s, background %g"
                                  % (dw, list(zs[A]), list(zs[B]), bg), case)
                    if not (w.min() >= 0) or not (w.max() <= 1 + 1e-6):
                        part.fail("weight-range", "weight outside [0,1]", case)
                    if bg == 0.0:
                        s2 = StockholderWeight.from_arrays(zs[B], sites[B], zs[A], sites[A])
                        w2 = np.asarray(s2.weights(pts), dtype=np.float64)
                        if not (np.abs(w + w2 - 1).max() <= 1e-5):
                            part.fail("weight-complement", "complementary weights do not sum to one (dev %.3g)" % np.abs(w + w2 - 1).max(), case)
        # rigid motions applied to atoms and points together
        use = ms if idx % full_motions_every == 0 else [ms[(idx * 7 + j) % len(ms)] for j in range(3)]
        for (M, t) in use:
            part.tr()
            s2 = sites @ M.T + t
            p2 = pts @ M.T + t
            g2 = np.asarray(PromoleculeDensity((zs, s2)).rho(p2), dtype=np.float64)
            e = relerr(g2, got)
            part.dev("motion_rel", e)
            if not (e <= 5e-4):
                part.fail("rigid-motion", "density changes by %.3g (relative) under a rigid motion of atoms and points for %s" % (e, list(zs)), case)
                break
        part.outcome((n, tuple(sorted(zs.tolist()))[:2]))
    part.nontriv(repr(chunk[0][1]) if chunk else "")


BATCH_SIZES = (1, 2, 3, 255, 256, 257, 4095, 4096, 4097, 65535, 65536, 65537, 70001, 131071, 131072, 131073)


def batch_worker(part, sizes):
    """
    batch-size independence: rho / weights of the first N points of one fixed point list equal, index by index, the values
    obtained in blocks of 1000 points (the regime tied to the tables by the configuration sweep); N straddles powers of two
    up to 2^17 (blocked / chunked evaluation paths)
    """
    from chmpy.interpolate.density import PromoleculeDensity, StockholderWeight

    sites = np.array([[0.0, 0.0, 0.0], [0.757, 0.586, 0.0], [-0.757, 0.586, 0.0], [2.9, 0.1, 0.2]])
    zs = np.array([8, 1, 1, 6])
    g = (np.arange(51) - 25) * 0.17 + 0.041
    pts = np.array(np.meshgrid(g, g + 0.013, g - 0.029, indexing="ij")).reshape(3, -1).T
    dmin = np.min(np.linalg.norm(pts[:, None, :] - sites[None, :, :], axis=2), axis=1)
    pts = np.ascontiguousarray(pts[dmin >= 0.3])
    # a stride that is coprime with the grid dimensions mixes near and far points at every index range
    pts = pts[(np.arange(len(pts)) * 7919) % len(pts)]
    assert len(pts) >= max(BATCH_SIZES)
    d = PromoleculeDensity((zs, sites))
    sw = StockholderWeight.from_arrays(zs[:3], sites[:3], zs[3:], sites[3:])
    sw2 = StockholderWeight.from_arrays(zs[3:], sites[3:], zs[:3], sites[:3])
    # special values: a batch in which points REPEAT (a probe revisited, a closed path, a padded array) in no particular order, the whole
    # batch one point repeated, a sorted and a reverse-sorted batch - every row is answered for the point it holds
    base12 = pts[:12]
    r12 = np.asarray(d.rho(base12), dtype=np.float64)
    w12 = np.asarray(sw.weights(base12), dtype=np.float64)
    for rname, idx in (("repeats", [3, 1, 3, 0, 2, 1, 11, 5, 5, 7]), ("one point repeated", [4] * 9), ("sorted", list(np.lexsort(base12.T[::-1]))), ("reverse-sorted", list(np.lexsort(base12.T[::-1])[::-1])),
                       ("first = last", [0, 5, 8, 2, 0]), ("adjacent duplicates", [6, 6, 2, 2, 9, 9])):
        part.ev()
        part.tr(2)
        q = np.ascontiguousarray(base12[idx])
        try:
            gr = np.asarray(d.rho(q), dtype=np.float64)
            gw = np.asarray(sw.weights(q), dtype=np.float64)
        except Exception as e:
            part.fail("batch-raise", "evaluation of a batch with %s raised %r" % (rname, e), {"kind": "batch", "N": 12})
            continue
        if gr.shape != (len(idx),) or not (np.abs(gr - r12[idx]) <= 1e-6 * np.abs(r12[idx])).all() or not (np.abs(gw - w12[idx]).max() <= 1e-6):
            part.fail("batch-dependence:repeated-points", "rho / weights of a batch with %s are not, row by row, the values of the points in it" % rname, {"kind": "batch", "N": 12})
    nmax = max(sizes)
    ref_rho = np.concatenate([np.asarray(d.rho(pts[i:i + 1000]), dtype=np.float64) for i in range(0, nmax, 1000)])[:nmax]
    ref_w = np.concatenate([np.asarray(sw.weights(pts[i:i + 1000]), dtype=np.float64) for i in range(0, nmax, 1000)])[:nmax]
    for N in sizes:
        part.ev()
        part.nstates(1)
        case = {"kind": "batch", "N": int(N)}
        try:
            got = np.asarray(d.rho(pts[:N]), dtype=np.float64)
            w = np.asarray(sw.weights(pts[:N]), dtype=np.float64)
            w2 = np.asarray(sw2.weights(pts[:N]), dtype=np.float64)
        except Exception as e:
            part.fail("batch-raise", "evaluation of %d points raised %r" % (N, e), case)
            continue
        part.tr(3 * N)
        if got.shape != (N,) or w.shape != (N,):
            part.fail("batch-shape", "%d points give %s densities / %s weights" % (N, got.shape, w.shape), case)
            continue
        bad = np.nonzero(np.abs(got - ref_rho[:N]) > 1e-6 * np.abs(ref_rho[:N]))[0]
        if len(bad):
            part.fail("batch-dependence:rho", "rho of a list of %d points differs from the same points evaluated in blocks of 1000 at %d index(es), first %d: %.6g vs %.6g"
                      % (N, len(bad), bad[0], got[bad[0]], ref_rho[bad[0]]), case)
        if (got <= 0).any():
            part.fail("positivity", "non-positive density in a list of %d points at index %d" % (N, int(np.argmin(got))), case)
        badw = np.nonzero(np.abs(w - ref_w[:N]) > 1e-6)[0]
        if len(badw):
            part.fail("batch-dependence:weights", "weights of a list of %d points differ from the same points evaluated in blocks of 1000 at %d index(es), first %d: %.6g vs %.6g"
                      % (N, len(badw), badw[0], w[badw[0]], ref_w[badw[0]]), case)
        if not (np.abs(w + w2 - 1).max() <= 1e-5):
            part.fail("weight-complement", "complementary weights of a list of %d points do not sum to one at index %d" % (N, int(np.argmax(np.abs(w + w2 - 1)))), case)
        # pairwise: the batch size TOGETHER WITH a non-zero background, through both constructors
        for bg in (1e-2, 1e-5):
            for cname, swb in (("from_arrays", StockholderWeight.from_arrays(zs[:3], sites[:3], zs[3:], sites[3:], background=bg)),
                               ("constructor", StockholderWeight(PromoleculeDensity((zs[:3], sites[:3])), PromoleculeDensity((zs[3:], sites[3:])), background=bg))):
                part.tr(N)
                try:
                    wb = np.asarray(swb.weights(pts[:N]), dtype=np.float64)
                    refb = np.concatenate([np.asarray(swb.weights(pts[i:i + 1000]), dtype=np.float64) for i in range(0, min(N, 3000), 1000)])[:min(N, 3000)]
                    ra = np.asarray(PromoleculeDensity((zs[:3], sites[:3])).rho(pts[:N]), dtype=np.float64)
                    wantb = ra / (got + bg)
                except Exception as e:
                    part.fail("batch-raise", "weights with background %g of %d points (%s) raised %r" % (bg, N, cname, e), case)
                    continue
                if wb.shape != (N,) or not (np.abs(wb[:len(refb)] - refb).max() <= 1e-6) or not (np.abs(wb - wantb).max() <= 2e-4):
                    part.fail("batch-dependence:weights-with-background", "weights with background %g (%s) of a list of %d points differ from interior/(interior+exterior+background) by %.3g"
                              % (bg, cname, N, float(np.abs(wb - wantb).max()) if wb.shape == (N,) else np.inf), case)
        part.outcome(("batch", N > 65536, N % 2))


def far_worker(part, job):
    """
    extended clusters: exterior atoms 3..25 A from the interior (the tabulated densities end at 10.58 A), evaluation points on
    shells round EVERY atom - near a far exterior atom the interior's share is ~0, the weights of the two complementary
    partitions still sum to one, and the density is still the sum over all atoms
    """
    from chmpy.interpolate.density import PromoleculeDensity, StockholderWeight

    zi, ze, dists = job
    interior = np.array([[0.0, 0.0, 0.1173], [0.0, 0.7572, -0.4692], [0.0, -0.7572, -0.4692]])[: len(zi)]
    dirs = [np.array([1.0, 0.0, 0.0]), np.array([0.6, 0.8, 0.0]), np.array([0.0, -0.6, 0.8]), np.array([-0.48, 0.6, -0.64])]
    ext = np.array([dirs[k % 4] * D + 0.05 * k for k, D in enumerate(dists)])
    ez = np.array([ze[k % len(ze)] for k in range(len(dists))])
    zi = np.array(zi)
    sh = []
    for r in (0.6, 1.2, 2.0):
        for v in itertools.product((-1, 0, 1), repeat=3):
            if any(v):
                sh.append(r * np.array(v) / np.linalg.norm(v))
    sh = np.array(sh)
    allsites = np.vstack([interior, ext])
    pts = np.vstack([a + sh for a in allsites])
    keep = np.min(np.linalg.norm(pts[:, None, :] - allsites[None, :, :], axis=2), axis=1) >= 0.3
    pts = pts[keep]
    case = {"kind": "far", "zi": [int(z) for z in zi], "ze": [int(z) for z in ze], "dists": list(dists)}
    part.ev()
    part.nstates(1)
    p32 = pts.astype(np.float32).astype(np.float64)
    ri, _ = interp.promolecule_rho(zi, interior.astype(np.float32).astype(np.float64), p32)
    re_, _ = interp.promolecule_rho(ez, ext.astype(np.float32).astype(np.float64), p32)
    try:
        for how in ("from_arrays", "constructor"):
            part.tr()
            if how == "from_arrays":
                s1 = StockholderWeight.from_arrays(zi, interior, ez, ext)
                s2 = StockholderWeight.from_arrays(ez, ext, zi, interior)
            else:
                s1 = StockholderWeight(PromoleculeDensity((zi, interior)), PromoleculeDensity((ez, ext)))
                s2 = StockholderWeight(PromoleculeDensity((ez, ext)), PromoleculeDensity((zi, interior)))
            w = np.asarray(s1.weights(pts), dtype=np.float64)
            w2 = np.asarray(s2.weights(pts), dtype=np.float64)
            ok = (ri + re_) > 1e-12
            wref = ri[ok] / (ri[ok] + re_[ok])
            dw = float(np.abs(w[ok] - wref).max())
            part.dev("far_weight_abs", dw)
            if not (dw <= 2e-4):
                k = int(np.argmax(np.abs(w[ok] - wref)))
                part.fail("far:weight-value:" + how, "extended cluster (exterior atoms %s A away, %s): weight %.6f where interior/(interior+exterior) = %.6f at %s"
                          % (list(dists), how, w[ok][k], wref[k], np.round(pts[ok][k], 3)), case)
            if np.nanmin(w) < 0 or not (np.nanmax(w) <= 1 + 1e-6):
                part.fail("far:weight-range:" + how, "weight outside [0,1] in an extended cluster", case)
            if not (np.abs(w[ok] + w2[ok] - 1).max() <= 1e-5):
                part.fail("far:weight-complement:" + how, "complementary weights of an extended cluster sum to %.6f at worst" % float((w[ok] + w2[ok])[np.argmax(np.abs(w[ok] + w2[ok] - 1))]), case)
        part.tr()
        got = np.asarray(PromoleculeDensity((np.concatenate([zi, ez]), allsites)).rho(pts), dtype=np.float64)
        e = relerr(got, ri + re_)
        part.dev("far_sum_rel", e)
        if not (e <= REL):
            part.fail("far:sum-of-atoms", "density of an extended cluster deviates from the sum of atomic densities (rel. %.3g)" % e, case)
    except Exception as ex:
        part.fail("far:raise", "extended cluster raised %r" % ex, case)
    part.outcome(("far", len(dists), max(dists) > 10.58))


def cluster_worker(part, natoms):
    """
    large atom counts (a crystal environment holds thousands of atoms): a cubic lattice cluster of `natoms` atoms, evaluated at points
    near its centre - the density is still the sum of the tabulated atomic densities, additive over a split of the cluster
    """
    from chmpy.interpolate.density import PromoleculeDensity

    n = int(round(natoms ** (1.0 / 3.0))) + 1
    g = (np.arange(n) - (n - 1) / 2.0) * 1.9
    sites = np.array(list(itertools.product(g, g, g)))
    order = np.argsort(np.linalg.norm(sites + np.array([0.11, 0.07, 0.03]), axis=1), kind="stable")
    sites = sites[order][:natoms]
    zs = np.array([(1, 6, 8, 7, 17)[k % 5] for k in range(natoms)])
    pts = np.array(list(itertools.product((-0.95, 0.3, 0.95), repeat=3))) + np.array([0.05, -0.02, 0.04])
    keep = np.min(np.linalg.norm(pts[:, None, :] - sites[None, :, :], axis=2), axis=1) >= 0.3
    pts = pts[keep]
    case = {"kind": "cluster", "natoms": int(natoms)}
    part.ev()
    part.nstates(1)
    part.tr(3)
    try:
        got = np.asarray(PromoleculeDensity((zs, sites)).rho(pts), dtype=np.float64)
        half = natoms // 2
        ga = np.asarray(PromoleculeDensity((zs[:half], sites[:half])).rho(pts), dtype=np.float64)
        gb = np.asarray(PromoleculeDensity((zs[half:], sites[half:])).rho(pts), dtype=np.float64)
    except Exception as e:
        part.fail("cluster:raise", "a cluster of %d atoms raised %r" % (natoms, e), case)
        return
    want, alt = interp.promolecule_rho(zs, sites.astype(np.float32).astype(np.float64), pts.astype(np.float32).astype(np.float64))
    e = relerr(got, want, alt)
    part.dev("cluster_sum_rel", e)
    if not (e <= REL):
        part.fail("cluster:sum-of-atoms", "density of a cluster of %d atoms deviates from the sum of tabulated atomic densities (rel. err %.3g)" % (natoms, e), case)
    e = relerr(ga + gb, got)
    if not (e <= 1e-5):
        part.fail("cluster:additivity", "rho(A u B) != rho(A) + rho(B) (rel. %.3g) for a cluster of %d atoms split in two" % (e, natoms), case)
    part.outcome(("cluster", natoms > 4096))


def count_sweep_worker(part, ns):
    """
    EVERY atom count of an interval (a blocked / chunked evaluation that mishandles some remainder has nowhere to hide below the bound):
    n atoms of a lattice cluster listed in a scrambled order, evaluated 0.6 A from the first, the middle and the LAST atoms of the
    list (a dropped or doubled atom changes the density next to it by orders of magnitude) - still the sum of the tabulated atoms
    """
    from chmpy.interpolate.density import PromoleculeDensity

    for natoms in ns:
        m = int(round(natoms ** (1.0 / 3.0))) + 1
        g = (np.arange(m) - (m - 1) / 2.0) * 1.9
        sites = np.array(list(itertools.product(g, g, g)))
        order = np.argsort(np.linalg.norm(sites + np.array([0.11, 0.07, 0.03]), axis=1), kind="stable")
        sites = sites[order][:natoms]
        perm = np.argsort((np.arange(natoms) * 37 + 11) % 101, kind="stable")       # listed neither by distance nor by element
        sites = sites[perm]
        zs = np.array([(1, 6, 8, 7, 17, 16, 35)[k % 7] for k in range(natoms)])
        idx = sorted(set([0, natoms // 3, natoms // 2, max(0, natoms - 12), max(0, natoms - 2), natoms - 1]))
        pts = sites[idx] + np.array([0.45, 0.3, -0.25])
        case = {"kind": "count", "natoms": int(natoms)}
        part.ev()
        part.state(("count", int(natoms)))
        part.tr(len(pts))
        try:
            got = np.asarray(PromoleculeDensity((zs, sites)).rho(pts), dtype=np.float64)
        except Exception as e:
            part.fail("count:raise", "a cluster of %d atoms raised %r" % (natoms, e), case)
            continue
        want, alt = interp.promolecule_rho(zs, sites.astype(np.float32).astype(np.float64), pts.astype(np.float32).astype(np.float64))
        e = relerr(got, want, alt)
        part.dev("count_sweep_rel", e)
        if not (e <= REL):
            part.fail("count:sum-of-atoms:%s" % ("n>48" if natoms > 48 else "n<=48"), "density of %d atoms (scrambled listing), evaluated next to the first / middle / last listed atoms, deviates from the "
                      "sum of tabulated atomic densities (rel. err %.3g)" % (natoms, e), case)
        part.outcome(("count", natoms // 64))


def pairs_worker(part, z1s):
    """
    all 103 x 103 ORDERED element pairs: atom Z1 at the origin, atom Z2 at 1.4 A - the molecule's density is the sum of the two tabulated
    atoms, and Z1's share against Z2 is the ratio (which row of the table is bound to which atom is decided per molecule, not per element)
    """
    from chmpy.interpolate.density import PromoleculeDensity, StockholderWeight

    sites = np.array([[0.0, 0.0, 0.0], [1.4, 0.0, 0.0]])
    pts = np.array([[0.7, 0.6, 0.0], [-0.5, 0.3, 0.2], [1.9, -0.4, 0.3], [0.7, 2.5, 1.0], [-3.0, 0.0, 0.5], [4.5, 1.0, -1.0]])
    p32 = pts.astype(np.float32).astype(np.float64)
    s32 = sites.astype(np.float32).astype(np.float64)
    single = {z: interp.promolecule_rho(np.array([z]), s32[:1], p32) for z in range(1, 104)}
    second = {z: interp.promolecule_rho(np.array([z]), s32[1:], p32) for z in range(1, 104)}
    for z1 in z1s:
        for z2 in range(1, 104):
            part.ev()
            part.tr(2)
            case = {"kind": "pair", "z1": int(z1), "z2": int(z2)}
            zs = np.array([z1, z2])
            try:
                got = np.asarray(PromoleculeDensity((zs, sites)).rho(pts), dtype=np.float64)
                w = np.asarray(StockholderWeight.from_arrays(zs[:1], sites[:1], zs[1:], sites[1:]).weights(pts), dtype=np.float64)
            except Exception as e:
                part.fail("pair:raise", "the pair Z=%d, Z=%d raised %r" % (z1, z2, e), case)
                continue
            want = single[z1][0] + second[z2][0]
            alt = single[z1][1] + second[z2][1]
            e = relerr(got, want, alt)
            part.dev("pair_sum_rel", e)
            if not (e <= REL):
                part.fail("pair:sum-of-atoms", "density of the pair Z=%d (origin), Z=%d (1.4 A) deviates from the sum of the two tabulated atoms (rel. err %.3g)" % (z1, z2, e), case)
                continue
            wref = single[z1][0] / (single[z1][0] + second[z2][0])
            dw = float(np.abs(w - wref).max())
            part.dev("pair_weight_abs", dw)
            if not (dw <= 2e-4):
                part.fail("pair:weight", "stockholder weight of Z=%d against Z=%d deviates by %.3g from interior/(interior+exterior)" % (z1, z2, dw), case)
        part.nstates(1)
        part.outcome(("pair", int(z1) % 5))


def all_elements_worker(part, order):
    """one molecule holding all 103 elements (every row of the table bound at once), in three atom orders"""
    from chmpy.interpolate.density import PromoleculeDensity

    zs = np.arange(1, 104)
    g = np.arange(5) * 2.1
    sites = np.array(list(itertools.product(g, g, g)))[:103]
    perm = {"ascending": np.arange(103), "descending": np.arange(103)[::-1], "scrambled": (np.arange(103) * 37) % 103}[order]
    pts = sites[::9] + np.array([0.6, 0.5, 0.4])
    case = {"kind": "all-elements", "order": order}
    part.ev()
    part.tr()
    part.nstates(1)
    try:
        got = np.asarray(PromoleculeDensity((zs[perm], sites[perm])).rho(pts), dtype=np.float64)
    except Exception as e:
        part.fail("all-elements:raise", "a molecule of all 103 elements raised %r" % e, case)
        return
    want, alt = interp.promolecule_rho(zs, sites.astype(np.float32).astype(np.float64), pts.astype(np.float32).astype(np.float64))
    e = relerr(got, want, alt)
    part.dev("all_elements_rel", e)
    if not (e <= REL):
        part.fail("all-elements:sum-of-atoms", "density of a molecule holding all 103 elements (%s order) deviates from the sum of tabulated atoms (rel. err %.3g)" % (order, e), case)
    part.outcome(("all-elements", order))


def far_origin_worker(part, offset):
    """
    molecules far from the coordinate origin (cut out of a big simulation box): the density is a function of point-atom DISTANCES, which
    float32 coordinates at 1e2 .. 1e4 A still give to ~1e-7 relative when formed as differences - but not when formed as
    |p|^2 + |a|^2 - 2 p.a.  The reference is evaluated at the float32-rounded coordinates the kernel receives
    """
    from chmpy.interpolate.density import PromoleculeDensity, StockholderWeight

    off = np.array(offset, dtype=float)
    zs = np.array([8, 1, 1, 6, 17])
    sites = np.array([[0.0, 0.0, 0.1173], [0.0, 0.7572, -0.4692], [0.0, -0.7572, -0.4692], [2.9, 0.2, 0.1], [0.3, -3.1, 1.2]])
    pts = eval_points(sites)
    s_in = (sites + off)
    p_in = (pts + off)
    s32 = s_in.astype(np.float32).astype(np.float64)
    p32 = p_in.astype(np.float32).astype(np.float64)
    keep = np.min(np.linalg.norm(p32[:, None, :] - s32[None, :, :], axis=2), axis=1) >= 0.3
    case = {"kind": "far-origin", "offset": [float(x) for x in off]}
    part.ev()
    part.tr(2)
    part.nstates(1)
    try:
        got = np.asarray(PromoleculeDensity((zs, s_in)).rho(p_in), dtype=np.float64)
        w = np.asarray(StockholderWeight.from_arrays(zs[:3], s_in[:3], zs[3:], s_in[3:]).weights(p_in), dtype=np.float64)
    except Exception as e:
        part.fail("far-origin:raise", "a molecule at %s raised %r" % (list(off), e), case)
        return
    want, alt = interp.promolecule_rho(zs, s32, p32)
    e = relerr(got[keep], want[keep], alt[keep])
    part.dev("far_origin_sum_rel", e)
    if not (e <= REL):
        part.fail("far-origin:sum-of-atoms", "density of a 5-atom molecule displaced by %s deviates from the sum of tabulated atomic densities at the coordinates handed over (rel. err %.3g)"
                  % ([float(x) for x in off], e), case)
    wa, _ = interp.promolecule_rho(zs[:3], s32[:3], p32)
    wb, _ = interp.promolecule_rho(zs[3:], s32[3:], p32)
    dw = float(np.abs(w[keep] - (wa / (wa + wb))[keep]).max())
    part.dev("far_origin_weight_abs", dw)
    if not (dw <= 2e-4):
        part.fail("far-origin:weights", "stockholder weights of a molecule displaced by %s deviate by %.3g from interior/(interior+exterior)" % ([float(x) for x in off], dw), case)
    part.outcome(("far-origin", float(np.abs(off).max()) >= 1e3))


def empty_exterior_worker(part, zi):
    """an isolated molecule: NO exterior atoms at all (shape (0,3)); the weight is interior / (interior + background), i.e. 1 without
    background and below 1 with it - through the constructor and through from_arrays"""
    from chmpy.interpolate.density import PromoleculeDensity, StockholderWeight

    zi = np.array(zi)
    interior = np.array([[0.0, 0.0, 0.1173], [0.0, 0.7572, -0.4692], [0.0, -0.7572, -0.4692]])[: len(zi)]
    pts = eval_points(interior)
    ri, _ = interp.promolecule_rho(zi, interior.astype(np.float32).astype(np.float64), pts.astype(np.float32).astype(np.float64))
    for bg in (0.0, 1e-5, 1e-3, 1e-1):
        for how in ("from_arrays", "constructor"):
            part.ev()
            part.tr()
            case = {"kind": "empty-exterior", "zi": [int(z) for z in zi]}
            try:
                if how == "from_arrays":
                    s_ = StockholderWeight.from_arrays(zi, interior, np.zeros(0, dtype=int), np.zeros((0, 3)), background=bg)
                else:
                    s_ = StockholderWeight(PromoleculeDensity((zi, interior)), PromoleculeDensity((np.zeros(0, dtype=int), np.zeros((0, 3)))), background=bg)
                w = np.asarray(s_.weights(pts), dtype=np.float64)
            except Exception as e:
                part.fail("empty-exterior:raise:%s" % how, "StockholderWeight with no exterior atoms (%s, background %g) raised %r" % (how, bg, e), case)
                continue
            ok = ri + bg > 1e-12
            wref = ri[ok] / (ri[ok] + bg)
            dw = float(np.abs(w[ok] - wref).max()) if ok.any() else 0.0
            if not (dw <= 2e-4):
                part.fail("empty-exterior:weight:%s" % how, "no exterior atoms, background %g (%s): weight deviates by %.3g from interior/(interior+background)" % (bg, how, dw), case)
            part.outcome(("empty-exterior", how, bg > 0))
    part.nstates(1)


def argument_history_worker(part, _):
    """
    the SAME array object handed over twice with its contents changed in between (a read-only view of a buffer the caller updates in
    place - a trajectory frame, a memory map, shared memory): the second answer is for the coordinates as they are then; also for the
    same writable array edited in place, and for the atom positions the object was built from
    """
    from chmpy.interpolate.density import PromoleculeDensity, StockholderWeight

    zs = np.array([8, 1, 1])
    sites = np.array([[0.0, 0.0, 0.1173], [0.0, 0.7572, -0.4692], [0.0, -0.7572, -0.4692]])
    ez, ext = np.array([6, 8]), np.array([[2.9, 0.2, 0.1], [3.9, 0.9, 0.3]])
    d = PromoleculeDensity((zs, sites))
    sw = StockholderWeight.from_arrays(zs, sites, ez, ext)
    for dtype in (np.float64, np.float32):
        for readonly in (True, False):
            base = eval_points(np.vstack([sites, ext])).astype(dtype)
            arr = base.view()
            if readonly:
                arr.setflags(write=False)
            case = {"kind": "arghist"}
            part.ev()
            for step, shift in enumerate((0.0, 0.37, -0.21)):
                base += dtype(shift)
                part.tr(2)
                p64 = np.asarray(base, dtype=np.float32).astype(np.float64)
                want, alt = interp.promolecule_rho(zs, sites.astype(np.float32).astype(np.float64), p64)
                keep = np.min(np.linalg.norm(p64[:, None, :] - np.vstack([sites, ext])[None, :, :], axis=2), axis=1) >= 0.3
                got = np.asarray(d.rho(arr), dtype=np.float64)
                if not (relerr(got[keep], want[keep], alt[keep]) <= REL):
                    part.fail("argument-history:rho", "rho of the same %s %s array object after its contents were changed in place (step %d) is not the density at the current coordinates"
                              % ("read-only" if readonly else "writable", np.dtype(dtype).name, step), case)
                    break
                wa, _ = interp.promolecule_rho(ez, ext.astype(np.float32).astype(np.float64), p64)
                w = np.asarray(sw.weights(arr), dtype=np.float64)
                if not (np.abs(w[keep] - want[keep] / (want[keep] + wa[keep])).max() <= 2e-4):
                    part.fail("argument-history:weights", "weights of the same %s %s array object after its contents were changed in place (step %d) are not the weights at the current coordinates"
                              % ("read-only" if readonly else "writable", np.dtype(dtype).name, step), case)
                    break
            part.outcome(("arghist", readonly, np.dtype(dtype).name))
    part.nstates(4)
    # the arrays the object was BUILT from, edited by the caller afterwards (a scratch buffer reused for the next molecule).  Whether the
    # object keeps a snapshot or a view of them is its own business - but it is one or the other: what it answers after the edit
    # does not depend on whether it had been asked anything before the edit, and it is the sum of the atoms as built or as edited
    pts = eval_points(sites)[::3]
    p64 = pts.astype(np.float32).astype(np.float64)
    for zt in (np.int32, np.int64, np.uint8):
        for pt in (np.float32, np.float64):
            for edit in ("elements", "positions"):
                part.ev()
                part.tr(3)
                case = {"kind": "arghist"}
                answers = []
                for asked_before in (True, False):
                    z_in = np.array([8, 1, 1], dtype=zt)
                    s_in = sites.astype(pt)
                    obj = PromoleculeDensity((z_in, s_in))
                    swo = StockholderWeight.from_arrays(z_in, s_in, ez, ext)
                    if asked_before:
                        obj.rho(pts)
                        swo.weights(pts)
                    if edit == "elements":
                        z_in[:] = [17, 6, 6]
                    else:
                        s_in += pt(0.4)
                    answers.append((np.asarray(obj.rho(pts), dtype=np.float64), np.asarray(swo.weights(pts), dtype=np.float64)))
                (ra, wa_), (rb, wb_) = answers
                if not (relerr(ra, rb) <= 1e-5) or not (np.abs(wa_ - wb_).max() <= 1e-5):
                    part.fail("constructor-arrays:history", "atoms given as %s / %s arrays, the caller's %s array edited after construction: the density / weights answered afterwards depend on whether "
                              "the object had been evaluated before the edit (rel. %.3g, weights %.3g)" % (np.dtype(zt).name, np.dtype(pt).name, edit, relerr(ra, rb), float(np.abs(wa_ - wb_).max())), case)
                    continue
                as_built, alt_b = interp.promolecule_rho(np.array([8, 1, 1]), sites.astype(np.float32).astype(np.float64), p64)
                z_now = np.array([17, 6, 6]) if edit == "elements" else np.array([8, 1, 1])
                s_now = (sites.astype(pt) + pt(0.4) if edit == "positions" else sites).astype(np.float32).astype(np.float64)
                as_edited, alt_e = interp.promolecule_rho(z_now, s_now, p64)
                keep = np.min(np.linalg.norm(p64[:, None, :] - np.vstack([sites, s_now])[None, :, :], axis=2), axis=1) >= 0.3
                if not (min(relerr(ra[keep], as_built[keep], alt_b[keep]), relerr(ra[keep], as_edited[keep], alt_e[keep])) <= REL):
                    part.fail("constructor-arrays:value", "atoms given as %s / %s arrays, the caller's %s array edited after construction: the density is neither that of the atoms as built nor "
                              "as edited" % (np.dtype(zt).name, np.dtype(pt).name, edit), case)
                part.outcome(("ctor-arrays", np.dtype(zt).name, np.dtype(pt).name, edit))


def worker(part, job, seed):
    if job[0] == "arghist":
        argument_history_worker(part, None)
        return
    if job[0] == "empty-exterior":
        empty_exterior_worker(part, job[1])
        return
    if job[0] == "pairs":
        pairs_worker(part, job[1])
        return
    if job[0] == "far-origin":
        far_origin_worker(part, job[1])
        return
    if job[0] == "all-elements":
        all_elements_worker(part, job[1])
        return
    if job[0] == "cluster":
        cluster_worker(part, job[1])
        return
    if job[0] == "count":
        count_sweep_worker(part, job[1])
        return
    if job[0] == "far":
        far_worker(part, job[1])
        return
    if job[0] == "batch":
        batch_worker(part, job[1])
        return
    if job[0] == "table":
        table_worker(part, job[1])
    else:
        config_worker(part, job[1], seed, job[2])


def run(ctx):
    from mc.core import chunked

    jobs = [("table", list(c)) for c in chunked(range(1, 104), 7)]
    kmax = 4 if ctx.thorough else 3
    configs = []
    idx = 0
    for k in range(1, kmax + 1):
        for sites_idx in itertools.combinations(range(N_PLAIN_SITES), k):
            for zs in itertools.product(ELEMENTS, repeat=k):
                if k == 4 and not ctx.thorough:
                    continue
                configs.append((idx, (sites_idx, zs)))
                idx += 1
    # coincident and nearly coincident atoms (mixed / split sites: two elements sharing one position): site 7 = site 0, site 8 = site 1 + 1e-4 A
    for k in (2, 3):
        for sites_idx in ((0, 7), (1, 8), (0, 7, 3), (0, 1, 8), (4, 0, 7)):
            if len(sites_idx) != k:
                continue
            for zs in itertools.product(ELEMENTS[:4] if k == 3 else ELEMENTS, repeat=k):
                configs.append((idx, (sites_idx, zs)))
                idx += 1
    # error handling of the constructor
    from chmpy.interpolate.density import PromoleculeDensity

    for bad in (0, 104, -1):
        try:
            PromoleculeDensity((np.array([bad]), np.zeros((1, 3))))
            ctx.fail("bad-element-accepted:%d" % bad, "PromoleculeDensity accepts atomic number %d" % bad, {"kind": "bad", "z": bad})
        except ValueError:
            pass
    far = []
    for zi, ze in (((8, 1, 1), (8, 1)), ((6,), (17,)), ((1, 1), (92, 8))):
        for dists in ((3.0, 13.0), (10.5,), (10.7,), (25.0,), (3.0, 8.0, 10.6, 15.0), (12.0, 12.5, 30.0)):
            far.append(("far", (zi, ze, dists)))
    jobs += far
    jobs.append(("arghist", None))
    jobs += [("empty-exterior", zi) for zi in ((8, 1, 1), (6,), (92, 17))]
    jobs += [("pairs", list(c)) for c in chunked(range(1, 104), 4)]
    jobs += [("all-elements", o) for o in ("ascending", "descending", "scrambled")]
    jobs += [("far-origin", o) for o in ((0.0, 0.0, 0.0), (100.0, -200.0, 300.0), (1000.0, -500.0, 2000.0), (-3000.0, 0.0, 0.0), (10000.0, 20000.0, -15000.0))]
    count_to = 1100 if ctx.thorough else 300
    jobs += [("count", list(c)) for c in chunked(range(1, count_to + 1), 25)]
    jobs += [("cluster", n) for n in ((255, 256, 257, 1000, 4095, 4096, 4097, 8193) if not ctx.thorough else (255, 256, 257, 1000, 4095, 4096, 4097, 8193, 16385))]      # (beyond ~16k atoms the constructor's full SVD of the 3 x N coordinate matrix needs N^2 numbers: 17 GB at 65537 atoms - infeasible here, see DESIGN)
    bs = BATCH_SIZES if ctx.thorough else tuple(n for n in BATCH_SIZES if n <= 70001)
    jobs += [("batch", bs[i::4]) for i in range(4)]
    jobs += [("config", c, 20 if not ctx.thorough else 5) for c in chunked(configs, max(1, len(configs) // 200))]
    ctx.pmap(worker, jobs, seed=ctx.seed)
    ctx.rule = ("(a) Z=1..103 x 4095 table intervals x t in {1/4,3/4} + 8 radii beyond the table end (r >= 0.3 A); (b) placements of 1..%d atoms from %s on a "
                "7-point set (%d configurations%s) x <=125 points of a 0.9 A lattice (>= 0.3 A from nuclei): sum of atoms, positivity, all atom orders, all "
                "bipartitions (additivity; weights with 3 backgrounds; complements), rigid motions (23 octahedral + 3 generic rotations + 3 translations + 1 "
                "combined: all of them on every %dth configuration, 3 on the others); distinct = elements and configurations"
                % (kmax, ELEMENTS, len(configs), "", 5 if ctx.thorough else 20))
    ctx.rule += "; (count sweep) EVERY atom count 1..%d of a scrambled lattice cluster, evaluated next to its first / middle / last listed atoms" % count_to
    ctx.bounds = {"atom_count_sweep": [1, count_to], "configurations": len(configs), "max_atoms": kmax, "rel_tol": REL, "batch_sizes": list(bs), "far_from_origin": "a 5-atom molecule displaced by 0, 3e2, 2e3, 3e3, 2e4 A (reference at the float32-rounded coordinates)", "element_pairs": "all 103 x 103 ordered pairs (density and share) + one molecule of all 103 elements in 3 orders", "extended_clusters": "%d clusters with exterior atoms 3..30 A from the interior, points on shells round every atom" % len(far)}
    ctx.assumptions = ["the reference is evaluated at the float32-rounded coordinates the kernel receives", "beyond the table end either fill value (last tabulated value or 0) is accepted",
                       "points within 0.3 A of a nucleus excluded, as the property says", "compiled kernel exercised as built; Python-side row binding, unit handling and wrappers are live"]
    ctx.sample({"a_configuration": {"sites": [0, 4], "zs": [8, 1]}, "n_points": int(len(eval_points(SITES[[0, 4]])))})


def replay(ctx, case):
    if case["kind"] == "table":
        table_worker(ctx, [case["z"]])
    elif case["kind"] == "config":
        config_worker(ctx, [(0, (tuple(case["sites"]), tuple(case["zs"])))], case["seed"], 1)
    elif case["kind"] == "empty-exterior":
        empty_exterior_worker(ctx, tuple(case["zi"]))
    elif case["kind"] == "arghist":
        argument_history_worker(ctx, None)
    elif case["kind"] == "cluster":
        cluster_worker(ctx, case["natoms"])
    elif case["kind"] == "count":
        count_sweep_worker(ctx, [case["natoms"]])
    elif case["kind"] == "far-origin":
        far_origin_worker(ctx, tuple(case["offset"]))
    elif case["kind"] == "pair":
        pairs_worker(ctx, [case["z1"]])
    elif case["kind"] == "all-elements":
        all_elements_worker(ctx, case["order"])
    elif case["kind"] == "far":
        far_worker(ctx, (tuple(case["zi"]), tuple(case["ze"]), tuple(case["dists"])))
    elif case["kind"] == "batch":
        batch_worker(ctx, [case["N"]])

"""
C04 - unit-cell molecules partition the cell into whole, symmetry-related molecules.

Rigid molecules (mc.ref.mol) placed on a grid of centres that straddle 0..3 cell faces, in every
space-group setting; the reference computes all images exactly and filters by the property's
precondition (general position, contacts clearly longer than the bonding threshold).
"""
import itertools

import numpy as np

from mc import xtal
from mc.ref import lattice, mol, symm
from mc.ref.mol import rot

PROPERTY = "C04"
LEVEL = "exploration"


def make_directed(row, case):
    """
    a homonuclear diatomic with a LONG bond (Cl-Cl 1.99 A, C-C 1.53 A) laid along a reciprocal axis, i.e. perpendicular to a
    cell face, with its first atom a hair inside that face and the second one outside: the periodic bond that crosses
    the face as steeply as possible
    """
    ops = [symm.decode(c) for c in row["symops"]]
    d = case["directed"]
    if d.get("bigcell"):
        # a cell of realistic size: n^3 water molecules on a grid of 3.6 A spacing (648 .. 2187 atoms in P1, twice that in P-1), every
        # molecule in one generic orientation, the grid offset so that the molecules of the first layers straddle the cell faces
        n, sp, off = d["n"], d.get("spacing", 3.6), d.get("offset", 0.1)
        cell = (sp * n, sp * n, sp * n, 90.0, 90.0, 90.0)
        M = lattice.cell_matrix(*cell)
        Mi = np.linalg.inv(M)
        syms_w, xyz_w, bnd_w = mol.TEMPLATES["H2O"]
        xyz_w = np.asarray(xyz_w) @ rot((1, 2, 3), 0.7).T
        symbols, frac, molidx, bonds = [], [], [], []
        for mi_, (i, j, k) in enumerate(itertools.product(range(n), repeat=3)):
            c = (np.array([i, j, k], dtype=float) + off) / n
            o = len(symbols)
            symbols += list(syms_w)
            frac += [tuple(p) for p in (c @ M + xyz_w) @ Mi]
            molidx += [mi_] * len(syms_w)
            bonds += [(o + a, o + b) for a, b in bnd_w]
        if d.get("listing") == "heavy-first":
            order = sorted(range(len(symbols)), key=lambda q: (symbols[q] == "H", q))
            inv = {old_: new_ for new_, old_ in enumerate(order)}
            symbols, frac, molidx, bonds = [symbols[q] for q in order], [frac[q] for q in order], [molidx[q] for q in order], [(inv[a], inv[b]) for a, b in bonds]
        asym = {"symbols": symbols, "frac": np.array(frac), "molidx": molidx, "bonds": bonds, "cell": cell, "M": M}
        return ops, cell, asym, mol.images(ops, asym)
    if d.get("manymol"):
        # a medium-sized asymmetric unit: n water molecules (3n sites) in general positions of ANY setting, centres placed one by one
        # from a low-discrepancy sequence so that all symmetry images of all centres stay 4.9 A apart (atoms of different molecules then
        # are at least 2.9 A apart), each molecule in its own orientation
        from mc.checks.c13 import many_sites

        n = d["n"]
        cell = mol.scaled_cell(row["number"], row["choice"], len(ops), max(1, int(n * 3.2)), 0)
        M = lattice.cell_matrix(*cell)
        Mi = np.linalg.inv(M)
        centres = many_sites(ops, M, n, 0.0071 * (row["number"] % 13), dmin=4.9)
        if len(centres) < n:
            raise RuntimeError("could not place %d molecules in %s:%s" % (n, row["number"], row["choice"]))
        syms_w, xyz_w, bnd_w = mol.TEMPLATES["H2O"]
        symbols, frac, molidx, bonds = [], [], [], []
        for mi_, c in enumerate(centres):
            xyz = np.asarray(xyz_w) @ rot((1 + mi_ % 3, 2, 3 - mi_ % 5), 0.7 + 0.37 * mi_).T
            o = len(symbols)
            symbols += list(syms_w)
            frac += [tuple(p) for p in (c @ M + xyz) @ Mi]
            molidx += [mi_] * len(syms_w)
            bonds += [(o + a, o + b) for a, b in bnd_w]
        if d.get("listing") == "heavy-first":
            order = sorted(range(len(symbols)), key=lambda q: (symbols[q] == "H", q))
            inv = {old_: new_ for new_, old_ in enumerate(order)}
            symbols, frac, molidx, bonds = [symbols[q] for q in order], [frac[q] for q in order], [molidx[q] for q in order], [(inv[a], inv[b]) for a, b in bonds]
        asym = {"symbols": symbols, "frac": np.array(frac), "molidx": molidx, "bonds": bonds, "cell": cell, "M": M}
        return ops, cell, asym, mol.images(ops, asym)
    if d.get("rod"):
        # a polyyne rod H-(C)n-H lying in the ab plane at 45 degrees to a SHORT a axis: it spans several cells along a while
        # staying 3.5 A away from its own a-translates; listed from either end, starting in / above / below the reference cell
        u = np.array([np.cos(np.pi / 4), np.sin(np.pi / 4), 0.0])
        off = [0.0, 1.06]
        for k in range(d["ncarbon"] - 1):
            off.append(off[-1] + (1.21 if k % 2 == 0 else 1.37))
        off.append(off[-1] + 1.06)
        n = len(off)
        bonds = [(i, i + 1) for i in range(n - 1)]
        # b is taken from a short list: the first value for which the rod clears all its own lattice translates (reference-decided)
        for b in (16.0, 17.0, 18.3, 19.1, 21.7, 23.9):
            cell = (5.0, b, 8.0 * max(1, len(ops) // 2), 90.0, 90.0, 90.0)
            M = lattice.cell_matrix(*cell)
            Mi = np.linalg.inv(M)
            start = np.array(d["start"]) @ M
            cart = start[None, :] - np.array(off)[:, None] * u[None, :]
            frac = cart @ Mi
            syms_rod = ["H"] + ["C"] * d["ncarbon"] + ["H"]
            # listing order of the chain: natural, reversed, or scrambled (even positions first / a fixed pseudo-random order), so
            # that inner atoms are reached from neighbours listed AFTER them
            order = {"reversed": list(range(n))[::-1], "even-odd": list(range(0, n, 2)) + list(range(1, n, 2)),
                     "scrambled": sorted(range(n), key=lambda i: (i * 7919 + 13) % 31)}.get(d.get("listing") or ("reversed" if d.get("swap") else None), list(range(n)))
            inv = {old: new for new, old in enumerate(order)}
            frac = frac[order]
            asym = {"symbols": [syms_rod[i] for i in order], "frac": frac, "molidx": [0] * n, "bonds": [(inv[a], inv[b]) for a, b in bonds], "cell": cell, "M": M}
            imgs = mol.images(ops, asym)
            if mol.precondition(asym, imgs)[0]:
                break
        return ops, cell, asym, imgs
    cell = mol.scaled_cell(row["number"], row["choice"], len(ops), 1, case.get("cellvar", 0))
    M = lattice.cell_matrix(*cell)
    Mi = np.linalg.inv(M)
    astar = Mi[:, d["axis"]] / np.linalg.norm(Mi[:, d["axis"]])
    f1 = np.array([0.47, 0.31, 0.59])
    f1[d["axis"]] = 0.004 if d["side"] < 0 else 0.996
    length = d.get("length") or {"Cl": 1.99, "C": 1.53, "S": 2.05}[d["element"]]
    p1 = f1 @ M
    p2 = p1 + d["side"] * length * astar
    frac = np.array([p1, p2]) @ Mi
    if d.get("swap"):
        frac = frac[::-1]
    asym = {"symbols": [d["element"]] * 2, "frac": frac, "molidx": [0, 0], "bonds": [(0, 1)], "cell": cell, "M": M}
    return ops, cell, asym, mol.images(ops, asym)


def make(row, case):
    if case.get("directed"):
        return make_directed(row, case)
    ops = [symm.decode(c) for c in row["symops"]]
    zk = case["zkind"]
    cell = mol.scaled_cell(row["number"], row["choice"], len(ops), len(mol.ZPRIME[zk]), case.get("cellvar", 0))
    orient = mol.orientations(case.get("seed", 0))[case["orient"]]
    asym = mol.build(row, cell, case["centre"], orient, zk)
    if case.get("listing"):
        # the order in which a file lists the atoms of the asymmetric unit is not part of the structure: molecules listed atom by atom in
        # turn (interleaved), heavy atoms of all molecules first and hydrogens last, or the whole list reversed
        n = len(asym["symbols"])
        mi = asym["molidx"]
        rank = [sum(1 for j in range(i) if mi[j] == mi[i]) for i in range(n)]
        order = {"interleaved": sorted(range(n), key=lambda i: (rank[i], mi[i])),
                 "heavy-first": sorted(range(n), key=lambda i: (asym["symbols"][i] == "H", i)),
                 "reversed": list(range(n))[::-1]}[case["listing"]]
        inv = {old_: new_ for new_, old_ in enumerate(order)}
        asym = dict(asym, symbols=[asym["symbols"][i] for i in order], frac=asym["frac"][order], molidx=[mi[i] for i in order],
                    bonds=[(inv[a], inv[b]) for a, b in asym["bonds"]])
    if case.get("labels") == "repeated":
        # every molecule of the asymmetric unit uses the SAME atom names (O1, H1, H2 in each water - as files converted from PDB do)
        mi = asym["molidx"]
        seen = {}
        labs = []
        for i, sy in enumerate(asym["symbols"]):
            k = (mi[i], sy)
            seen[k] = seen.get(k, 0) + 1
            labs.append("%s%d" % (sy, seen[k]))
        asym = dict(asym, labels=labs)
    imgs = mol.images(ops, asym)
    return ops, cell, asym, imgs


def check_case(part, row, case):
    sk = "%d:%s" % (row["number"], row["choice"])
    try:
        ops, cell, asym, imgs = make(row, case)
    except RuntimeError as e:
        if "could not place" not in str(e):
            raise
        part.skip("could not place the molecules of a medium-sized asymmetric unit")
        return None
    ok, why = mol.precondition(asym, imgs)
    if not ok:
        part.skip(why)
        return None
    part.ev()
    M = asym["M"]
    Minv = np.linalg.inv(M)
    el = mol.element_data()
    zk = case["zkind"]
    key_suffix = "%s" % zk
    try:
        c = xtal.make_crystal(row["number"], row["choice"], cell, asym["symbols"], asym["frac"], **({"labels": asym["labels"]} if asym.get("labels") else {}))
        uc = c.unit_cell_atoms()
        mols = c.unit_cell_molecules()
    except Exception as e:
        part.fail("raise-molecules:%s" % key_suffix, "unit_cell_molecules raised %s in %s (%s)" % (type(e).__name__, sk, zk), case)
        return False
    part.tr()
    n_uc = len(uc["frac_pos"])
    nfail = len(part.failures)
    want_n = len(imgs)
    if len(mols) != want_n:
        part.fail("count:%s" % key_suffix, "%d molecules in the unit cell of %s, expected Z' x |G| = %d" % (len(mols), sk, want_n), case)
    # partition
    allidx = np.concatenate([np.asarray(m.properties["unit_cell_atoms"]) for m in mols]) if mols else np.array([], int)
    if sorted(allidx.tolist()) != list(range(n_uc)):
        part.fail("partition:%s" % key_suffix, "unit-cell molecules do not partition the %d unit-cell atoms of %s" % (n_uc, sk), case)
    cart0 = asym["frac"] @ M
    Zs = np.array([el[s][0] for s in asym["symbols"]])
    # model molecules keyed by rounded COM
    model = {}
    for im in imgs:
        model[tuple(np.round(im["com"], 5))] = im
    matched = 0
    for m in mols:
        idx = np.asarray(m.properties["unit_cell_atoms"])
        aidx = np.asarray(m.properties["asymmetric_unit_atoms"])
        f = np.asarray(m.positions) @ Minv
        diff = f - uc["frac_pos"][idx]
        if not (np.abs(diff - np.rint(diff)).max() <= 1e-6):
            part.fail("not-lattice-translate:%s" % key_suffix, "a molecule atom is not a lattice translate of its unit-cell site in %s" % sk, case)
        if not np.array_equal(np.asarray(m.atomic_numbers), Zs[aidx]):
            part.fail("elements:%s" % key_suffix, "molecule elements differ from its parents' in %s" % sk, case)
        # internal geometry equals the parent's
        D = np.linalg.norm(np.asarray(m.positions)[:, None, :] - np.asarray(m.positions)[None, :, :], axis=2)
        D0 = np.linalg.norm(cart0[aidx][:, None, :] - cart0[aidx][None, :, :], axis=2)
        dev = np.abs(D - D0).max()
        part.dev("internal_geometry_A", dev)
        if not (dev <= 1e-6):
            part.fail("broken-molecule:%s" % key_suffix, "internal geometry of a unit-cell molecule differs from its parent's by %.3g A in %s (molecule not whole)" % (dev, sk), case)
        com = np.asarray(m.center_of_mass) @ Minv
        if not (com.min() >= -1e-9) or com.max() >= 1 + 1e-9:
            part.fail("com-outside:%s" % key_suffix, "centre of mass %s outside the reference cell in %s" % (np.round(com, 4), sk), case)
        im = model.get(tuple(np.round(com, 5)))
        if im is None:
            # tolerant search
            for k, v in model.items():
                if not (np.abs(np.asarray(k) - com).max() >= 1e-4):
                    im = v
                    break
        if im is not None:
            # same atoms
            a = sorted((int(z),) + tuple(np.round(p, 5)) for z, p in zip(m.atomic_numbers, f))
            b = sorted((int(Zs[i]),) + tuple(np.round(p, 5)) for i, p in zip(im["atoms"], im["frac"]))
            if len(a) == len(b) and not (np.abs(np.array(a) - np.array(b)).max() >= 1e-4):
                matched += 1
    if matched != want_n:
        part.fail("model-mismatch:%s" % key_suffix, "only %d of %d unit-cell molecules coincide with the exact symmetry images in %s" % (matched, want_n, sk), case)

    # symmetry-unique molecules and labelling
    try:
        uniq = c.symmetry_unique_molecules()
        part.tr()
        cover = np.concatenate([np.asarray(u.properties["asymmetric_unit_atoms"]) for u in uniq])
        if sorted(cover.tolist()) != list(range(len(asym["symbols"]))):
            part.fail("unique-cover:%s" % key_suffix, "symmetry-unique molecules do not cover every asymmetric-unit atom exactly once in %s" % sk, case)
        want_unique = len(set(asym["molidx"])) if zk == "directed" else len(mol.ZPRIME[zk])
        if len(uniq) != want_unique:
            part.fail("unique-count:%s" % key_suffix, "%d symmetry-unique molecules, expected %d in %s" % (len(uniq), want_unique, sk), case)
        for m in c.unit_cell_molecules():
            k = m.properties.get("asym_mol_idx")
            if k is None or not (0 <= k < len(uniq)):
                part.fail("label-missing:%s" % key_suffix, "a unit-cell molecule carries no valid asym_mol_idx in %s" % sk, case)
                break
            if sorted(np.asarray(uniq[k].properties["asymmetric_unit_atoms"]).tolist()) != sorted(np.asarray(m.properties["asymmetric_unit_atoms"]).tolist()):
                part.fail("label-wrong:%s" % key_suffix, "a unit-cell molecule is labelled with a unique molecule made of other parent atoms in %s" % sk, case)
                break
    except Exception as e:
        part.fail("raise-unique:%s" % key_suffix, "symmetry_unique_molecules raised %s in %s (%s)" % (type(e).__name__, sk, zk), case)

    # connectivity: edges = model bonds modulo the lattice, with the right cell offset
    try:
        g, cells = c.unit_cell_connectivity()
        part.tr()
        coo = g.tocoo()
        lib_edges = {}
        for i, j, d in zip(coo.row.tolist(), coo.col.tolist(), coo.data.tolist()):
            lib_edges[(i, j)] = (d, tuple(float(x) for x in cells[(i, j)]))
        # model edges: map model atoms to unit-cell indices by position mod 1
        from scipy.spatial import cKDTree

        tree = cKDTree(np.mod(uc["frac_pos"], 1.0), boxsize=1.0)
        want = {}
        molidx = np.asarray(asym["molidx"])
        for im in imgs:
            loc = {int(a): k for k, a in enumerate(im["atoms"])}
            for (a, b) in asym["bonds"]:
                if a not in loc:
                    continue
                pa, pb = im["frac"][loc[a]], im["frac"][loc[b]]
                _, ia = tree.query(np.mod(pa, 1.0))
                _, ib = tree.query(np.mod(pb, 1.0))
                i, j = (ia, ib) if ia < ib else (ib, ia)
                pi, pj = (pa, pb) if ia < ib else (pb, pa)
                # cell offset on j that bonds it to i (both taken at their unit-cell representatives)
                off = (pj - uc["frac_pos"][j]) - (pi - uc["frac_pos"][i])
                want[(int(i), int(j))] = (float(np.linalg.norm((pb - pa) @ M)), tuple(np.rint(off)))
        if set(want) != set(lib_edges):
            part.fail("connectivity-edges:%s" % key_suffix, "periodic bond graph has %d edges, model has %d (set differs) in %s"
                      % (len(lib_edges), len(want), sk), case)
        else:
            for e, (d, off) in want.items():
                ld, loff = lib_edges[e]
                if not (abs(ld - d) <= 1e-6) or tuple(loff) != tuple(off):
                    part.fail("connectivity-offset:%s" % key_suffix, "edge %s: length/cell offset (%.4f,%s) differs from model (%.4f,%s) in %s"
                              % (e, ld, loff, d, off, sk), case)
                    break
    except Exception as e:
        part.fail("raise-connectivity:%s" % key_suffix, "unit_cell_connectivity check raised %r in %s" % (e, sk), case)
    straddle = sum(1 for im in imgs if (im["frac"].min() < 0 or im["frac"].max() >= 1))
    part.outcome((len(ops), zk, straddle > 0))
    part.count("molecules_checked", want_n)
    part.nstates(1)
    part.count("molecules_straddling_a_face", straddle)
    return len(part.failures) == nfail


def plan(row, tier, seed, full):
    cases = []
    zkinds = ["1", "2diff", "1ooc", "1hooh_scr", "2h2_h2o", "2ar_h2o", "2h2o_ar", "1ar"] if not full else list(mol.ZPRIME)
    if full:
        centres = list(itertools.product(mol.CENTRES, repeat=3))
        orients = (0, 1, 2)
    else:
        centres = [(0.137, 0.289, 0.611), (0.983, 0.289, 0.017), (0.983, 0.983, 0.983), (0.611, 0.017, 0.137)]
        orients = (1,)
    ncell = len(lattice.compatible_cells(row["number"], row["choice"]))
    for zk in zkinds:
        for ci, ce in enumerate(centres):
            for o in orients:
                if full and (ci + o) % 3 and zk not in ("1", "2diff", "1ooc"):
                    continue  # deviation bound: other Z' kinds on a third of the grid
                cases.append({"number": row["number"], "choice": row["choice"], "zkind": zk, "centre": list(ce), "orient": o, "seed": seed})
    # listing axis: the atoms of a Z' = 2 asymmetric unit interleaved / heavy atoms first / reversed
    for zk in (("2diff", "2h2_h2o") if not full else [k for k in mol.ZPRIME if len(mol.ZPRIME[k]) > 1]):
        for ce in centres[:2] if not full else centres[::31]:
            for listing in ("interleaved", "heavy-first", "reversed"):
                cases.append({"number": row["number"], "choice": row["choice"], "zkind": zk, "centre": list(ce), "orient": orients[0], "seed": seed, "listing": listing})
    # special values: Z' = 2 with the SAME atom names in both molecules
    for zk in ("2eq", "2diff"):
        for ce in centres[:2]:
            cases.append({"number": row["number"], "choice": row["choice"], "zkind": zk, "centre": list(ce), "orient": orients[0], "seed": seed, "labels": "repeated"})
    # cell axis: the long/oblique and (triclinic, monoclinic) the strongly oblique compatible cell; molecules placed on a finer
    # grid of centres right at the cell faces, in all three orientations (bonds crossing a face at many angles)
    face = (0.004, 0.031, 0.969, 0.996, 0.47)
    for cv in range(1, ncell):
        for zk in ("1", "1ooc", "2diff", "1hooh_scr"):
            cs = [c for c in itertools.product(face, repeat=3) if sum(1 for v in c if v != 0.47) in (1, 2)] if (row["number"] <= 15 and (full or row["index_in_number"] == 0)) \
                else [(0.983, 0.289, 0.017), (0.137, 0.983, 0.611)]
            for ci, ce in enumerate(cs):
                for o in ((0, 1, 2) if row["number"] <= 15 else (1,)):
                    if row["number"] <= 15 and not full and (ci + o) % 2:
                        continue
                    cases.append({"number": row["number"], "choice": row["choice"], "zkind": zk, "centre": list(ce), "orient": o, "seed": seed, "cellvar": cv})
    # directed family: long bonds crossing each cell face perpendicularly, from either side, either atom order
    if row["number"] <= 15 or row["number"] in (146, 148):
        for cv in range(ncell):
            for el in ("Cl", "C"):
                for axis in (0, 1, 2):
                    for side in (-1, 1):
                        for swap in (False, True):
                            cases.append({"number": row["number"], "choice": row["choice"], "zkind": "directed", "centre": [0, 0, 0], "orient": 0, "seed": seed,
                                          "cellvar": cv, "directed": {"axis": axis, "side": side, "element": el, "swap": swap}})
    # rods spanning 1.6 / 2.9 / 4.3 cells along a short axis (orthogonal cell, compatible with triclinic / monoclinic settings)
    if row["number"] <= 15 and (full or row["index_in_number"] == 0):
        for nc in (8, 16, 24):
            for start in ([0.10, 0.95, 0.25], [3.10, 0.95, 0.25], [-2.90, 0.95, 0.25], [0.96, 0.07, 0.31]):
                for listing in (None, "reversed", "even-odd", "scrambled"):
                    cases.append({"number": row["number"], "choice": row["choice"], "zkind": "directed", "centre": [0, 0, 0], "orient": 0, "seed": seed,
                                  "directed": {"rod": True, "ncarbon": nc, "start": start, "listing": listing}})
    # medium-sized asymmetric units (22 / 24 waters = 66 / 72 sites) in settings with few enough operations to keep the cell affordable
    if len(row["symops"]) <= 24 and (full or (row["index_in_number"] == 0 and (row["number"] + seed) % 4 == 0) or (row["number"], row["choice"]) in ((146, "H"), (76, ""), (169, ""), (43, ""))):
        for n, listing in ((24, None), (22, "heavy-first")):
            cases.append({"number": row["number"], "choice": row["choice"], "zkind": "directed", "centre": [0, 0, 0], "orient": 0, "seed": seed,
                          "directed": {"manymol": True, "n": n, "listing": listing}})
    # realistic sizes: 648 .. 3072 atoms in the cell (water grids in P1 / P-1), listed molecule by molecule and heavy atoms first
    if row["number"] <= 2 and row["index_in_number"] == 0:
        for n in ((6, 7, 8, 9) if row["number"] == 1 else (5, 6, 7, 8)) if full else ((6, 7, 8) if row["number"] == 1 else (5, 7)):
            for off in ((0.1, 0.9) if row["number"] == 1 else (0.25,)):     # P-1: the inverted grid then sits body-centred between the listed one
                for listing in ((None, "heavy-first") if off != 0.9 else (None,)):
                    cases.append({"number": row["number"], "choice": row["choice"], "zkind": "directed", "centre": [0, 0, 0], "orient": 0, "seed": seed,
                                  "directed": {"bigcell": True, "n": n, "offset": off, "listing": listing}})
    return cases


def override_history(part, row, seed):
    """
    the documented covalent_radii= override of unit_cell_connectivity / unit_cell_molecules on one crystal must be honoured
    there and must not leak into crystals analysed afterwards with the defaults (and vice versa): all orders of
    {default analysis, overridden analysis} of length 3
    """
    case0 = {"number": row["number"], "choice": row["choice"], "zkind": "1", "centre": [0.137, 0.289, 0.611], "orient": 1, "seed": seed}
    ops, cell, asym, imgs = make(row, case0)
    ok, why = mol.precondition(asym, imgs)
    if not ok:
        part.skip(why)
        return
    sk = "%d:%s" % (row["number"], row["choice"])
    for hist in itertools.product(("default", "override"), repeat=3):
        part.ev()
        for step, what in enumerate(hist):
            part.tr()
            c = xtal.make_crystal(row["number"], row["choice"], cell, asym["symbols"], asym["frac"])
            case = dict(case0, kind="override", hist=list(hist[: step + 1]))
            try:
                if what == "override":
                    mols = c.unit_cell_molecules(covalent_radii={8: 0.05})   # O-H threshold 0.68 A: no O-H bond left
                    n_uc = len(c.unit_cell_atoms()["element"])
                    if len(mols) != n_uc:
                        part.fail("override-ignored", "covalent_radii override not honoured in %s: %d molecules for %d atoms (no bond should remain)" % (sk, len(mols), n_uc), case)
                else:
                    mols = c.unit_cell_molecules()
                    if len(mols) != len(imgs) or any(len(m) != 3 for m in mols):
                        part.fail("override-leaks:after-%s" % (hist[step - 1] if step else "start"),
                                  "default analysis of %s after the history %s gives %d molecules (expected %d whole waters): an earlier covalent_radii override leaked"
                                  % (sk, list(hist[:step]), len(mols), len(imgs)), case)
            except Exception as e:
                part.fail("override-raise", "unit_cell_molecules(%s) raised %r in %s" % (what, e, sk), case)
        part.outcome(("override", hist))
    part.nstates(8)


def tolerance_cases(part, row, seed):
    """
    the documented bond_tolerance= argument of unit_cell_molecules / symmetry_unique_molecules: a water stretched so that
    O-H = cov_O + cov_H + 0.55 A is one molecule with bond_tolerance=0.7 (bonded iff d < cov_a + cov_b + tolerance) and three
    separate atoms with the default 0.4; the ordinary water is three separate atoms with bond_tolerance=-0.2. All contacts
    between different molecules are kept (by the reference) above cov_a + cov_b + 0.9 A.
    """
    sk = "%d:%s" % (row["number"], row["choice"])
    el = mol.element_data()
    for centre, orient in (([0.137, 0.289, 0.611], 1), ([0.983, 0.017, 0.611], 2)):
        case0 = {"number": row["number"], "choice": row["choice"], "zkind": "1", "centre": centre, "orient": orient, "seed": seed, "kind": "tolerance"}
        ops, cell, asym, imgs = make(row, case0)
        M = asym["M"]
        cov = np.array([el[x][1] for x in asym["symbols"]])
        fr = np.array(asym["frac"])
        cart = fr @ M
        want = cov[0] + cov[1] + 0.55
        cart2 = cart.copy()
        for h in (1, 2):
            v = cart[h] - cart[0]
            cart2[h] = cart[0] + v * (want / np.linalg.norm(v))
        asym2 = dict(asym, frac=cart2 @ np.linalg.inv(M))
        imgs2 = mol.images(ops, asym2)
        # reference precondition for the stretched crystal: distinct images, contacts between molecules > cov+cov+0.9
        pts = np.vstack([im["frac"] for im in imgs2])
        own = np.repeat(np.arange(len(imgs2)), 3)
        cv = np.tile(cov, len(imgs2))
        ok = True
        for cellv in itertools.product((-1, 0, 1), repeat=3):
            d = np.linalg.norm(((pts + np.array(cellv))[:, None, :] - pts[None, :, :]) @ M, axis=2)
            thr = cv[:, None] + cv[None, :] + 0.9
            diff_mol = (own[:, None] != own[None, :]) | (any(cellv) and np.ones_like(d, dtype=bool))
            if np.any((d < thr) & diff_mol):
                ok = False
                break
        if not ok:
            part.skip("stretched molecules too close")
            continue
        for name, frac_used, kw, n_expect, size in (
            ("stretched:tol0.7", asym2["frac"], {"bond_tolerance": 0.7}, len(imgs2), 3),
            ("stretched:default", asym2["frac"], {}, 3 * len(imgs2), 1),
            ("normal:tol-0.2", asym["frac"], {"bond_tolerance": -0.2}, 3 * len(imgs), 1),
            ("normal:default", asym["frac"], {}, len(imgs), 3),
        ):
            part.ev()
            part.tr()
            case = dict(case0, variant=name)
            try:
                c = xtal.make_crystal(row["number"], row["choice"], cell, asym["symbols"], frac_used)
                mols = c.unit_cell_molecules(**kw)
                c2 = xtal.make_crystal(row["number"], row["choice"], cell, asym["symbols"], frac_used)
                uniq = c2.symmetry_unique_molecules(**kw)
            except Exception as e:
                part.fail("tolerance-raise:" + name, "molecules of %s with %s raised %r" % (sk, kw, e), case)
                continue
            if len(mols) != n_expect or any(len(m) != size for m in mols):
                part.fail("bond-tolerance:unit-cell:" + name, "unit_cell_molecules(%s) of %s (%s water): %d molecules of sizes %s, expected %d of %d atoms (bonded iff d < cov+cov+tolerance)"
                          % (kw, sk, name.split(":")[0], len(mols), sorted({len(m) for m in mols}), n_expect, size), case)
            if len(uniq) != (1 if size == 3 else 3) or any(len(m) != size for m in uniq):
                part.fail("bond-tolerance:unique:" + name, "symmetry_unique_molecules(%s) of %s (%s water): %d molecules of sizes %s, expected %d of %d atoms"
                          % (kw, sk, name.split(":")[0], len(uniq), sorted({len(m) for m in uniq}), 1 if size == 3 else 3, size), case)
            if size == 3:
                for m in mols:
                    P = np.asarray(m.positions)
                    Z = np.asarray(m.atomic_numbers)
                    o = int(np.nonzero(Z == 8)[0][0]) if (Z == 8).sum() == 1 else None
                    if o is None or len(m) != 3:
                        continue
                    dd = sorted(np.linalg.norm(P[i] - P[o]) for i in range(3) if i != o)
                    target = want if name.startswith("stretched") else np.linalg.norm(cart[1] - cart[0])
                    if not (abs(dd[0] - target) <= 1e-6) or not (abs(dd[1] - target) <= 1e-6):
                        part.fail("bond-tolerance:not-whole:" + name, "a molecule of %s is not whole: O-H distances %s, expected %.4f" % (sk, np.round(dd, 4), target), case)
            part.outcome(("tolerance", name, len(mols)))
    part.nstates(8)


def radii_override_cases(part, row, seed):
    """
    covalent_radii= override that MAKES a bond, on a bond that crosses a cell face: Cl...Cl at 2.8 A (not bonded with the tabulated radius,
    threshold 2.44 A) is one molecule with covalent_radii={17: 1.3} (threshold 3.0 A).  Laid perpendicular to every face, from either side,
    listed in either order - so the overridden radius is needed for the in-cell atom, for its periodic image, for the lower and the higher index
    """
    sk = "%d:%s" % (row["number"], row["choice"])
    el = mol.element_data()
    ncell = len(lattice.compatible_cells(row["number"], row["choice"]))
    for cv in range(min(2, ncell)):
        for axis in (0, 1, 2):
            for side in (-1, 1):
                for swap in (False, True):
                    case = {"number": row["number"], "choice": row["choice"], "zkind": "directed", "centre": [0, 0, 0], "orient": 0, "seed": seed, "cellvar": cv, "kind": "radii-override",
                            "directed": {"axis": axis, "side": side, "element": "Cl", "swap": swap, "length": 2.8}}
                    ops, cell, asym, imgs = make_directed(row, case)
                    M = asym["M"]
                    pts = np.vstack([im["frac"] for im in imgs])
                    own = np.repeat(np.arange(len(imgs)), 2)
                    ok = True
                    for cellv in itertools.product((-1, 0, 1), repeat=3):
                        dmat = np.linalg.norm(((pts + np.array(cellv))[:, None, :] - pts[None, :, :]) @ M, axis=2)
                        other = (own[:, None] != own[None, :]) | (any(cellv) and np.ones_like(dmat, dtype=bool))
                        if np.any((dmat < 3.0 + 0.5) & other):
                            ok = False
                            break
                    if not ok:
                        part.skip("stretched dimers too close")
                        continue
                    for name, kw, n_expect, size in (("override", {"covalent_radii": {17: 1.3}}, len(imgs), 2), ("default", {}, 2 * len(imgs), 1)):
                        part.ev()
                        part.tr()
                        try:
                            c = xtal.make_crystal(row["number"], row["choice"], cell, asym["symbols"], asym["frac"])
                            mols = c.unit_cell_molecules(**kw)
                        except Exception as e:
                            part.fail("radii-override:raise:" + name, "unit_cell_molecules(%s) of %s raised %r" % (kw, sk, e), case)
                            continue
                        sizes = sorted(len(m) for m in mols)
                        whole = all(len(m) != 2 or abs(np.linalg.norm(np.asarray(m.positions)[0] - np.asarray(m.positions)[1]) - 2.8) < 1e-6 for m in mols)
                        if len(mols) != n_expect or sizes != [size] * n_expect or not whole:
                            part.fail("radii-override:%s" % name, "Cl...Cl 2.8 A across the %s face of %s (side %+d, %s order) with %s: %d molecules of sizes %s, expected %d of %d atoms%s"
                                      % ("abc"[axis], sk, side, "swapped" if swap else "natural", kw or "default radii", len(mols), sorted(set(sizes)), n_expect, size, "" if whole else " (not whole)"), case)
                        part.outcome(("radii-override", name, axis, side, swap))
    part.nstates(1)


def big_override_cases(part, row, seed):
    """
    pairwise: a cell of realistic size (648 / 1029 atoms: the water grids) TOGETHER WITH a covalent_radii= override - here one that BREAKS
    every O-H bond (radii 0.1 A: threshold 0.6 A), so that every atom is its own molecule; and the default next to it on the same crystal
    """
    if row["number"] != 1:
        return
    for n in (6, 7):
        case = {"number": 1, "choice": "", "zkind": "directed", "centre": [0, 0, 0], "orient": 0, "seed": seed, "kind": "big-override",
                "directed": {"bigcell": True, "n": n, "offset": 0.1, "listing": None}}
        ops, cell, asym, imgs = make_directed(row, case)
        nat = len(asym["symbols"])
        for order in (("override", "default"), ("default", "override")):
            for name in order:
                # (a fresh crystal per request, as in override_history: the library memoises the molecules per object whatever the keywords)
                c = xtal.make_crystal(1, "", cell, asym["symbols"], asym["frac"])
                kw = {"covalent_radii": {8: 0.1, 1: 0.1}} if name == "override" else {}
                part.ev()
                part.tr(2)
                try:
                    mols = c.unit_cell_molecules(**kw)
                    _, edges = c.unit_cell_connectivity(**kw)
                except Exception as e:
                    part.fail("big-override:raise:" + name, "unit_cell_molecules / unit_cell_connectivity(%s) of a %d-atom cell raised %r" % (kw, nat, e), case)
                    continue
                want_m, want_size, want_e = (nat, 1, 0) if name == "override" else (nat // 3, 3, 2 * (nat // 3))
                sizes = sorted(set(len(m) for m in mols))
                if len(mols) != want_m or sizes != [want_size] or len(edges) != want_e:
                    part.fail("big-override:%s" % name, "%d-atom water cell with %s (asked %s): %d molecules of sizes %s and %d bonds, expected %d of size %d and %d bonds"
                              % (nat, kw or "default radii", " then ".join(order), len(mols), sizes, len(edges), want_m, want_size, want_e), case)
                part.outcome(("big-override", name, n, order[0]))
    part.nstates(1)


def worker(part, job, tier, seed):
    row, full = job
    if full == "override":
        override_history(part, row, seed)
        tolerance_cases(part, row, seed)
        radii_override_cases(part, row, seed)
        big_override_cases(part, row, seed)
        return
    sk = "%d:%s" % (row["number"], row["choice"])
    n_ok = 0
    for case in plan(row, tier, seed, full):
        r = check_case(part, row, case)
        if r is not None:
            n_ok += 1
            part.nontriv((sk, case["zkind"], tuple(case["centre"]), case["orient"]))
    part.count("settings_with_cases" if n_ok else "settings_all_filtered")
    if row["number"] in (14, 61) and row["index_in_number"] == 0:
        part.sample({"setting": sk, "cases_passing_precondition": n_ok, "example": plan(row, tier, seed, full)[0]})


def run(ctx):
    table = symm.load_table()
    full_numbers = {1, 2, 4, 5, 9, 14, 15, 19, 29, 33, 43, 52, 56, 60, 61, 62, 76, 88, 92, 96, 110, 114, 122, 142, 143, 144,
                    146, 148, 161, 165, 167, 169, 173, 176, 198, 205, 206, 219, 228, 230}
    jobs = []
    for r in table:
        if ctx.thorough:
            full = r["number"] in full_numbers or r["index_in_number"] == 0 and len(r["symops"]) <= 16
            jobs.append((r, full))
        else:
            if r["index_in_number"] == 0:
                jobs.append((r, r["number"] in (2, 14, 19, 61, 148)))
            elif r["number"] in full_numbers:
                jobs.append((r, False))
    jobs.sort(key=lambda j: -len(j[0]["symops"]) * (30 if j[1] else 1))
    jobs += [(r, "override") for r in table if (r["number"], r["choice"]) in ((1, ""), (2, ""), (14, "b1"), (19, ""), (148, "H"))]
    ctx.rule = ("rigid molecules {H2O, CO, CO2, CH4}, Z' in {1, 2 equal, 2 different sizes}, centres on the grid %s^3 (molecules straddle "
                "0..3 faces), 3 orientations; settings: %d; cases failing the property's precondition (decided by the reference) are "
                "skipped and counted; distinct = (setting, Z' kind, centre, orientation) cases that passed the precondition"
                % (list(mol.CENTRES), len(jobs)))
    ctx.bounds = {"settings": len(jobs), "full_grid_settings": sum(1 for j in jobs if j[1]), "centres": list(mol.CENTRES),
                  "zprime_kinds": list(mol.ZPRIME), "listings": "Z' = 2 asymmetric units also listed interleaved / heavy atoms first / reversed", "contact_margin_A": mol.MARGIN,
                  "override_histories": "all 8 orders of {default, covalent_radii override} of length 3 in 4 settings",
                  "bond_tolerance_cases": "stretched / ordinary water x bond_tolerance {0.7, default, -0.2} x 2 placements in the same 4 settings, both entry points"}
    ctx.assumptions = ["covalent radii / masses are read from the library's element table as data; bonding rule d < cov_a+cov_b+0.4 as documented",
                       "cases with any intermolecular contact below bonding threshold + 0.5 A, or a centre of mass within 1e-6 of a cell face, are outside the property's quantifier"]
    ctx.pmap(worker, jobs, tier=ctx.tier, seed=ctx.seed)
    if ctx.counters.get("settings_all_filtered"):
        ctx.notes.append("%d setting(s) had every generated case filtered by the precondition" % ctx.counters["settings_all_filtered"])


def replay(ctx, case):
    table = symm.load_table()
    for r in table:
        if case.get("kind") == "radii-override" and r["number"] == case["number"] and r["choice"] == case["choice"]:
            radii_override_cases(ctx, r, case.get("seed", 0))
            return
        if case.get("kind") == "tolerance" and r["number"] == case["number"] and r["choice"] == case["choice"]:
            tolerance_cases(ctx, r, case.get("seed", 0))
            return
        if case.get("kind") == "override" and r["number"] == case["number"] and r["choice"] == case["choice"]:
            override_history(ctx, r, case.get("seed", 0))
            return
        if r["number"] == case["number"] and r["choice"] == case["choice"]:
            res = check_case(ctx, r, case)
            if res is None:
                print("replay: case filtered by precondition")

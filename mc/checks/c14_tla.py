"""
Secondary binding for C14: a TLA+ model of the memo protocol (mc/tla/MemoProtocol.tla) is explored by TLC; every
edge of its complete state graph is replayed on a real Crystal and the abstraction of the real object's
state must equal the model's successor state.  The verdict of C14 comes from the implementation-level
search; this step shows that the canonical-state view matches an independently written protocol and
reports model states / edges validated.
"""
import os
import re
import shutil
import subprocess
import tempfile
from collections import deque

import numpy as np

TLA_DIR = os.path.join(os.path.dirname(os.path.dirname(os.path.abspath(__file__))), "tla")

MEMO_ATTR = {"uc": "_unit_cell_atom_dict", "gr": "_uc_graph", "mo": "_unit_cell_molecules", "un": "_symmetry_unique_molecules"}

# every real call that belongs to a model action
ACTION_CALLS = {
    "QueryUc": ["unit_cell_atoms", "slab", "atoms_in_radius", "atomic_surroundings", "density", "poscar"],
    "QueryGr": ["connectivity"],
    "QueryMo": ["unit_cell_molecules", "as_P1"],
    "QueryUn": ["unique_molecules", "molecule_environments"],
    "QueryNone": ["res", "cif"],
    'Switch("H")': ["to_H"],
    'Switch("R")': ["to_R"],
}


def run_tlc():
    """returns (states: {id: dict}, edges: [(src, action, dst)], initial ids) or None if TLC is unavailable"""
    if shutil.which("tlc") is None:
        return None
    tmp = tempfile.mkdtemp(prefix="c14tla_")
    try:
        for f in ("MemoProtocol.tla", "MemoProtocol.cfg"):
            shutil.copy(os.path.join(TLA_DIR, f), tmp)
        r = subprocess.run(["tlc", "-workers", "1", "-noGenerateSpecTE", "-metadir", os.path.join(tmp, "meta"), "-deadlock",
                            "-dump", "dot,actionlabels", os.path.join(tmp, "graph"), "MemoProtocol"],
                           cwd=tmp, capture_output=True, text=True, timeout=600,
                           # TLC creates an (empty) scratch directory under java.io.tmpdir on every start: keep it inside tmp
                           env=dict(os.environ, JAVA_TOOL_OPTIONS="-Djava.io.tmpdir=" + tmp))
        out = r.stdout + r.stderr
        if "No error has been found" not in out:
            return {"error": out[-2000:]}
        dot = open(os.path.join(tmp, "graph.dot")).read()
    finally:
        shutil.rmtree(tmp, ignore_errors=True)
    states, edges, init = {}, [], []
    for m in re.finditer(r'^(-?\d+) \[label="(.*?)"(?:(,style = filled)|,tooltip)', dot, re.M):
        sid, label, filled = m.group(1), m.group(2), m.group(3)
        st = {"setting": re.search(r'setting = \\"(\w+)\\"', label).group(1),
              "cif": re.search(r'cif = \\"(\w+)\\"', label).group(1)}
        for k in MEMO_ATTR:
            st[k] = re.search(r'%s \|-> \\"(\w+)\\"' % k, label).group(1)
        states[sid] = st
        if filled:
            init.append(sid)
    for m in re.finditer(r'^(-?\d+) -> (-?\d+) \[label="(.*?)",color', dot, re.M):
        edges.append((m.group(1), m.group(3).replace('\\"', '"'), m.group(2)))
    return {"states": states, "edges": edges, "init": init}


def abstraction(c, counts):
    """model state of a real crystal; counts = {'H': n_uc_atoms in H axes, 'R': ...}"""
    st = {"setting": c.space_group.choice}

    def tag_for_n(n):
        for s, k in counts.items():
            if n == k:
                return s
        return "?"

    if hasattr(c, "_unit_cell_atom_dict"):
        st["uc"] = tag_for_n(len(c._unit_cell_atom_dict["element"]))
    else:
        st["uc"] = "none"
    if hasattr(c, "_uc_graph"):
        st["gr"] = tag_for_n(c._uc_graph[0].shape[0])
    else:
        st["gr"] = "none"
    if hasattr(c, "_unit_cell_molecules"):
        st["mo"] = tag_for_n(sum(len(m) for m in c._unit_cell_molecules))
    else:
        st["mo"] = "none"
    if hasattr(c, "_symmetry_unique_molecules"):
        # unique molecules are images of unit-cell molecules of the same computation: tag by the cell they sit in
        um = c._symmetry_unique_molecules
        mols = getattr(c, "_unit_cell_molecules", None)
        st["un"] = st["mo"] if mols is not None and all(any(u is m for m in mols) for u in um) else "?"
    else:
        st["un"] = "none"
    cd = c.properties.get("cif_data")
    if cd is None:
        st["cif"] = "none"
    else:
        nops = len(cd.get("symmetry_equiv_pos_as_xyz", cd.get("space_group_symop_operation_xyz", [])))
        st["cif"] = "H" if nops == counts["opsH"] else "R" if nops == counts["opsR"] else "?"
    return st


def conformance(part, c14):
    """replay every model edge on real crystals; c14 = the C14 check module (structures, step())"""
    from chmpy.crystal import Crystal

    g = run_tlc()
    if g is None:
        part.notes_tla = "TLC not available: model-side binding skipped"
        return None
    if "error" in g:
        part.fail("tla-model-error", "TLC did not verify the memo-protocol model: %s" % g["error"][-300:], {"kind": "tla"})
        return None
    states, edges, init = g["states"], g["edges"], g["init"]
    # real initial crystals for the four model initial states
    def make_init(st):
        kind = "water_%s" % st["setting"]
        c = c14.initial(kind)
        if st["cif"] != "none":
            c = Crystal.from_cif_string(c.to_cif_string())
        return c

    cH, cR = c14.initial("water_H"), c14.initial("water_R")
    counts = {"H": len(cH.unit_cell_atoms()["element"]), "R": len(cR.unit_cell_atoms()["element"]),
              "opsH": len(cH.space_group.symmetry_operations), "opsR": len(cR.space_group.symmetry_operations)}
    # shortest action path to every model state
    adj = {}
    for s, a, d in edges:
        adj.setdefault(s, []).append((a, d))
    path = {i: (i, []) for i in init}
    dq = deque(init)
    while dq:
        s = dq.popleft()
        for a, d in adj.get(s, []):
            if d not in path:
                path[d] = (path[s][0], path[s][1] + [a])
                dq.append(d)
    unreachable = [s for s in states if s not in path]
    if unreachable:
        part.fail("tla-graph", "%d model states have no path from an initial state in the dump" % len(unreachable), {"kind": "tla"})
    validated = 0
    for (s, a, d) in edges:
        root, acts = path[s]
        for call in ACTION_CALLS[a]:
            c = make_init(states[root])
            for act in acts:
                c = c14.step(None, c, ACTION_CALLS[act][0], [], "model", check=False)
            pre = abstraction(c, counts)
            if pre != states[s]:
                part.fail("tla-conformance:prefix", "replaying the model path %s does not reach the model state %s on the real crystal (got %s)" % (acts, states[s], pre),
                          {"kind": "tla", "path": acts})
                break
            c = c14.step(None, c, call, [], "model", check=False)
            post = abstraction(c, counts)
            part.trace()
            validated += 1
            if post != states[d]:
                part.fail("tla-conformance:%s" % a.replace('"', ""), "model edge %s --%s--> %s: after %s() the real crystal is in %s" % (states[s], a, states[d], call, post),
                          {"kind": "tla", "path": acts, "call": call})
                break
    part.count("tla_model_states", len(states))
    part.count("tla_model_edges", len(edges))
    part.count("tla_edge_replays", validated)
    return {"states": len(states), "edges": len(edges), "replays": validated}

"""
C02 - every tabulated setting is a closed, consistently identified group.

Finite domain, enumerated completely in both tiers: all 530 (number, choice) settings.
Model side (exact integers, mc.ref.symm): Cayley-graph BFS from the identity with every listed
operation as generator.  Implementation side: construction, default choice, lookup from the full
operation list (3 orders), LATT+SYMM reduction round trip, expansion.
"""
from collections import defaultdict

import numpy as np

from mc.ref import symm

PROPERTY = "C02"
LEVEL = "model_checking"


def setting_key(row):
    return "%d:%s" % (row["number"], row["choice"])


IDENTITY_FIELDS = ("international_tables_number", "symbol", "full_symbol", "choice", "centering", "schoenflies", "centrosymmetric", "crystal_system", "lattice_type", "laue_class", "latt",
                   "symbol_unicode", "sym")


def identity_card(sg):
    """everything a SpaceGroup object says about WHICH group it is, besides the operation list"""
    out = {}
    for f in IDENTITY_FIELDS:
        try:
            v = getattr(sg, f)
            out[f] = v if isinstance(v, (str, int, bool, float)) else str(v)
        except Exception as e:
            out[f] = "raises %s" % type(e).__name__
    try:
        out["point_group"] = str(sg.point_group)
    except Exception as e:
        out["point_group"] = "raises %s" % type(e).__name__
    return out


def same_card(part, found, key, what, case):
    """a group that was LOOKED UP describes itself exactly as the same setting constructed directly does"""
    from chmpy.crystal.space_group import SpaceGroup

    try:
        want = identity_card(SpaceGroup(found.international_tables_number, choice=found.choice))
        got = identity_card(found)
    except Exception as e:
        part.fail("identity-card-raise", "%s: reading the group's self-description raised %r" % (what, e), case)
        return
    diff = {k: (got[k], want[k]) for k in want if got[k] != want[k]}
    if diff:
        part.fail("identity-card:%s" % key, "%s: the group returned describes itself differently from SpaceGroup(%d, %r) constructed directly: %s"
                  % (what, found.international_tables_number, found.choice, diff), case)


def check_setting(part, row, table_by_number):
    from chmpy.crystal.space_group import SpaceGroup
    from chmpy.crystal.symmetry_operation import (
        SymmetryOperation,
        expanded_symmetry_list,
    )

    n, choice, codes = row["number"], row["choice"], list(row["symops"])
    sk = setting_key(row)
    case = {"number": n, "choice": choice}
    part.ev()
    ops = [symm.decode(c) for c in codes]

    # ---------------- model: group axioms on the table row ---------------------
    outcome = []
    if len(set(codes)) != len(codes):
        part.fail("table-duplicate-op:%s" % sk, "duplicate operation codes in table row %s" % sk, case)
    for c, op in zip(codes, ops):
        if symm.encode(op) != c:
            part.fail("model-decode:%s" % sk, "reference encode(decode(%d)) != code" % c, case)
    opset = set(ops)
    if symm.IDENTITY not in opset:
        part.fail("no-identity:%s" % sk, "identity missing from %s" % sk, case)
    closed, ntrans = symm.closure(ops)
    part.tr(ntrans)
    for op in closed:
        part.state((sk, op))
    if closed != opset:
        part.fail(
            "not-closed:%s" % sk,
            "setting %s: closure of listed operations has %d elements, list has %d" % (sk, len(closed), len(opset)),
            case,
        )
    for op in ops:
        part.tr()
        if symm.inverse(op) not in opset:
            part.fail("no-inverse:%s" % sk, "setting %s: inverse of %s not listed" % (sk, symm.canonical_string(op)), case)
    has_inv = any(op[0] == symm.MINUS_I for op in ops)
    if bool(row["centrosymmetric"]) != has_inv:
        part.fail("centro-flag:%s" % sk, "setting %s: centrosymmetric flag %s but inversion present=%s"
                  % (sk, row["centrosymmetric"], has_inv), case)
    outcome.append((len(ops), has_inv))

    # ---------------- implementation ---------------------------------------------
    try:
        sg = SpaceGroup(n, choice=choice)
    except Exception as e:
        part.fail("construct:%s" % sk, "SpaceGroup(%d, %r) raised %r" % (n, choice, e), case)
        return
    part.trace()
    if sg.international_tables_number != n or sg.choice != choice:
        part.fail("construct-identity:%s" % sk, "SpaceGroup(%d,%r) reports (%s,%r)"
                  % (n, choice, sg.international_tables_number, sg.choice), case)
    impl_codes = [int(s.integer_code) for s in sg.symmetry_operations]
    if impl_codes != codes:
        part.fail("construct-ops:%s" % sk, "SpaceGroup(%d,%r) operations differ from its table row" % (n, choice), case)
    if bool(sg.centrosymmetric) != has_inv:
        part.fail("centro-flag-impl:%s" % sk, "SpaceGroup(%d,%r).centrosymmetric=%s, inversion present=%s"
                  % (n, choice, sg.centrosymmetric, has_inv), case)
    # conformance of the decoders (binds the model to the code)
    for c, op in zip(codes, ops):
        s = SymmetryOperation.from_integer_code(c)
        R = tuple(int(round(v)) for v in s.rotation.ravel())
        t = tuple(int(round(v * 12)) for v in s.translation)
        part.trace()
        if (R, t) != op or not (abs(s.rotation.ravel() - R).max() <= 0) or not (abs(s.translation * 12 - t).max() <= 1e-12):
            part.fail("decode-conformance:%d" % c, "from_integer_code(%d) = %s,%s, reference %s" % (c, R, t, op), case)
        if int(s.integer_code) != c:
            part.fail("code-cache:%d" % c, "from_integer_code(%d).integer_code = %s" % (c, s.integer_code), case)

    # default choice
    rows_n = table_by_number[n]
    if row["index_in_number"] == 0:
        dflt = symm.default_choice(n, rows_n)
        try:
            sgd = SpaceGroup(n)
            part.trace()
            if sgd.choice != dflt:
                part.fail("default-choice:%d" % n, "SpaceGroup(%d) picks choice %r, documented default %r" % (n, sgd.choice, dflt), case)
            want = [r for r in rows_n if r["choice"] == dflt][0]["symops"]
            if [int(s.integer_code) for s in sgd.symmetry_operations] != list(want):
                part.fail("default-ops:%d" % n, "SpaceGroup(%d) operations differ from table row of default choice" % n, case)
        except Exception as e:
            part.fail("default-construct:%d" % n, "SpaceGroup(%d) raised %r" % (n, e), case)

    # ordered: identity first, same multiset
    try:
        ordered = sg.ordered_symmetry_operations()
        part.trace()
        if int(ordered[0].integer_code) != 16484 or sorted(int(s.integer_code) for s in ordered) != sorted(codes):
            part.fail("ordered:%s" % sk, "ordered_symmetry_operations of %s: identity not first or set changed" % sk, case)
    except Exception as e:
        part.fail("ordered-raise:%s" % sk, "ordered_symmetry_operations raised %r" % (e,), case)

    # lookup from the full list in three orders
    full = list(sg.symmetry_operations)
    # ... and with every operation written for an atom far along the lattice (each translation shifted by its own whole lattice vector,
    # up to 1.5e5 cells): the same operations modulo the lattice, hence the same group
    farv = [np.array(v, dtype=float) for v in ((1000, 0, 0), (0, -20000, 0), (50000, -100000, 150000), (0, 0, 0), (-3, 7, 100000))]
    far_shifted = [SymmetryOperation(np.array(o.rotation, dtype=float), np.array(o.translation, dtype=float) + farv[i % len(farv)]) for i, o in enumerate(full)]
    for oname, lst in (("table", full), ("reversed", full[::-1]), ("rotated", full[1:] + full[:1]), ("far-lattice-shifted", far_shifted)):
        try:
            found = SpaceGroup.from_symmetry_operations(list(lst))
            same_card(part, found, "full", "lookup from the full list (%s order) of %s" % (oname, sk), case)
            part.trace()
            fcodes = sorted(int(s.integer_code) for s in found.symmetry_operations)
            if found.international_tables_number != n or fcodes != sorted(codes):
                part.fail("lookup-full:%s" % sk, "from_symmetry_operations(%s order) of %s returned %d:%s"
                          % (oname, sk, found.international_tables_number, found.choice), case)
            outcome.append(found.choice == choice)
        except Exception as e:
            part.fail("lookup-full-raise:%s" % sk, "from_symmetry_operations(%s order) of %s raised %s" % (oname, sk, type(e).__name__), case)

    # reduced (LATT + SYMM) round trip
    try:
        latt = sg.latt
        red = sg.reduced_symmetry_operations()
        part.trace()
        red_codes = [int(s.integer_code) for s in red]
        outcome.append((latt, len(red)))
        # LATT semantic check against the model: sign + iff inversion AT THE ORIGIN is in the group,
        # |LATT| names the centring whose translations are in the group
        inv_origin = (symm.MINUS_I, (0, 0, 0)) in opset
        cent = {1: [], 2: [(6, 6, 6)], 3: [(8, 4, 4), (4, 8, 8)], 4: [(0, 6, 6), (6, 0, 6), (6, 6, 0)],
                5: [(0, 6, 6)], 6: [(6, 0, 6)], 7: [(6, 6, 0)]}
        pure_t = {op[1] for op in ops if op[0] == symm.IDENTITY_R and op[1] != (0, 0, 0)}
        # The property asks only that the LATT+SYMM description round-trips; a LATT that under-describes
        # the centring (the table labels its B-centred settings 'primitive') or is negative although -1 is
        # at the origin still round-trips, so these are counted, not failed.  A LATT that claims too much
        # (centring translations or an origin inversion the group does not have) necessarily fails the
        # expansion comparison below.
        if abs(latt) not in cent or not set(cent[abs(latt)]) <= pure_t:
            part.fail("latt-overclaims-centring:%s" % sk, "setting %s: LATT %d names centring translations the group lacks"
                      % (sk, latt), case)
        elif set(cent[abs(latt)]) != pure_t:
            part.count("latt_underdescribes_centring")
        if latt > 0 and not inv_origin:
            part.count("latt_positive_without_origin_inversion")
        if latt < 0 and inv_origin:
            part.count("latt_negative_with_origin_inversion")
        exp = expanded_symmetry_list(list(red), latt)
        part.trace()
        exp_codes = [int(s.integer_code) for s in exp]
        if len(set(exp_codes)) != len(exp_codes):
            part.fail("expand-duplicates:%s" % sk, "expanded_symmetry_list(reduced, %d) of %s has duplicates" % (latt, sk), case)
        if sorted(set(exp_codes)) != sorted(codes):
            part.fail("expand-set:%s" % sk, "expanded_symmetry_list(reduced, LATT=%d) of %s: %d ops, differs from the %d listed"
                      % (latt, sk, len(set(exp_codes)), len(codes)), case)
        # minimality: no two reduced ops related by centring / (inversion if latt>0)
        try:
            found = SpaceGroup.from_symmetry_operations(list(red), expand_latt=latt)
            same_card(part, found, "reduced", "LATT+SYMM lookup of %s" % sk, case)
            part.trace()
            fcodes = sorted(int(s.integer_code) for s in found.symmetry_operations)
            if found.international_tables_number != n or fcodes != sorted(codes):
                part.fail("lookup-reduced:%s" % sk, "LATT+SYMM round trip of %s returned %d:%s"
                          % (sk, found.international_tables_number, found.choice), case)
        except Exception as e:
            part.fail("lookup-reduced-raise:%s" % sk, "LATT+SYMM round trip of %s raised %s" % (sk, type(e).__name__), case)
        # one list OBJECT handed over repeatedly (a program that reads the SYMM cards once and looks the group up wherever it needs it),
        # also to the expansion helper in between: every lookup names the same setting
        for route in ("lookup,lookup", "expand,lookup", "lookup,expand,lookup"):
            mine = list(red)
            try:
                answers = []
                for step in route.split(","):
                    part.trace()
                    if step == "lookup":
                        f = SpaceGroup.from_symmetry_operations(mine, expand_latt=latt)
                        answers.append((f.international_tables_number, sorted(int(x.integer_code) for x in f.symmetry_operations) == sorted(codes)))
                    else:
                        ex = expanded_symmetry_list(mine, latt)
                        answers.append((n, sorted(set(int(x.integer_code) for x in ex)) == sorted(codes) and len(ex) == len(codes)))
                if any(a != (n, True) for a in answers):
                    part.fail("lookup-reduced-same-list:%s" % sk, "the reduced list of %s (one list object) handed over as %s: answers %s, expected the setting %d with its full "
                              "operation list every time" % (sk, route, answers, n), case)
            except Exception as e:
                part.fail("lookup-reduced-same-list-raise:%s" % sk, "the reduced list of %s (one list object) handed over as %s raised %s" % (sk, route, type(e).__name__), case)
        # the same reduced description in other orders (the description is a set: identity written last, in the middle, list reversed)
        rl = list(red)
        ident = [x for x in rl if x.is_identity()]
        rest = [x for x in rl if not x.is_identity()]
        orders = {"reversed": rl[::-1], "identity-last": rest + ident, "identity-middle": rest[: len(rest) // 2] + ident + rest[len(rest) // 2:]}
        for oname, lst in orders.items():
            try:
                found = SpaceGroup.from_symmetry_operations(list(lst), expand_latt=latt)
                part.trace()
                fcodes = sorted(int(x.integer_code) for x in found.symmetry_operations)
                if found.international_tables_number != n or fcodes != sorted(codes):
                    part.fail("lookup-reduced-order:%s:%s" % (oname, sk), "LATT+SYMM description of %s with the operations written %s is identified as %d:%s"
                              % (sk, oname, found.international_tables_number, found.choice), case)
            except Exception as e:
                part.fail("lookup-reduced-order-raise:%s:%s" % (oname, sk), "LATT+SYMM description of %s with the operations written %s raised %s" % (sk, oname, type(e).__name__), case)
        # the reduced list without identity, as the SHELX writer emits it, through string form
        try:
            strs = [str(s) for s in red if not s.is_identity()]
            back = [SymmetryOperation.from_string_code(x) for x in strs]
            found = SpaceGroup.from_symmetry_operations(back, expand_latt=latt)
            part.trace()
            fcodes = sorted(int(s.integer_code) for s in found.symmetry_operations)
            if found.international_tables_number != n or fcodes != sorted(codes):
                part.fail("lookup-reduced-str:%s" % sk, "LATT+SYMM(string) round trip of %s returned %d:%s"
                          % (sk, found.international_tables_number, found.choice), case)
        except Exception as e:
            part.fail("lookup-reduced-str-raise:%s" % sk, "LATT+SYMM(string) round trip of %s raised %s" % (sk, type(e).__name__), case)
    except Exception as e:
        part.fail("reduce-raise:%s" % sk, "latt/reduced_symmetry_operations of %s raised %r" % (sk, e), case)
    # products computed the way a user computes them - floating-point matrices: R = Ra Rb Rc, t = Ra (Rb tc + tb) + ta - and turned
    # back into an operation: the packed code of g.g.g and g.h.g is the code of the exact product (closure, at the level of the code)
    try:
        lib_ops = [SymmetryOperation.from_integer_code(c) for c in codes]
        hs = lib_ops[:6]
        for gi, g in enumerate(lib_ops):
            Rg, tg = np.asarray(g.rotation, dtype=float), np.asarray(g.translation, dtype=float)
            for hi, h in enumerate(hs + [g]):
                part.tr()
                Rh, th = np.asarray(h.rotation, dtype=float), np.asarray(h.translation, dtype=float)
                Rp = Rg @ Rh @ Rg
                tp = Rg @ (Rh @ tg + th) + tg
                want_c = symm.encode(symm.compose(ops[gi], symm.compose(ops[hi] if hi < len(hs) else ops[gi], ops[gi])))
                got_c = int(SymmetryOperation(Rp, tp).integer_code)
                if got_c != want_c or got_c not in set(codes):
                    part.fail("float-product-code:%s" % sk, "the product %s . %s . %s of operations of %s, formed with floating-point matrices, packs to code %d; the exact product is %d (%s)"
                              % (symm.canonical_string(ops[gi]), symm.canonical_string(ops[hi] if hi < len(hs) else ops[gi]), symm.canonical_string(ops[gi]), sk, got_c, want_c,
                                 symm.canonical_string(symm.decode(want_c))), case)
                    raise StopIteration
    except StopIteration:
        pass
    except Exception as e:
        part.fail("float-product-raise:%s" % sk, "forming products of operations of %s raised %r" % (sk, e), case)
    # a setting that went through pickle / copy.deepcopy / copy.copy is still the same setting: same operations, same LATT, and its
    # reduced description is still looked up as this group
    import copy
    import pickle

    for rname, dup in (("pickle", lambda x: pickle.loads(pickle.dumps(x))), ("deepcopy", copy.deepcopy), ("copy", copy.copy)):
        part.tr()
        try:
            orig = SpaceGroup(n, choice=choice)
            twin = dup(orig)
            tcodes = sorted(int(x.integer_code) for x in twin.symmetry_operations)
            ok_t = tcodes == sorted(codes) and twin.international_tables_number == n and twin.choice == orig.choice and twin.latt == orig.latt \
                and bool(twin.centrosymmetric) == bool(orig.centrosymmetric) and twin.symbol == orig.symbol
            if ok_t:
                found = SpaceGroup.from_symmetry_operations(list(twin.reduced_symmetry_operations()), expand_latt=twin.latt)
                ok_t = found.international_tables_number == n and sorted(int(x.integer_code) for x in found.symmetry_operations) == sorted(codes)
            if not ok_t:
                part.fail("copy-route:%s:%s" % (rname, sk), "SpaceGroup(%d, %r) after %s: %d operations (%d tabulated) / choice %r / LATT %s - no longer the tabulated setting"
                          % (n, choice, rname, len(tcodes), len(codes), twin.choice, twin.latt), case)
        except Exception as e:
            part.fail("copy-route-raise:%s:%s" % (rname, sk), "SpaceGroup(%d, %r) through %s raised %r" % (n, choice, rname, e), case)
    # instances are independent: whatever a caller does to the operation list (or the operation objects) of one SpaceGroup
    # object, constructing / looking up the setting again gives the tabulated group
    try:
        part.tr()
        victim = SpaceGroup(n, choice=choice)
        lst = victim.symmetry_operations
        # (each edit is attempted on its own: an implementation that hands out immutable data simply refuses it)
        for edit in (lambda: lst.reverse(), lambda: lst.pop(), lambda: lst[0].translation.__iadd__(0.25), lambda: lst[0].rotation.__imul__(-1),
                     lambda: lst[-1].translation.__setitem__(slice(None), 0.125)):
            try:
                edit()
            except Exception:
                pass
        again = SpaceGroup(n, choice=choice)
        acodes = sorted(int(x.integer_code) for x in again.symmetry_operations)
        if acodes != sorted(codes):
            part.fail("instance-aliasing:construct:%s" % sk, "after a caller edited the operation list of one SpaceGroup(%d, %r) object, constructing the setting again gives %d operations (%d tabulated), %d of them not in the table"
                      % (n, choice, len(acodes), len(codes), len(set(acodes) - set(codes))), case)
        found = SpaceGroup.from_symmetry_operations([SymmetryOperation.from_integer_code(c) for c in codes])
        fcodes = sorted(int(x.integer_code) for x in found.symmetry_operations)
        if found.international_tables_number != n or fcodes != sorted(codes):
            part.fail("instance-aliasing:lookup:%s" % sk, "after a caller edited the operation list of one SpaceGroup(%d, %r) object, looking the setting up from its full operation list gives %d:%s with %d operations"
                      % (n, choice, found.international_tables_number, found.choice, len(fcodes)), case)
    except Exception as e:
        part.fail("instance-aliasing:raise:%s" % sk, "constructing %s again after editing another instance raised %r" % (sk, e), case)
    # lookup from a genuine SHELX description produced by the REFERENCE (not by the library's own latt / reduction):
    # LATT names the true centring (incl. B = 6, which the library's table never reports), its sign the presence of -1 at the
    # origin, SYMM is one representative per coset - in table order and reversed
    try:
        from mc.ref import restext

        cent = restext.CENTRING
        pure_t = {op[1] for op in ops if op[0] == symm.IDENTITY_R and op[1] != (0, 0, 0)}
        n_latt = [k for k, v in cent.items() if set(v) == pure_t]
        if len(n_latt) == 1:
            ref_latt = n_latt[0] * (1 if (symm.MINUS_I, (0, 0, 0)) in set(ops) else -1)
            for order_name, seq in (("table", ops), ("reversed", ops[::-1])):
                lattice_ops = restext.expand_latt([], ref_latt)   # identity (and -1) times the centring vectors
                reps, covered = [], set(lattice_ops)
                for op in seq:
                    if op in covered:
                        continue
                    reps.append(op)
                    covered |= restext.expand_latt([op], ref_latt)
                if restext.expand_latt(reps, ref_latt) != set(ops):
                    part.fail("harness:ref-reduction:%s" % sk, "reference reduction of %s does not expand back" % sk, case)
                    continue
                lib_ops = [SymmetryOperation.from_string_code(symm.canonical_string(o)) for o in reps]
                part.trace()
                try:
                    found = SpaceGroup.from_symmetry_operations(lib_ops, expand_latt=ref_latt)
                    fcodes = sorted(int(x.integer_code) for x in found.symmetry_operations)
                    if found.international_tables_number != n or fcodes != sorted(codes):
                        part.fail("lookup-shelx:LATT%d:%s" % (abs(ref_latt), sk), "genuine SHELX description of %s (LATT %d + %d SYMM, %s order) is identified as %d:%s"
                                  % (sk, ref_latt, len(reps), order_name, found.international_tables_number, found.choice), case)
                except Exception as e:
                    part.fail("lookup-shelx-raise:LATT%d:%s" % (abs(ref_latt), sk), "genuine SHELX description of %s (LATT %d + %d SYMM, %s order) raised %s"
                              % (sk, ref_latt, len(reps), order_name, type(e).__name__), case)
                outcome.append(ref_latt)
    except Exception as e:
        part.fail("harness:shelx-description:%s" % sk, "building the reference SHELX description raised %r" % e, case)
    part.outcome(tuple(outcome))
    part.nontriv(sk)
    if n in (1, 48, 148, 227):
        part.sample({"setting": sk, "n_ops": len(codes), "latt": sg.latt, "reduced": [str(s) for s in sg.reduced_symmetry_operations()][:6]})


def worker(part, rows, table_by_number):
    for row in rows:
        check_setting(part, row, table_by_number)


def run(ctx):
    table = symm.load_table()
    by_n = defaultdict(list)
    for r in table:
        by_n[r["number"]].append(r)
    ctx.rule = ("all %d (number, choice) rows of sgdata.json; per row: exact Cayley-graph BFS (states = operations, "
                "transitions = products) + construction/lookup/reduction round trips on the real SpaceGroup; "
                "distinct = settings" % len(table))
    ctx.bounds = {"settings": len(table), "numbers": len(by_n)}
    ctx.assumptions = ["sgdata.json is read as data by the reference model; the group axioms are checked on it exactly"]
    if len(by_n) != 230 or len(table) < 530:
        ctx.fail("table-size", "sgdata.json has %d numbers / %d settings (expected 230 / >=530)" % (len(by_n), len(table)), {})
    # coverage of the constructor's range check
    from chmpy.crystal.space_group import SpaceGroup

    for bad in (0, 231, -1):
        try:
            SpaceGroup(bad)
            ctx.fail("range:%d" % bad, "SpaceGroup(%d) did not raise" % bad, {"number": bad})
        except (ValueError, KeyError):
            pass
    from mc.core import chunked

    # (the whole sweep is cheap: every chunk is also run in a fresh interpreter in the hostile environment, in which - among other
    # things - a construction with an unknown choice has already been refused for every one of the 230 numbers)
    ctx.pmap(worker, chunked(table, 12), hostile_all=True, table_by_number=dict(by_n))


def replay(ctx, case):
    table = symm.load_table()
    by_n = defaultdict(list)
    for r in table:
        by_n[r["number"]].append(r)
    for r in table:
        if r["number"] == case.get("number") and r["choice"] == case.get("choice"):
            check_setting(ctx, r, dict(by_n))

"""
C16 - saving a molecule to XYZ or SDF and loading it back reproduces it.

Enumerated: atom counts x element lists (cycling through all Z=1..103) x coordinate alphabets x
bonded/unbonded x route (string API / files by extension) for both formats; XYZ reading of every
symbol in three letter cases x four separator styles; multi-record SDF (1-3 records, from the writer
and hand-built by the column reference).  SDF text is checked against the V2000 fixed-column layout by
mc.ref.sdfcols.
"""
import itertools
import os
import shutil
import tempfile

import numpy as np

from mc.ref import sdfcols
from mc.ref.elements import ELEMENTS

PROPERTY = "C16"
LEVEL = "model_checking"

COUNTS = [1, 2, 3, 10, 99, 100, 101, 200]
COORD_KINDS = ["generic", "negative", "zero", "field-limit", "five-digits", "tiny", "small", "twelve-digits"]


def positions(n, kind, bonded):
    """(n,3) coordinates: atoms on a 3.1 A lattice, optionally with a bonded pair/triple; first/last atoms carry the coordinate kind"""
    step = 3.1
    idx = np.arange(n)
    base = np.c_[(idx % 7) * step, ((idx // 7) % 7) * step, (idx // 49) * step].astype(float)
    base += np.array([0.1234, 0.5678, 0.9012])
    if bonded and n >= 2:
        # the second (and third) atom sit 0.9 A from the first: a perceived bond, few enough for the 3-digit bond count
        base[1] = base[0] + np.array([0.9, 0.0, 0.0])
        if n >= 4:
            base[2] = base[0] + np.array([0.0, 0.9, 0.0])
    if kind == "generic":
        pass
    elif kind == "negative":
        base = -base - np.array([1.5, 2.25, 0.125])
    elif kind == "zero":
        base[0] = (0.0, 0.0, 0.0)
        if n > 1:
            base[-1] = (0.0, base[-1][1] + 50.0, 0.0)
    elif kind == "field-limit":
        base[0] = (-9999.9999, 9999.9999, -1234.5678)
        if n > 1:
            base[-1] = (9999.9999, -9999.9999, 4321.8765)
    elif kind == "five-digits":
        # positive coordinates with five integer digits fill the ten-column field completely (neighbouring fields touch)
        base[0] = (12345.6789, 99999.9999, 10000.0001)
        if n > 1:
            base[-1] = (54321.0005, 10000.0, 99999.0)
    elif kind == "tiny":
        base[0] = (1e-5, -1e-5, 4e-5)
    elif kind == "small":
        # magnitudes just above the last written decimal of the 4-decimal SDF field (5e-5 .. 1e-3)
        base[0] = (1e-4, -3e-4, 4.9e-4)
        if n > 1:
            base[-1] = (6e-5, 5.1e-4, -9.9e-4)
    elif kind == "twelve-digits":
        base[0] = (1.123456789012, -2.987654321098, 33.555555555555)
        if n > 1:
            base[-1] = base[-1] + np.array([1 / 3.0, 2 / 7.0, 1e-12])
    return base


def element_list(n, offset):
    if offset < 0:
        return [-offset] * n        # a molecule of ONE element (silicon cluster, chlorine, hydrogen): labels run to Si100, Cl200 ...
    return [((offset + i * (1 if offset != 50 else 7)) % 103) + 1 for i in range(n)]


def make_molecule(zs, pos, bonded):
    from chmpy.core.molecule import Molecule
    from chmpy.core.element import Element

    m = Molecule([Element.from_atomic_number(int(z)) for z in zs], np.array(pos, dtype=float))
    if bonded:
        m.guess_bonds()
    # names: none / short / a systematic name longer than one 80-column line (every fifth molecule each)
    k = (len(zs) + int(zs[0])) % 5
    if k == 1:
        m.properties["name"] = "water dimer"
    elif k == 2:
        m.properties["name"] = "(2S,3R)-2-amino-3-hydroxy-4-[(4-methoxyphenyl)methyl]-N-(2,2,2-trifluoroethyl)pentanediamide hydrochloride monohydrate form II"
    return m


def check_sdf_text(part, text, zs, pos, key, what, case):
    try:
        recs = sdfcols.read_records(text)
    except ValueError as e:
        msg = str(e)
        cls = "layout"
        for tag in ("counts", "coordinates", "column 31", "symbol", "bond", "M  END", "expected property", "too short", "truncated"):
            if tag in msg:
                cls = tag.replace(" ", "-")
                break
        part.fail("sdf-layout:%s:%s" % (cls, key), "%s: SDF text violates the V2000 column layout: %s" % (what, msg[:160]), case)
        return False
    if len(recs) != 1:
        part.fail("sdf-layout:records:%s" % key, "%s: %d records in the text of one molecule" % (what, len(recs)), case)
        return False
    r = recs[0]
    if not r["terminated"]:
        part.fail("sdf-layout:terminator:%s" % key, "%s: record is not terminated by $$$$" % what, case)
    want = [ELEMENTS[z - 1][0] for z in zs]
    if r["symbols"] != want:
        part.fail("sdf-text-symbols:%s" % key, "%s: symbols in columns 32-34 are %s..., expected %s..." % (what, r["symbols"][:4], want[:4]), case)
        return False
    d = np.abs(np.array(r["xyz"]) - np.asarray(pos)).max()
    if not (d <= 5.0e-5 + 1e-9):
        part.fail("sdf-text-coords:%s" % key, "%s: coordinates in columns 1-30 deviate by %g from the molecule's" % (what, d), case)
        return False
    return True


def roundtrip(part, fmt, n, offset, kind, bonded, route, tmpdir):
    from chmpy.core.molecule import Molecule

    zs = element_list(n, offset)
    pos = positions(n, kind, bonded)
    case = {"kind": "roundtrip", "fmt": fmt, "n": n, "offset": offset, "coords": kind, "bonded": bonded, "route": route}
    nkey = "n>=100" if n >= 100 else "n<100"
    key = "%s:%s:%s" % (nkey, kind if kind in ("field-limit",) else "coords", "bonded" if bonded else "unbonded")
    what = "%s round trip of %d atoms (%s, %s, %s)" % (fmt, n, kind, "bonded" if bonded else "unbonded", route)
    part.ev()
    part.tr(2)
    pos0 = pos.copy()
    try:
        m = make_molecule(zs, pos, bonded)
        if route == "string":
            text = m.to_xyz_string() if fmt == "xyz" else m.to_sdf_string()
        else:
            d = tempfile.mkdtemp(dir=tmpdir)
            # file names: the format is chosen by the extension (any letter case); stems that are names of OTHER formats' files
            # (coord, POSCAR, control ...) and dotted stems are ordinary names
            stems = ["m", "coord", "POSCAR", "control", "a.b", "geom.opt", "CONTCAR"]
            exts = [fmt, fmt, fmt, fmt.upper()]
            path = os.path.join(d, "%s.%s" % (stems[(n + offset) % len(stems)], exts[(n + len(kind)) % len(exts)]))
            if (n + offset) % 2:
                import pathlib

                path = pathlib.Path(path)
            m.save(path)
            text = open(path).read()
    except Exception as e:
        part.fail("%s-write-raise:%s" % (fmt, key), "%s: writing raised %s: %s" % (what, type(e).__name__, str(e)[:80]), case)
        return
    # writing is reading the molecule, not editing it: the object (and the caller's coordinate array it was built from) is bit for bit what
    # it was, and what it writes NEXT - in the other format - is what a molecule that was never written before writes
    try:
        part.tr()
        if not np.array_equal(np.asarray(m.positions, dtype=float), pos0) or not np.array_equal(pos, pos0) or [int(z) for z in m.atomic_numbers] != list(zs):
            part.fail("write-edits-molecule:%s" % fmt, "%s: after writing, the molecule's coordinates / elements are no longer the ones it was built with (max change %.3g)"
                      % (what, float(np.abs(np.asarray(m.positions, dtype=float) - pos0).max())), case)
            pos = pos0.copy()
        else:
            after = m.to_sdf_string() if fmt == "xyz" else m.to_xyz_string()
            fresh = make_molecule(zs, pos0.copy(), bonded)
            never = fresh.to_sdf_string() if fmt == "xyz" else fresh.to_xyz_string()
            if after != never:
                part.fail("write-history:%s" % fmt, "%s: the %s text written AFTER the %s text differs from the one a molecule that was never written gives"
                          % (what, "sdf" if fmt == "xyz" else "xyz", fmt), case)
    except Exception as e:
        part.fail("write-history-raise:%s" % fmt, "%s: writing the other format afterwards raised %s: %s" % (what, type(e).__name__, str(e)[:80]), case)
    if fmt == "sdf":
        part.trace()
        check_sdf_text(part, text, zs, pos, key, what, case)
    else:
        # the XYZ text itself, read by the format's definition (count line, comment line, one "symbol x y z" record per atom)
        part.trace()
        lines = text.split("\n")
        try:
            ok = int(lines[0].split()[0]) == len(zs) and len([l for l in lines[2:] if l.strip()]) == len(zs)
            for i in range(len(zs)):
                tok = lines[2 + i].split()
                ok = ok and tok[0].capitalize() == ELEMENTS[zs[i] - 1][0] and np.abs(np.array([float(t) for t in tok[1:4]]) - pos[i]).max() <= 5.0e-13 * (1 + 1e-6) + 1e-15
        except Exception:
            ok = False
        if not ok:
            part.fail("xyz-text:%s" % key, "%s: the written XYZ text does not describe the molecule (count line, record count, symbols or coordinates)" % what, case)
    try:
        if route == "string":
            if fmt == "xyz":
                back = Molecule.from_xyz_string(text)
            else:
                from chmpy.fmt.sdf import parse_sdf_contents

                recs = parse_sdf_contents(text)
                if len(recs) != 1:
                    part.fail("sdf-read-count:%s" % key, "%s: %d records parsed from one molecule" % (what, len(recs)), case)
                    return
                back = Molecule.from_sdf_dict(recs[0])
        else:
            back = Molecule.load(path)
            shutil.rmtree(d, ignore_errors=True)
    except Exception as e:
        part.fail("%s-read-raise:%s" % (fmt, key), "%s: reading back raised %s: %s" % (what, type(e).__name__, str(e)[:80]), case)
        return
    if not isinstance(back, Molecule):
        part.fail("%s-read-type:%s" % (fmt, key), "%s: load returned %s" % (what, type(back).__name__), case)
        return
    bz = [int(z) for z in back.atomic_numbers]
    if bz != zs:
        part.fail("%s-elements:%s" % (fmt, key), "%s: elements read back differ (first difference at atom %d)"
                  % (what, next((i for i, (a, b) in enumerate(zip(bz, zs)) if a != b), min(len(bz), len(zs)))), case)
        return
    # the labels a molecule carries are derived from its elements in order (symbol + running number per element): the same after loading
    try:
        if [str(x) for x in back.labels] != [str(x) for x in make_molecule(zs, pos0.copy(), bonded).labels]:
            lb, lw = [str(x) for x in back.labels], [str(x) for x in make_molecule(zs, pos0.copy(), bonded).labels]
            k_ = next(i for i, (a_, b_) in enumerate(zip(lb, lw)) if a_ != b_) if len(lb) == len(lw) else -1
            part.fail("%s-labels:%s" % (fmt, nkey), "%s: atom labels of the molecule read back differ from those of the molecule written (first difference at atom %d: %r vs %r)"
                      % (what, k_, lb[k_] if k_ >= 0 else len(lb), lw[k_] if k_ >= 0 else len(lw)), case)
    except Exception as e:
        part.fail("%s-labels-raise" % fmt, "%s: reading the labels of the loaded molecule raised %r" % (what, e), case)
    tol = 5.0e-13 if fmt == "xyz" else 5.0e-5
    dev = np.abs(np.asarray(back.positions) - pos).max()
    part.dev("coords_%s" % fmt, dev)
    if not (dev <= tol * (1 + 1e-6) + 1e-15):
        col = int(np.unravel_index(np.argmax(np.abs(np.asarray(back.positions) - pos)), pos.shape)[1])
        part.fail("%s-coords:%s:%s" % (fmt, "xyz"[col], key), "%s: coordinates read back deviate by %g (column %s), format precision %g" % (what, dev, "xyz"[col], tol), case)
    part.outcome((fmt, kind, bonded, route, n >= 100))


def provenance_roundtrip(part, fmt, n, prov, how, tmpdir):
    """
    molecules that were themselves read from a file (optionally keeping the source text) and then moved:
    the written file must describe the molecule as it is NOW
    """
    from chmpy.core.molecule import Molecule

    zs = element_list(n, 7)
    pos = positions(n, "generic", False)
    case = {"kind": "provenance", "fmt": fmt, "n": n, "prov": prov, "how": how}
    key = "provenance:%s:%s:%s" % (prov, how, fmt)
    part.ev()
    part.tr(3)
    try:
        m0 = make_molecule(zs, pos, False)
        d = tempfile.mkdtemp(dir=tmpdir)
        if prov == "sdf-keep-text":
            p0 = os.path.join(d, "src.sdf"); m0.save(p0); m = Molecule.load(p0, keep_sdf_text=True)
        elif prov == "sdf":
            p0 = os.path.join(d, "src.sdf"); m0.save(p0); m = Molecule.load(p0)
        else:
            p0 = os.path.join(d, "src.xyz"); m0.save(p0); m = Molecule.load(p0)
        base = np.array(m.positions, dtype=float)
        t = np.array([1.5, -2.25, 0.75])
        if how == "translate":
            m.translate(t); want = base + t
        elif how == "translated":
            m = m.translated(t); want = base + t
        elif how == "assign":
            m.positions = base * 2.0 + t; want = base * 2.0 + t
        else:
            want = base
        p1 = os.path.join(d, "out." + fmt)
        m.save(p1)
        text = open(p1).read()
        back = Molecule.load(p1)
        shutil.rmtree(d, ignore_errors=True)
    except Exception as e:
        part.fail(key + ":raise", "%s molecule (%s) -> %s raised %s: %s" % (prov, how, fmt, type(e).__name__, str(e)[:80]), case)
        return
    tol = 5.0e-13 if fmt == "xyz" and prov == "xyz" else 1.0e-4
    if not isinstance(back, Molecule) or [int(z) for z in back.atomic_numbers] != zs:
        part.fail(key + ":elements", "%s molecule (%s) written to %s reads back with other elements" % (prov, how, fmt), case)
        return
    dev = np.abs(np.asarray(back.positions) - want).max()
    if not (dev <= tol):
        part.fail(key + ":coords", "%s molecule after %s, written to %s, reads back %.4g A away from its current coordinates (stale source data?)" % (prov, how, fmt, dev), case)
    if fmt == "sdf":
        check_sdf_text(part, text, zs, want, key, "%s molecule after %s" % (prov, how), case)
    part.outcome(("prov", prov, how, fmt))
    part.state(("prov", prov, how, fmt, n))


def fmt_keyword(part, tmpdir):
    """
    pairwise: the explicit fmt= keyword of save / load TOGETHER WITH the file name - a name with the format's own suffix, with the OTHER
    format's suffix, with an unknown suffix, with none: the keyword decides on both sides, the molecule comes back
    """
    from chmpy.core.molecule import Molecule

    zs = [8, 1, 1, 17]
    pos = positions(4, "generic", True)
    d = tempfile.mkdtemp(dir=tmpdir)
    for fmt in ("xyz", "sdf"):
        other = "sdf" if fmt == "xyz" else "xyz"
        for stem in ("m.%s" % fmt, "m.%s" % other, "m.%s" % other.upper(), "m.dat", "m", "m.%s.bak" % other):
            for given in (fmt, "." + fmt):
                part.ev()
                part.tr(2)
                case = {"kind": "fmtkw"}
                path = os.path.join(d, stem)
                try:
                    make_molecule(zs, pos.copy(), True).save(path, fmt=given)
                    text = open(path).read()
                    is_sdf = "V2000" in text
                    if is_sdf != (fmt == "sdf"):
                        part.fail("fmt-keyword:written-format", "save(%r, fmt=%r) wrote %s text" % (stem, given, "SDF" if is_sdf else "XYZ"), case)
                        continue
                    back = Molecule.load(path, fmt=given)
                except Exception as e:
                    part.fail("fmt-keyword:raise", "save / load of %r with fmt=%r raised %s: %s" % (stem, given, type(e).__name__, str(e)[:80]), case)
                    continue
                tol = 5.0e-13 if fmt == "xyz" else 5.0e-5
                if [int(z) for z in back.atomic_numbers] != zs or not (np.abs(np.asarray(back.positions) - pos).max() <= tol * (1 + 1e-6) + 1e-15):
                    part.fail("fmt-keyword:roundtrip", "save / load of %r with fmt=%r does not return the molecule" % (stem, given), case)
                part.outcome(("fmtkw", fmt, stem.split(".")[-1].lower() == other))
    part.nstates(2)


def worker(part, jobs):
    tmpdir = tempfile.mkdtemp(prefix="c16_", dir="/dev/shm" if os.path.isdir("/dev/shm") else None)
    try:
        for job in jobs:
            if job[0] == "rt":
                roundtrip(part, *job[1:], tmpdir=tmpdir)
                part.state(job[1:5])
            elif job[0] == "xyzread":
                xyz_read(part, job[1])
            elif job[0] == "multi":
                multi_sdf(part, job[1], job[2])
            elif job[0] == "bigsdf":
                big_sdf(part, job[1])
            elif job[0] == "fmtkw":
                fmt_keyword(part, tmpdir)
            elif job[0] == "prov":
                provenance_roundtrip(part, *job[1:], tmpdir=tmpdir)
    finally:
        shutil.rmtree(tmpdir, ignore_errors=True)


def xyz_read(part, z):
    from chmpy.core.molecule import Molecule

    sym = ELEMENTS[z - 1][0]
    for spelling, sname in ((sym, "as-is"), (sym.upper(), "upper"), (sym.lower(), "lower")):
        for sep, sepname in ((" ", "one-blank"), ("    ", "several-blanks"), ("\t", "tab"), (None, "leading-blanks")):
            part.ev()
            part.tr()
            if sep is None:
                lines = ["2", "comment", "   %s  0.5 -1.25 2.0" % spelling, "  H  1.5   1.0   -3.0  "]
            else:
                lines = ["2", "comment", sep.join([spelling, "0.5", "-1.25", "2.0"]), sep.join(["H", "1.5", "1.0", "-3.0"])]
            text = "\n".join(lines) + "\n"
            case = {"kind": "xyzread", "z": z, "text": text}
            try:
                m = Molecule.from_xyz_string(text)
            except Exception as e:
                part.fail("xyz-read-raise:%s:%s" % (sname, sepname), "reading XYZ with symbol %r (%s, %s) raised %s" % (spelling, sname, sepname, type(e).__name__), case)
                continue
            if [int(v) for v in m.atomic_numbers] != [z, 1] or not (np.abs(np.asarray(m.positions) - np.array([[0.5, -1.25, 2.0], [1.5, 1.0, -3.0]])).max() <= 0):
                part.fail("xyz-read:%s:%s" % (sname, sepname), "XYZ with symbol %r (%s, %s) read as %s" % (spelling, sname, sepname, list(m.atomic_numbers)), case)
            part.outcome(("xyzread", sname, sepname))
    # the comment line is free text: empty, blank, or looking like a count / an atom record - it never is an atom and never hides one
    for comment, cname in (("", "empty"), ("   ", "blanks"), ("\t", "tab"), ("0 1", "charge-multiplicity"), ("2", "number"), ("H 0.0 0.0 0.0", "atom-like"),
                           ("Au", "symbol-that-reads-as-a-unit"), ("energy = -76.4 au, coordinates in bohr", "unit-words"), ("angstrom", "unit-word")):
        for via in ("text", "molecule"):
            part.ev()
            part.tr()
            if via == "text":
                text = "\n".join(["2", comment, "%s 0.5 -1.25 2.0" % sym, "H 1.5 1.0 -3.0"]) + "\n"
            else:
                from chmpy.core.element import Element

                m0 = Molecule([Element.from_atomic_number(z), Element.from_atomic_number(1)], np.array([[0.5, -1.25, 2.0], [1.5, 1.0, -3.0]]), comment=comment)
                text = m0.to_xyz_string()
            case = {"kind": "xyzread", "z": z, "text": text}
            try:
                m = Molecule.from_xyz_string(text)
            except Exception as e:
                part.fail("xyz-comment-raise:%s:%s" % (cname, via), "reading XYZ with the comment line %r (%s) raised %s" % (comment, via, type(e).__name__), case)
                continue
            if [int(v) for v in m.atomic_numbers] != [z, 1] or not (np.abs(np.asarray(m.positions) - np.array([[0.5, -1.25, 2.0], [1.5, 1.0, -3.0]])).max() <= 1e-12):
                part.fail("xyz-comment:%s:%s" % (cname, via), "XYZ with the comment line %r (%s) read as %s" % (comment, via, list(m.atomic_numbers)), case)
            part.outcome(("xyzcomment", cname, via))
    part.state(("xyzread", z))


def multi_sdf(part, k, source):
    """k records concatenated -> k molecules, in order"""
    from chmpy.core.molecule import Molecule
    from chmpy.fmt.sdf import parse_sdf_contents

    mols = []
    texts = []
    for r in range(k):
        n = [3, 1, 5][r]
        zs = element_list(n, 5 + 11 * r)
        pos = positions(n, "generic", False) + r
        mols.append((zs, pos))
        if source == "writer":
            t = make_molecule(zs, pos, r == 0).to_sdf_string()
            if not t.endswith("\n"):
                t += "\n"
            texts.append(t)
        else:
            texts.append(sdfcols.write_record([ELEMENTS[z - 1][0] for z in zs], pos, bonds=[(1, 2, 1)] if n > 1 and r == 0 else []))
    text = "".join(texts)
    case = {"kind": "multi", "k": k, "source": source}
    part.ev()
    part.tr()
    key = "multi-sdf:%s:%d" % (source, k)
    try:
        recs = parse_sdf_contents(text)
        back = [Molecule.from_sdf_dict(r) for r in recs]
    except Exception as e:
        part.fail(key + ":raise", "SDF text with %d record(s) (%s) raised %s on reading" % (k, source, type(e).__name__), case)
        return
    if len(back) != k:
        part.fail(key + ":count", "SDF text with %d record(s) (%s) yields %d molecules" % (k, source, len(back)), case)
        return
    for i, (b, (zs, pos)) in enumerate(zip(back, mols)):
        if [int(z) for z in b.atomic_numbers] != zs or not (np.abs(np.asarray(b.positions) - pos).max() <= 5.0e-5 * (1 + 1e-6)):
            part.fail(key + ":content", "record %d of %d (%s) read back with other elements/coordinates" % (i, k, source), case)
            return
    # file route
    d = tempfile.mkdtemp(prefix="c16m_", dir="/dev/shm" if os.path.isdir("/dev/shm") else None)
    try:
        for eol_name, eol in (("LF", "\n"), ("CRLF", "\r\n")):
            p = os.path.join(d, "multi_%s.sdf" % eol_name)
            open(p, "w", newline="").write(text.replace("\n", eol))
            got = Molecule.load(p)
            got = got if isinstance(got, list) else [got]
            if len(got) != k:
                part.fail(key + ":file-count:" + eol_name, "Molecule.load of a file with %d record(s) (%s, %s line endings) yields %d molecules" % (k, source, eol_name, len(got)), case)
            else:
                for i, (b, (zs, pos)) in enumerate(zip(got, mols)):
                    if [int(z) for z in b.atomic_numbers] != zs or not (np.abs(np.asarray(b.positions) - pos).max() <= 5.0e-5 * (1 + 1e-6)):
                        part.fail(key + ":file-content:" + eol_name, "record %d of a %d-record file (%s, %s line endings) read back with other elements/coordinates" % (i, k, source, eol_name), case)
                        break
    except Exception as e:
        part.fail(key + ":file-raise", "Molecule.load of %d record(s) (%s) raised %s" % (k, source, type(e).__name__), case)
    finally:
        shutil.rmtree(d, ignore_errors=True)
    part.outcome(("multi", k, source))
    part.state(("multi", k, source))


def big_sdf(part, d):
    """
    a multi-record SDF FILE of ~140 kB whose record terminators "$$$$" are placed so that one of them begins exactly `d` characters
    before each power-of-two offset 4096 .. 131072 (where a reader that streams the file in blocks would cut it): Molecule.load returns
    every record, in order, with its own elements and coordinates
    """
    from chmpy.core.molecule import Molecule

    crlf = d >= 10                # the same files with DOS line endings (files written on Windows, MDL downloads)
    d = d % 10
    targets = [2 ** k for k in range(12, 18)]
    text = ""
    mols = []
    r = 0
    def record(n, r, pad=0):
        zs = element_list(n, 3 + 7 * r)
        pos = positions(n, "generic", False) + 0.001 * r
        return zs, pos, sdfcols.write_record([ELEMENTS[z - 1][0] for z in zs], pos, title="r%d" % r + "x" * pad)

    hit = []
    while targets:
        n = 1 + (r * 5) % 4
        want_start = targets[0] - d                       # offset at which this record's "$$$$" should begin
        zs, pos, rec = record(n, r)
        gap = want_start - (len(text) + len(rec) - 5)     # "$$$$\n" are the last five characters of a record
        if gap < 0:
            targets.pop(0)                                 # (only if a single record were longer than the distance: does not happen)
            continue
        if gap <= 600:
            # close enough: lengthen THIS record by whole atom lines and pad its title (<= 70 characters) so that it ends on the mark
            for k in range(0, 12):
                zs, pos, rec = record(n + k, r)
                g2 = want_start - (len(text) + len(rec) - 5)
                if 0 <= g2 <= 70:
                    zs, pos, rec = record(n + k, r, pad=g2)
                    break
            if len(text) + len(rec) - 5 == want_start:
                hit.append(targets[0])
            targets.pop(0)
        text += rec
        mols.append((zs, pos))
        r += 1
    if len(hit) < 5:
        part.fail("harness:big-sdf-alignment", "only %d of 6 block boundaries could be aligned" % len(hit), {"kind": "bigsdf", "d": d})
    for extra in range(3):
        zs = element_list(2, 50 + extra)
        pos = positions(2, "generic", False)
        text += sdfcols.write_record([ELEMENTS[z - 1][0] for z in zs], pos, title="tail%d" % extra)
        mols.append((zs, pos))
    case = {"kind": "bigsdf", "d": d + (10 if crlf else 0)}
    part.ev()
    part.tr()
    part.trace()
    tmp = tempfile.mkdtemp(prefix="c16b_", dir="/dev/shm" if os.path.isdir("/dev/shm") else None)
    try:
        pth = os.path.join(tmp, "big.sdf")
        open(pth, "w", newline="").write(text.replace("\n", "\r\n") if crlf else text)
        got = Molecule.load(pth)
        got = got if isinstance(got, list) else [got]
    except Exception as e:
        part.fail("big-sdf:raise", "Molecule.load of a %d-record, %d-byte SDF file raised %s: %s" % (len(mols), len(text), type(e).__name__, str(e)[:80]), case)
        return
    finally:
        shutil.rmtree(tmp, ignore_errors=True)
    if len(got) != len(mols):
        part.fail("big-sdf:count", "Molecule.load of a %d-record, %d-byte SDF file (a terminator %d characters before each of the offsets 4096..131072) yields %d molecules" % (len(mols), len(text), d, len(got)), case)
        return
    for i, (b, (zs, pos)) in enumerate(zip(got, mols)):
        if [int(z) for z in b.atomic_numbers] != zs or not (np.abs(np.asarray(b.positions) - pos).max() <= 5.0e-5 * (1 + 1e-6)):
            part.fail("big-sdf:content", "record %d of %d of a large SDF file read back with other elements / coordinates" % (i, len(mols)), case)
            return
    part.outcome(("bigsdf", d))
    part.state(("bigsdf", d))


def run(ctx):
    from mc.core import chunked

    jobs = []
    offsets = (0, 36, 50)
    for fmt in ("xyz", "sdf"):
        for n in COUNTS:
            for off in offsets:
                for kind in COORD_KINDS:
                    for bonded in (False, True):
                        if bonded and n > 101 and not ctx.thorough:
                            continue
                        for route in ("string", "file"):
                            # deviation bound (quick): the file route and the non-default offsets only with default coordinates
                            if not ctx.thorough and route == "file" and kind not in ("generic", "field-limit"):
                                continue
                            if not ctx.thorough and off != 0 and kind not in ("generic", "negative"):
                                continue
                            jobs.append(("rt", fmt, n, off, kind, bonded, route))
    for fmt in ("xyz", "sdf"):
        for n in (3, 99, 100, 101, 200):
            for off in (-14, -17, -1):
                jobs.append(("rt", fmt, n, off, "generic", False, "string"))
    # every atom count of an interval (a size-dependent branch of a reader or writer has nowhere to hide below the bound):
    # default coordinates and route; the thorough tier goes to the V2000 limit of 999 atoms and adds the bonded form
    sweep_to = 999 if ctx.thorough else 260
    for fmt in ("xyz", "sdf"):
        for n in range(1, sweep_to + 1):
            if n not in COUNTS:
                jobs.append(("rt", fmt, n, 0, "generic", False, "string"))
                if ctx.thorough and n <= 200:      # the quantifier's range; beyond ~245 atoms of this lattice the perceived bonds exceed the 3-digit V2000 bond count
                    jobs.append(("rt", fmt, n, 0, "generic", True, "file"))
    for z in range(1, 104):
        jobs.append(("xyzread", z))
    for k in (1, 2, 3):
        for source in ("writer", "reference"):
            jobs.append(("multi", k, source))
    for d in (0, 1, 2, 3, 4, 5, 10, 12):
        jobs.append(("bigsdf", d))
    jobs.append(("fmtkw",))
    for fmt in ("xyz", "sdf"):
        for n in (3, 12):
            for prov in ("xyz", "sdf", "sdf-keep-text"):
                for how in ("none", "translate", "translated", "assign"):
                    jobs.append(("prov", fmt, n, prov, how))
    ctx.rule = ("{xyz, sdf} x atom counts %s x 3 element offsets (lists cycle through all 103 elements) x coordinate kinds %s x bonded/unbonded x "
                "string/file routes%s; molecules read from xyz/sdf (with and without the kept source text) and then moved in 3 ways before being written; XYZ reading of all 103 symbols x 3 letter cases x 4 separator styles and x 6 comment lines (empty, blank, number-like, atom-like) x {hand-written, written by the library}; SDF texts with 1-3 records from the "
                "writer and from the column reference; every SDF text checked against the V2000 column layout; states = distinct molecule "
                "configurations" % (COUNTS, COORD_KINDS, "" if ctx.thorough else " (non-default offsets/file route under a one-deviation bound)"))
    ctx.rule += "; every atom count 1..%d with default coordinates (string route%s)" % (sweep_to, "; bonded + file route up to 200" if ctx.thorough else "")
    ctx.bounds = {"counts": COUNTS, "count_sweep_to": sweep_to, "coordinate_kinds": COORD_KINDS, "jobs": len(jobs)}
    ctx.assumptions = ["XYZ precision 5e-13 (12 decimals), SDF precision 5e-5 (4 decimals); coordinates within +-9999.9999 (SDF field width)",
                       "the SDF layout oracle is the CTfile V2000 specification as encoded in mc/ref/sdfcols.py"]
    ctx.pmap(worker, chunked(jobs, max(1, len(jobs) // 64)))
    ctx.sample({"example_job": list(jobs[0]), "sdf_text_head": make_molecule([8, 1, 1], positions(3, "generic", True), True).to_sdf_string().split("\n")[:8]})


def replay(ctx, case):
    k = case["kind"]
    if k == "roundtrip":
        d = tempfile.mkdtemp(prefix="c16_")
        try:
            roundtrip(ctx, case["fmt"], case["n"], case["offset"], case["coords"], case["bonded"], case["route"], d)
        finally:
            shutil.rmtree(d, ignore_errors=True)
    elif k == "fmtkw":
        worker(ctx, [("fmtkw",)])
    elif k == "bigsdf":
        big_sdf(ctx, case["d"])
    elif k == "xyzread":
        xyz_read(ctx, case["z"])
    elif k == "provenance":
        d = tempfile.mkdtemp(prefix="c16_")
        try:
            provenance_roundtrip(ctx, case["fmt"], case["n"], case["prov"], case["how"], d)
        finally:
            shutil.rmtree(d, ignore_errors=True)
    else:
        multi_sdf(ctx, case["k"], case["source"])

"""where the library under test lives: /repo unless VERIF_REPO points to a scratch copy (used only by tools/seedtest.sh)"""
import os

REPO = os.environ.get("VERIF_REPO", "/repo")
REPO_SRC = os.path.join(REPO, "src")
TEST_FILES = os.path.join(REPO_SRC, "chmpy", "tests", "test_files") + "/"

#!/bin/bash
# usage: tools/mkwt.sh <dir>  - scratch worktree of /repo HEAD with the built extension modules copied in
set -e
d="$1"
git -C /repo worktree add --detach "$d" HEAD >/dev/null 2>&1
(cd /repo && find src -name '*.so' | while read f; do cp "$f" "$d/$f"; done)
echo "$d ready; run tests with: cd $d && PYTHONPATH=$d/src /venv/bin/python -m pytest -q -p no:cacheprovider --timeout=900"

#!/usr/bin/env python3
"""regenerates /verif/MANIFEST.json from the table below (kept valid at all times)"""
import json, os

HERE = os.path.dirname(os.path.dirname(os.path.abspath(__file__)))

# id -> (level, technique, text, note, design_ref)
CHECKS = {
 "C01": ("model_checking",
         "exhaustive orbit enumeration on a rational site grid for all 530 settings (exact integer group-action model) with every image replayed on Crystal.unit_cell_atoms/slab",
         "All 530 settings x every site of the 1/24 grid (1/48 for the 230 first-listed settings in the thorough tier), i.e. every special position with such coordinates and general positions, both orbit representatives, 2 cells, 3 occupancies, 3 slab bounds: image set, parent index, generator operation, element/label, merged occupancy, [0,1) range and Cartesian consistency compared with an exact model for every image.",
         "Sites are >= 1/48 apart (outside the 0.01 merge tolerance, as the property stipulates); float coordinates i/N; reference algebra in mc/ref/symm.py bound to the code by decoder/apply conformance on every tabulated operation.",
         "2/C01"),
 "C02": ("model_checking",
         "explicit-state BFS of the Cayley graph of every tabulated setting (exact integer model) + conformance replay on SpaceGroup",
         "Finite domain enumerated completely: all 530 settings; closure/inverse/identity/uniqueness decided on an exact model bound to the code by decoding every operation both ways; construction, default choice, lookup from full list (3 orders) and LATT+SYMM round trip executed on the real classes for every setting.",
         "Trusts the reference algebra in mc/ref/symm.py (integer matrices, translations in Z/12) and that sgdata.json is the table the library loads.",
         "2/C02"),
 "C11": ("model_checking",
         "complete enumeration of the 34,012,224-code space (thorough) / all rotations x boundary translations (quick), grammar-bounded spelling enumeration, lattice-offset enumeration, against an exact reference codec",
         "Finite code space enumerated completely in the thorough tier (int and string round trips of every code against an independent decoder); every distinct tabulated operation x every spelling within 2 (quick) / 3 (thorough) deviations of the canonical form, x 125 lattice offsets x eps patterns, x three apply() forms in 7 cells.",
         "The documented ternary/duodecimal packing is the specification; spellings outside the grammar (e.g. two translation terms in one component) are not covered; string-built operations echo their source spelling by design.",
         "2/C11"),
 "C14": ("model_checking",
         "explicit-state BFS over call histories on real Crystal objects to closure of the reachable canonical state space; invariant = agreement with a freshly built crystal on every transition",
         "Every history over 14 fixed-argument queries, both trigonal switches and deepcopy, on 5 structures (generated R-3 water in H and R axes, the same loaded from CIF text, NH3-on-axis + water, bundled R3c example): the search runs until no new canonical state appears (digest of vars(obj) incl. all memo attributes), so histories of every length are covered, not just length 4; each of the ~3700 transitions is executed on the real object and compared with a fresh crystal, repeated, and checked not to modify the public state; a second, non-deduplicated pass (every prefix of length <= 2 x every final operation) re-digests every answer handed out earlier (aliasing); a TLA+ model of the memo protocol is explored by TLC and every edge of its state graph is replayed on real crystals (abstraction of the real state = model successor).",
         "Digest soundness assumes methods only read state reachable from vars(obj); floats are rounded to 1e-9 in the digest (never in the oracle); queries are always issued with the same arguments, as the property stipulates.",
         "2/C14"),
 "C04": ("exploration",
         "bounded-exhaustive enumeration of rigid-molecule packings (setting x Z' kind x centre grid x orientation) against an exact image model with a reference-decided precondition filter",
         "Continuous quantifier: the claim is bounded-exhaustive over a finite lattice of packings - every first-listed setting plus 40 further numbers in all their settings (thorough: all 530), molecules {H2O, CO, CO2, CH4} incl. index orders that force the bond walk from higher to lower indices, Z' in {1, 2 equal, 2 different}, centres straddling 0..3 cell faces: partition, lattice-translate, internal geometry, centre of mass, count, coincidence with the exact images, unique-molecule cover, labelling and periodic bond graph with cell offsets; all orders of default / covalent_radii-overridden analyses (hidden module state).",
         "Cases violating the property's precondition (contacts < bonding threshold + 0.5 A, special positions) are skipped and counted; covalent radii and masses read from the library table as data.",
         "2/C04"),
 "C13": ("model_checking",
         "bounded enumeration of re-expression chains: all words over {H,R} up to length 3 (4) from both settings x 7 R groups x cells x asymmetric units; supercell sizes x 2 routes x settings; oracle = bidirectional coincidence of the infinite arrangements modulo the lattices",
         "P1/supercells: all 230 first-listed settings (thorough: 530) x molecular crystals x sizes {(1,1,1),(2,1,1),(1,2,3)} (+ all 27 sizes for 10 settings) x both API routes x standard / rotated lattice-vector frame; trigonal switch: 7 groups x 3 (a,c) x 3 asymmetric units incl. special positions (+ bundled R3c) x every word over {H,R} of length <= 3 from either setting, with round-trip, density, volume-ratio and metric checks.",
         "Coincidence tolerance 1e-6 A over lattice translates within +-2 cells; special sites kept away from the merge tolerance; cases failing the C04 precondition skipped.",
         "2/C13"),
 "C03": ("exploration",
         "bounded-exhaustive enumeration of (crystal, radius, centre, query) cases against a brute-force periodic search with self-validated range",
         "Continuous quantifier; bounded-exhaustive over: 5 general atoms in 9 settings x 2 compatible cells (thorough: all 530 settings) + 9 oblique cells (down to 50 deg / up to 125 deg) in P1 and P-1, bundled ice II / acetic acid / R3c, generated molecular crystals in 10 settings; radii {1.2, 3.8, 6, 12, up to 20}; centres inside and far outside the cell; all five query entry points; required <= observed <= allowed with a 1e-6 A band, duplicates, centre exclusion, attributes of matched images.",
         "Unit-cell atoms taken from the library (validated by C01); atoms_in_radius origin read as Cartesian; reference range = perpendicular widths + 1 shell, asserted empty outermost shell.",
         "2/C03"),
 "C10": ("model_checking",
         "bounded enumeration of save->load chains: all 530 settings x 3 formats x deviation-bounded variants (cell, asymmetric unit, provenance, route, generations), with the written text also read by independent reference readers",
         "Every setting x {CIF, .res, POSCAR} x 11 variants within one deviation of the default (thorough: two deviations): cell parameters, IT number + operation set, elements, labels, coordinates to the written precision, occupancies (CIF), P1 lattice + unit-cell atom set (POSCAR) after the round trip; every text is also parsed by reference readers implementing SHELX LATT/SYMM semantics and CIF syntax independently.",
         "Asymmetric units are shifted per setting so that no two images are closer than 0.02 (fractional), i.e. away from the library's 0.01 merge tolerance; standard label strings only.",
         "2/C10"),
 "C17": ("model_checking",
         "complete enumeration of the finite lookup domain (103 elements x all spelling routes, integers -200..300 x 10 numeric routes, 103^2 ordered pairs) against a hand-written reference list",
         "Finite domain enumerated completely in both tiers: every element through 56 lookup routes (ints, numpy ints, decimal strings, symbol/name in three cases, labels with digits and suffixes, padding) and the vectorised helpers; every integer in -200..300 must be accepted iff in 1..103 through ten routes; non-elements rejected; all ordered pairs for <,>,<=,>=,==,hash; 728 formula multisets.",
         "Symbols/names from a hand-written list; radii and masses are compared with the library's own table row (cross-route consistency), not with external data (the table's polonium mass 290.0 is therefore not judged).",
         "2/C17"),
 "C15": ("model_checking",
         "grammar-generated dictionaries enumerated completely up to a size bound (all shapes x all single-slot value deviations, pairs on small shapes) through write->parse, with an independent reference CIF reader on the text",
         "All shapes of <= 3 items (thorough: <= 4 items over 6 names, 240,780 shapes) - every ordered choice of names that triggers each loop-grouping decision, each item scalar or column of length 0..3 - in 4 block layouts, with every single-slot deviation over a 16-value alphabet (ints, floats incl. 1e-5 and 123456.789, integral float, words, strings with blanks / apostrophes / double quotes / double blanks / symmetry-operation text), numpy columns, two generations; parse_value on numbers with (su) and quoted strings.",
         "Strings needing nested quotes, number-like strings and reserved words are outside the alphabet (as the quantifier says); 2.0 -> 2 is treated as the documented coercion.",
         "2/C15"),
 "C16": ("model_checking",
         "bounded enumeration of write->read chains over atom counts x element lists x coordinate alphabets x bonded/unbonded x routes, XYZ spelling enumeration for all 103 symbols, multi-record SDF; SDF text judged by an independent fixed-column V2000 reader",
         "Both formats x atom counts {1,2,3,10,99,100,101,200} x element lists cycling through all 103 elements x 6 coordinate kinds (generic, negative, zero, +-9999.9999 field limit, below SDF precision, 12 digits) x bonded/unbonded x string/file routes; every symbol in 3 letter cases x 4 separator styles through the XYZ reader; 1-3 concatenated SDF records from the writer and hand-built by the column reference; each SDF text must satisfy the CTfile V2000 columns; molecules read from xyz/sdf (with and without kept source text) and moved before being written.",
         "Precision XYZ 5e-13 / SDF 5e-5; molecules keep within the 3-digit atom/bond counts of V2000.",
         "2/C16"),
 "C12": ("exploration",
         "complete enumeration of a lattice of cells (lengths^3 x angle grid, filtered to valid parallelepipeds) through both construction routes and all named constructors against textbook lattice geometry",
         "Continuous quantifier; bounded-exhaustive over lengths {1,7.3,100}^3 (thorough {1,2.5,7.3,31.7,100}^3) x all valid angle triples on a 10 (5) degree grid in [20,160]^3 (42k / 1.5M cells), degrees and radians, vector route incl. 26 rotated frames and left-handed input, seven named constructors + from_unique_parameters: inverse, coordinate round trip, lengths/angles, volume=|det|, reciprocal lengths/angles/vectors, agreement of the two routes, all to 1e-9 relative; all sequences of <= 2 (3) re-specifications of one object through set_lengths_and_angles / set_vectors.",
         "Cells flatter than sqrt(det G)/abc = 0.02 are excluded as degenerate; angle tolerances scaled by 1/sin.",
         "2/C12"),
 "C18": ("exploration",
         "complete enumeration of small lattice point sets (all triples/quadruples of {-1,0,1}^3, incl. every collinear/planar/centrosymmetric degeneracy) x relating transformations x reflection x noise, against Horn's quaternion optimum",
         "Continuous quantifier; bounded-exhaustive over all 2,925 triples and 17,550 quadruples (quick: every third) of the 27-point lattice + prefixes n=5..50 of two lattice enumerations, x 28 rotations x reflection x 3 noise patterns: orthogonality, det=+1, RMSD not above the independent optimum + 1e-8, congruent sets superposed, mirror images never superposed improperly, rmsd_points/reorient_points consistent; Dimer.transform_ab reproduces the relating rotation; matrices and Dimers handed out earlier stay unchanged by later calls.",
         "Rotation about the origin (the routine does not centre); Horn's method is the trusted optimum.",
         "2/C18"),
 "C19": ("exploration",
         "complete enumeration of a degenerate axis-aligned facet family (4^7 / 5^7 energy assignments) and of subsets of a generic normal pool, against brute-force half-space intersection and mesh predicates",
         "Continuous quantifier; bounded-exhaustive over all assignments of {absent, 1.0, 1.3, 2.0} (thorough + 1.7 and {110} pairs) to the 7 axis pairs of {100}+{111} (cubes, prisms, octahedra, cuboctahedra, cut-off facets, >= 4 facets through a vertex), all subsets of size 3..7 (thorough 3..12) of 12 generic normals x 3 energy patterns, 30/60-facet sets: vertices inside all half-spaces and on >= 3 facets, vertex set = reference, closed outward mesh, volume = reference, energy scaling.",
         "Vertex coincidence 1e-6, volume 1e-7 relative; unbounded facet sets are recognised by the reference and skipped.",
         "2/C19"),
 "C20": ("model_checking",
         "complete enumeration of the bounded stratification domain (dims 1..1000 x m<=12, all elementary boxes) and of a boundary-oriented family of seed windows; bit-exact comparison batch = single = prefix = direct Gray-code reference",
         "Stratification and (0,m,2)-net: finite domain enumerated completely in both tiers; batch/single/prefix agreement on 4,300+ windows (all [s,s+k] with s<=64,k<=64; +-2 around every power of two to 2^20; 10^6) x dims {1,2,3,10,100,1000} (Sobol, bit-exact) and 14 (thorough 64) Korobov dimensions; front-end dispatch incl. all call histories of length <= 2 (3) over 8 colliding calls from freshly reloaded module state; determinism of repeated calls; direct non-recurrent evaluation from hard-coded Joe-Kuo rows for dims 1..13 x 4096 seeds.",
         "Compiled kernels exercised as built (no Cython offline); the batch/single half is an exhaustive window family under a work budget, not all (s,k) up to 10^6.",
         "2/C20"),
 "C07": ("exploration",
         "complete enumeration of the transform's basis (every (l,m) channel, both phases, both layouts) for every L up to a bound and boundary channels for all L in 0..64, against scipy's spherical harmonics; linearity lifts basis coverage to all coefficient vectors",
         "Configurations: every L in 0..64 (each selects its own grid). Inputs: for L <= 16 (thorough 32) every unit vector e_(l,m) and i*e_(l,m) of the complex and real layouts through analysis and synthesis, completion and complex-vs-real agreement; above that the channels l in {0,1,L/2,L-1,L} x m in {-l,-1,0,1,l} and two dense vectors; pure-Python paths and point-wise evaluation on every basis vector for L <= 8 (12); linearity, Parseval by an independent quadrature, power spectrum; grid-size facts; all call sequences of length <= 3 over 11 methods on one reused SHT object (scratch arrays, returned arrays).",
         "Tolerance 1e-10*(L+1); scipy.special.sph_harm_y is the trusted definition of the orthonormal Condon-Shortley harmonics; compiled kernels exercised as built.",
         "2/C07"),
 "C08": ("model_checking",
         "explicit-state BFS over rotation words (deduplicated rotation matrices) x complete enumeration of low-order coefficient vectors (all sums of <= 3 unit vectors with phases: polarisation covers the quadratic/cubic forms) against exactly rotated coefficients",
         "Rotations: all words of length <= 2 (thorough 3) over 5 generators + the octahedral group + a seed-rotated generic one; coefficient vectors, general complex and completed-real: all unit vectors, pairs and triples with phase variants for small L, unit vectors to L=6, adjacent pairs at L=8, dense vectors to L=12; N, P (cubed) and power spectrum of rotated = original to 1e-9; locality of N for every coefficient up to L=12; count/order/N-first for L=0..26.",
         "Rotated coefficients from exact quadrature of scipy's harmonics (blocks checked unitary); compiled Clebsch-Gordan kernel exercised as built.",
         "2/C08"),
 "C05": ("exploration",
         "complete enumeration of the density table (all elements x all intervals) and of small atom configurations (all placements of <= 3/4 atoms from an element alphabet on a site set x all bipartitions, orders, motions) against float64 table interpolation",
         "Continuous quantifier; bounded-exhaustive over: Z = 1..103 x every one of the 4095 table intervals x 2 interior points + 8 radii beyond the table; all 8,400 placements of 1..3 atoms (thorough: + 45,360 of 4) from {H,C,O,Cl,Fe,U} on 7 sites x 125 lattice points: sum of atoms, positivity, every atom order, every bipartition (additivity, weights with 3 backgrounds, complements), 30 rigid motions.",
         "Tolerances: 1e-4 relative vs the table (float32 kernel), 1e-5 additivity/order, 5e-4 motions up to 50 A; points within 0.3 A of a nucleus excluded; compiled kernel as built.",
         "2/C05"),
 "C09": ("exploration",
         "bounded-exhaustive enumeration of poses (BFS rotation words x translations x all atom orders) x molecules x l_max x surfaces x property channels, with a calibrated error ladder and root-residual / error-reporting oracles",
         "Continuous quantifier; bounded-exhaustive over 6 molecules x l_max {4,6,8,12} x {promolecule at 2 isovalues, stockholder with explicit exterior, Molecule API, per-atom API} x {none, d_norm, esp} x 31 rotations (all words of length <= 2 over 5 generators + a seed-rotated one) combined with 3 translations, all atom permutations, reversed exterior; radial function re-evaluated through the batch path; ValueError for surfaces wholly or partly outside the bounds; ice II and acetic acid in rigidly rotated lattices through 4 Crystal APIs.",
         "Pose independence is up to discretisation: bounds per surface class and l_max calibrated on the unchanged tree (3-10x the worst observed over seeds 0..9), not derived; compiled root finder as built.",
         "2/C09"),
 "C06": ("model_checking",
         "complete enumeration of the mesher's cube-configuration space on padded free blocks (all 256 sign patterns x ambiguity-deciding magnitudes; two- and four-cell blocks) with manifold / level-location / winding-number oracles; plus bounded families of smooth fields and molecular surfaces",
         "Layer 1: every corner-value assignment from {-2,-1,+1,+2} to a 2x2x2 free block (quick: all sign patterns x <= 2 large corners; thorough: all 65,536) and all 4,096 sign patterns x 4 magnitude patterns of a 3x2x2 block (thorough: + 3x3x2), under both gradient directions, anisotropic spacing, shifted blocks/grid shapes and a non-zero level: closed oriented manifold, vertices at linear crossings of straddling edges (or inside straddling cells), orientation fixed by gradient direction, every above-level sample enclosed (winding number +-1) and no other. Layers 2-4: 108 multi-blob fields, volume ladders, 5 molecules x promolecule/Hirshfeld surfaces along the separation ladder 1.0..0.2 raw and smoothed, user-level wrappers.",
         "Compiled Lewiner kernel exercised as built (lookup tables and wrappers live); exact ties of the face decider are a recorded known finding; convergence bounds calibrated.",
         "2/C06"),
}

# argument-form axes added after the wave-d seeds (appended to the level text of each check)
ADDENDA = {
 "C17": " Look-alike non-elements are probed before and after every valid lookup (acceptance must not depend on history). Every Element handed out is scribbled on before the next lookup. Elements after copy / deepcopy / pickle. chemical_formula over tuples, object arrays, generators, iterators, maps. Formula counts of 255-70000 atoms of one element. A refused lookup between every two valid lookups of the route sweep. Vectorised helpers on arrays of one, none and two atoms. Labels with trailing line-end white space.",
 "C12": " Near-duplicate pairs of cells (angles within 5e-3 degrees, lengths within 1e-6) built in one process, both orders. Unit strings created at run time. Unit passed positionally / defaulted; cells after pickle / copy. Whole-number lattices (orthogonal and oblique) in 8 array forms through the constructor and set_vectors. Refused re-specifications (five kinds, on the object or a bystander) before every letter of the history alphabet. One position as a (3,) vector / (1,3) array / list in every cell. Copies (copy / deepcopy / pickle) re-specified with every letter.",
 "C08": " The count/order sweep over L = 0..26 is run upwards and then downwards in one process. Band-limit continuity oracle: functions stored above their band limit (top degrees exactly zero). kinds in every letter order. Homogeneity oracle (one degree scaled by 1e-13). Rotation invariance is checked at every L = 1..26 (dense, wide-range and decaying vectors). Dense and flat vectors at overall magnitudes 1e-13 .. 1e8. (valid, refused, retry, valid) histories over seven kinds of refused input. Band limit 0 with explicit shape checks. kinds='N' for every accepted array form.",
 "C07": " Constructor histories: ordered pairs of objects with the same L and different (ntheta, nphi), each exact on its own grid. Magnitude axis: amplitudes 1e-10 and 1e7, and a 1e-9 imaginary part on a unit real function. Long sweeps: thousands of distinct points evaluated twice on one object. Poles evaluated at every L; all threshold tests NaN-proof. Cartesian form of the grid at every L. The arrays returned by grid / grid_cartesian are edited by the caller and the grid is read again. Power spectra of shape-like decaying spectra, degree by degree to relative accuracy. Object histories include six refused calls, first and in between. Whole-number angles in integer types.",
 "C01": " Positions are also handed over as an int64 array (atoms on whole-number coordinates), as a nested list and shifted by lattice vectors. An after-exports variant (three file exports between two queries) in every setting. Cells given by lattice vectors in rotated / permuted / mirrored Cartesian frames; a deterministic cross-setting pass per crystal class. Occupancy 0 is in the occupancy alphabet. Every setting is also expanded in a pseudo-special cell (free parameters a hair off whole numbers / 90 / 120 / 60 degrees). A variant in which the crystal's first requests are ones the API refuses. One-cell and one-cell-thick slabs. Special-position sites in crystals built without occupancies.",
 "C02": " Lookup is also driven from SHELX descriptions generated by the reference (true LATT number incl. 6, reference coset reduction, two orders). After a caller edits the operation list of one SpaceGroup object the setting is constructed and looked up again (instance independence). Reduced descriptions are also given reversed and with the identity last / in the middle. Settings after pickle / deepcopy / copy. Products g.h.g / g.g.g formed with floating-point matrices pack to the code of the exact product. One list object of reduced operations handed over repeatedly (lookup / expansion histories). Every setting is looked up from its operations shifted by far lattice vectors (up to 1.5e5 cells). The whole sweep is repeated in the hostile / after-an-error environment.",
 "C03": " molecule_environment is also called with a non-default threshold and a centre molecule 0.02 A off the sites. Exact-shell family: lattice-aligned atoms, radii equal to lattice distances; the shell at the radius is reported all-or-none. Centre molecules that are caller-made symmetry images (Molecule.transformed) or rebuilt from arrays. Integer-typed query origins. Slabs beyond 2^16 and 2^18 rows: a 1728-atom cell at 12-30 A, a small rhombohedral cell at 35 A. Crystals whose molecules are single atoms (fcc argon, a one-atom P1 cell). Triclinic cells with accidentally equal parameters.",
 "C04": " The documented covalent_radii= override (all 8 histories of length 3) and bond_tolerance= (0.7 / default / -0.2 on stretched and ordinary water) are exercised through both entry points. Polyyne rods spanning 1.6-4.3 cells along a short axis, listed from either end. Chains are also listed in scrambled orders (inner atoms before the neighbour they are reached from). A bond-making covalent_radii override on bonds crossing every cell face. Dihydrogen (an H-H bond) among the molecules. Z' = 2 asymmetric units are also listed interleaved / heavy atoms first / reversed. Water grids of 648-3072 atoms per cell in P1 / P-1 with molecules straddling every face. Z' kinds with a one-atom molecule (Ar+H2O, H2O+Ar, Ar alone). Big cells with a bond-breaking radius override.",
 "C05": " Batch-size independence of rho / weights over 1..131073 points per call (sizes straddling 2^8, 2^12, 2^16, 2^17). Extended clusters with exterior atoms 3-30 A from the interior (beyond the 10.58 A table extent). Coincident and nearly coincident atoms (mixed sites) are part of the configurations. Lattice clusters of up to 8193 (thorough 65537) atoms. Empty exterior sets with backgrounds. Argument histories: the same array object after in-place updates. All 103 x 103 ordered element pairs and a molecule of all 103 elements. The arrays the object was built from are edited afterwards: the answer must not depend on whether the object had been evaluated before the edit. A molecule displaced 3e2-2e4 A from the coordinate origin. The batch-size sweep also with non-zero backgrounds.",
 "C06": " The same samples as Fortran-ordered, float64, strided and transposed-view arrays must give the same oriented triangles. Hirshfeld wrapper surfaces are judged against neighbours found by brute force from the unit-cell atoms. Surfaces whose isovalue is the density at a grid node. A two-sheet surface (C60 cage). Every documented vertex colouring must leave the vertices where they are. 57..305-atom clusters (sampling grids up to 1.6M points, 2.4M thorough) through the default smoothed routes with the density checked at every vertex. Every smooth field also in other units (samples and level times 2^-17 .. 2^20). Every density object is first asked for a surface the API refuses.",
 "C09": " kinds='N' is swept with its own calibrated bounds (the P block alone is not: no calibrated bound applies). A rod molecule (triacetylene) laid along axes, face and body diagonals with default search bounds. Whole-crystal translations of P1 descriptions (complete grid of origin shifts in a small oblique cell). An explicit origin of exactly (0,0,0). Refusal cases on the per-atom route. One long-lived SHT object through all (descriptor, method in between, descriptor) histories against fresh-object answers. Translations of 1e3 and 3e3 A with calibrated bounds. Crystals are first asked for descriptors the API refuses. Lone-atom molecules in the refusal clause and as spheres.",
 "C10": " Provenance includes crystals read from a refinement-style CIF with extra same-prefix loops of other lengths. Structures with a partially occupied site inside the merge distance of its images: POSCAR written first / after queries. Columns in which every coordinate is a whole number. Unusual but valid file names (POSCAR.cif, CONTCAR.res, upper-case extensions) and pathlib paths. Sites many cells away from the origin. Files not written by the library: standard SHELX cards (upper-case operations, true LATT), POSCAR with scale factors; labels that spell other elements; all 103 elements. Occupancies 1, 0, 1/4, 3/4, 1/3 through the CIF route. The pseudo-special cell as a cell variant in all 530 settings. A one-atom asymmetric unit in every setting. A long-and-obtuse cell variant; three two-deviation variants per setting in rotation (pairwise covering) in the quick tier, all pairs in the thorough tier.",
 "C11": " Operations are also built from int64 rotation matrices (code, string, (N,3)/(N,4) application, Seitz matrix). Operator and augmented-assignment arithmetic on every operation class. Homogeneous points with weights other than one; operations after pickle / copy. Five far lattice vectors (1e3-1.5e5 cells) added to every tabulated operation; Cartesian forms in cells 1e-4 degrees off orthogonal. Every second spelling is preceded by a string the reader refuses. Degenerate point sets (the origin alone) under every operation. Every operation from Fortran-ordered / strided rotation arrays; integer points under integer rotations.",
 "C13": " Partially occupied molecules (0.5 / 0.25) are included in the P1 / supercell density comparison. Hexagonal c/a ratios at which the rhombohedral cell is metrically special (alpha 90, 60, 109.47). Sequences with a coordinate edit between two trigonal switches. User labels that spell another element. Crystals read from a CIF with deposited metadata. The crystal as read from a CIF is expanded, and the export of the expansion is read again. Ar+H2O and Ar-alone crystals in all 230 settings. Partially occupied atoms exactly on special positions.",
 "C14": " A seventh structure (P1, Cu 0.6 / Au 0.4 on one position, ndarray occupancies) is explored over the alphabet without the trigonal switches; a sixth has a 1/3-occupancy site 0.04 A off a three-fold axis. Every answer is also compared with the answer of a pristine interpreter for the same public state; every state has a transition through the same queries on a sibling crystal; a refused request is part of the alphabet. Exports are byte-identical in two time zones 26 h apart. Public state compared bit for bit around every query; 18 queries. Short aliases uc / sg / asym are part of the observed answers. Two structures list part of their asymmetric unit several cells away from the origin. Six refused requests (setting name, tolerance, shell method, descriptor property, radius, supercell size) are letters of the alphabet. A one-cell slab query letter.",
 "C15": " The name alphabet holds same-prefix pairs with equal-length and with different-length names. Floats within 1e-11 of an integer are in the value alphabet. Big shapes: up to 300 columns, 5000 rows, 5000-character strings. In-place edit histories on parsed and constructed Cif objects. File-based twins (to_file / from_file); strings with '#'. Site-symmetry code strings. Block and item names that contain the format's own keywords (data_, loop_, save_, global_, stop_). Fourteen scalars from 1e-300 to 1e25 and with 16 digits must come back exactly. Long strings carrying semicolons and keywords.",
 "C16": " XYZ comment lines: empty, blank, tab, number-like, atom-like, hand-written and library-written, for all 103 elements. Coordinates just above the last written decimal (6e-5..9.9e-4). 130 kB multi-record SDF files with terminators on every power-of-two block boundary. CRLF line endings. File stems that are other formats' file names. Unit words in XYZ titles; long molecule names. After every write the molecule is bit for bit unchanged and the other format written next equals that of a never-written molecule. Coordinates with five integer digits (the ten-column SDF field completely filled). Explicit fmt= under six kinds of file name.",
 "C18": " Relating rotations down to 2e-6 rad and noise down to 1e-7 are included; the Horn reference evaluates its RMSD directly (achievable value). Dimers produced by symmetry_unique_dimers of several crystals analysed in one process, Horn optimum as oracle. Point sets given as views into one buffer. Crystals whose asymmetric unit is not one connected molecule. Integer-typed molecules through Dimer. Both molecules of a pair live through all histories of length <= 2 of centroid / centre-of-mass reads and in-place motions before the pair is formed. Thin rods (thickness/length to 1e-6) and small sets up to 1e5 from the origin. P1 / P-1 crystals with two independent molecules in the crystal-dimer sequences. float32 and mixed-precision input for every relation.",
 "C19": " Integer-valued normals are also given as an int64 array and as nested tuples with list energies. The scaling law is exercised with factors 0.5, 3, 1e3 and 1e-3. The caller edits the returned mesh and asks again. Corners where four facets meet; every facet names each corner once. Vicinal facets 0.01..2 degrees from a facet of a cube, a cuboctahedron and a generic body. A small-facet family (relative edge 1e-3 .. 1e-8 on crystals of size 1, 1e3, 2.5e4) compared at a resolution of 1e-9. Minimal shapes: tetrahedra, triangular prism, square pyramid.",
 "C20": " Korobov seed 0 (the smallest valid seed) is covered for batch, single point and front end. Keyword calls in every argument order. A front-end probe under eight interpreter hash seeds. The Korobov domain is swept completely (every seed 0..1000256 x every dimension 1..64): front end = batch bit for bit, range, definition. Refused front-end requests are letters of the call histories. Counts, dimensions and seeds as numpy integers at degenerate sizes.",
}

ALL = ["C%02d" % i for i in range(1, 21)]

def main():
    checks = []
    for pid in ALL:
        if pid not in CHECKS:
            continue
        level, tech, text, note, ref = CHECKS[pid]
        checks.append({
            "property_id": pid,
            "quick_cmd": "./check %s --tier quick" % pid,
            "thorough_cmd": "./check %s --tier thorough" % pid,
            "evidence_file": "/verif/evidence/%s.json" % pid,
            "replay_cmd_template": "./check %s --replay {path}" % pid,
            "engine": "mc",
            "level_claimed": {"category": level, "text": text + ADDENDA.get(pid, ""), "design_ref": "DESIGN.md section " + ref},
            "level_note": note,
            "technique": tech,
        })
    na = [{"property_id": p, "reason": "check not built yet (work in progress; a bounded-exhaustive formulation is planned in DESIGN.md)"}
          for p in ALL if p not in CHECKS]
    m = {
        "version": 1,
        "setup_cmd": "mkdir -p /verif/evidence /verif/replay && /venv/bin/python -B /verif/tools/setup.py",
        "hooks": {
            "guard": "CHMPY_VERIF",
            "enable": "no source hooks are needed: checks import chmpy from /repo/src (editable install) and observe through the public API and vars(obj); ./check exports CHMPY_VERIF=1 for uniformity",
            "baseline_off_cmd": "cd /repo && env -u CHMPY_VERIF /venv/bin/python -m pytest -ra -q -p no:cacheprovider --timeout=900 --continue-on-collection-errors",
            "source_commits": [],
            "add_only": True,
        },
        "engines": [{
            "name": "mc",
            "path": "/verif/mc",
            "serves_properties": [c["property_id"] for c in checks],
            "kind_free_text": "(every check also re-executes a fixed sample of its jobs in a fresh interpreter in a hostile process environment: python -O, DEBUG logging, other hash seed / working directory / numpy print options, and after a series of ~130 public calls with invalid input have failed in that process) hand-written bounded-exhaustive explorers in Python (shape explorer over products of alphabets with deviation bounds; explicit-state BFS over operation histories with canonical state digests) driving the real chmpy code against small reference models; TLC for the C14 memo-protocol model",
        }],
        "checks": checks,
        "not_applicable": na,
        "notes": "Every check: ./check <id> [--tier quick|thorough] [--replay file]; writes /verif/evidence/<id>.json; known findings in /verif/known_findings.jsonl.",
    }
    with open(os.path.join(HERE, "MANIFEST.json"), "w") as f:
        json.dump(m, f, indent=1)
    print("MANIFEST.json: %d checks, %d not_applicable" % (len(checks), len(na)))

if __name__ == "__main__":
    main()

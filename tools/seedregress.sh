#!/bin/bash
# usage: tools/seedregress.sh [seed names...]   - every stored seeded change against the check(s) recorded as catching it
# (scratch worktrees; 4 at a time).  One line per seed; "REGRESSION" if a recorded catcher no longer reports it.
cd /verif/seeded
names="$@"; [ -z "$names" ] && names=$(ls -d C??-? | tr '\n' ' ')
one() {
  n=$1
  ids=$(python3 -c "import json;print(' '.join(json.load(open('/verif/seeded/$n/meta.json'))['caught_by']))")
  if python3 -c "import json,sys;sys.exit(0 if json.load(open('/verif/seeded/$n/meta.json')).get('status','').startswith('obsolete') else 1)"; then echo "$n skipped (obsolete, see meta.json)"; return; fi
  out=$(/verif/tools/seedtest.sh /verif/seeded/$n $ids 2>&1)
  bad=""
  for c in $ids; do echo "$out" | grep -q "== $c rc=1" || bad="$bad $c"; done
  suite=$(echo "$out" | grep "== suite" | sed 's/.*: //' | cut -c1-20)
  if [ -z "$bad" ]; then echo "$n ok (caught by $ids) | suite: $suite"; else echo "$n REGRESSION: not reported by$bad | suite: $suite"; fi
}
export -f one
echo $names | tr ' ' '\n' | xargs -P 4 -I{} bash -c 'one {}'

#!/usr/bin/env python3
"""regenerates /verif/seeded/README.md from the meta.json files"""
import glob, json, os
rows = []
for m in sorted(glob.glob("/verif/seeded/*/meta.json")):
    d = json.load(open(m))
    name = os.path.basename(os.path.dirname(m))
    rows.append((name, d["property"], ", ".join(d["caught_by"]) or "NOT CAUGHT", d["needs_to_manifest"] + ((" [" + d["status"] + "]") if d.get("status") else "")))
out = ["# Seeded property-breaking changes", "",
       "Each directory holds `patch.diff` (apply with `git -C /repo apply`), `demo.py` (exit 1 with the change, 0 without), `notes.md` by the author",
       "and `meta.json`. All were written by independent sub-agents that saw only the property text and a scratch worktree, and confirmed here with",
       "`tools/seedtest.sh <dir> <check>`: the repository's own suite still reports 1 failed / 97 passed with the change, the demo fails with it and",
       "passes without it. \"MISSED by the first version\" marks changes the check did not report when first tried; the check was then strengthened.", "",
       "| seed | property | caught by | what it needs to manifest |", "|---|---|---|---|"]
for r in rows:
    out.append("| %s | %s | %s | %s |" % tuple(x.replace("|", "/") for x in r))
open("/verif/seeded/README.md", "w").write("\n".join(out) + "\n")
print(len(rows), "seeds")

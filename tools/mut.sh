#!/bin/bash
# usage: tools/mut.sh <file-rel-to-repo> <python-regex-old> <new> -- <check ids...>
# applies a one-off textual mutation to /repo, runs the checks (quick), reverts.
f="$1"; old="$2"; new="$3"; shift 4
cd /repo || exit 2
/venv/bin/python - "$f" "$old" "$new" <<'PY' || { echo "mutation did not apply"; exit 2; }
import sys,re
f,old,new=sys.argv[1:4]
s=open(f).read()
if old not in s: sys.exit(1)
open(f,'w').write(s.replace(old,new,1))
PY
git -C /repo diff --stat | tail -1
for c in "$@"; do (cd /verif && ./check $c --no-confirm 2>&1 | grep -E "VIOLATION|HARNESS|KNOWN" | head -3; echo "rc=$?"); done
git -C /repo checkout -- "$f"

#!/bin/bash
# usage: tools/seedwave.sh <outdir-prefix> <ids...>   e.g. tools/seedwave.sh /tmp/seedout4_ C01 C02
# one summary line per seed: suite / demo / own check
pre="$1"; shift
for id in "$@"; do
  d="${pre}${id}"
  [ -f "$d/patch.diff" ] || { echo "$id: no patch"; continue; }
  out=$(/verif/tools/seedtest.sh "$d" $id 2>&1)
  suite=$(echo "$out" | grep "== suite" | sed 's/.*: //' | cut -c1-24)
  base=$(echo "$out" | grep "== demo on unchanged" | sed 's/.*rc=/rc=/')
  mut=$(echo "$out" | grep "== demo with the change" | sed 's/.*rc=/rc=/' | cut -c1-5)
  chk=$(echo "$out" | grep "== $id rc" | cut -c1-60)
  echo "$id | suite: $suite | demo unchanged $base changed $mut | $chk"
  echo "$out" | grep "what:" | head -1 | cut -c1-220
done

"""setup: nothing to build; verifies that chmpy imports from /repo/src and its extension modules load"""
import sys, importlib
sys.path.insert(0, "/repo/src")
for m in ("chmpy", "chmpy.shape._sht", "chmpy.shape._invariants", "chmpy.interpolate._density",
          "chmpy.mc._mc_lewiner", "chmpy.sampling._sobol", "chmpy.sampling._lds"):
    importlib.import_module(m)
print("setup ok")

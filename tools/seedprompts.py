#!/usr/bin/env python3
"""Write the prompts handed to the independent sub-agents of a seeding wave.

usage: tools/seedprompts.py <wave-number> <guidance-file> [ids...]

Each prompt holds ONLY the text of one property (taken from /tmp/prop_<id>.txt, which is itself a plain rendering of
properties.jsonl), the location of the sub-agent's own scratch worktree, the deliverables, and - so that waves do not
repeat each other - one line per earlier attempt saying what that attempt needed to manifest.  Nothing about /verif's
checks goes into a prompt.  Output: /tmp/seedprompt<wave>_<id>.txt (scratch; removed after the wave).
"""
import json
import pathlib
import sys

VERIF = pathlib.Path(__file__).resolve().parent.parent


def prop_text(p):
    a = p["anchors"]
    mech = "; ".join(a.get("mechanisms", [])) if isinstance(a.get("mechanisms"), list) else str(a.get("mechanisms", ""))
    obs = a.get("observed_through") or a.get("observables") or []
    obs = ", ".join(obs) if isinstance(obs, list) else str(obs)
    return (
        f"Property {p['id']}: {p['title']}\n\nStatement: {p['statement']}\n\n"
        f"Quantifier ({', '.join(p['quantifier']['over'])}): {p['quantifier']['text']}\n\n"
        f"Code the property is anchored in: {', '.join(a['files'])}\n"
        f"Mechanisms meant to make it hold: {mech}\nObserved through: {obs}\n"
    )


HEAD = """You are helping to evaluate a verification harness for the open-source Python library chmpy (computational chemistry: crystals, space groups, file formats, isosurfaces, spherical-harmonic shape descriptors). You have your OWN scratch git worktree of the library at {wt} (source under {wt}/src/chmpy). Work ONLY inside {wt} and write your deliverables to {out}. Do not look at or touch /repo or /verif.

Below is a semantic property the library is supposed to satisfy. Your job: make ONE realistic change to the library source in your worktree that BREAKS this property, while
  (a) the library still imports, and
  (b) the existing test suite still passes exactly as before: run
        cd {wt} && PYTHONPATH={wt}/src /venv/bin/python -m pytest -q -p no:cacheprovider --timeout=900
      Before your change it reports "1 failed, 97 passed" (test_repr fails at baseline; that is expected). After your change it must report the same.
The change should look like a plausible developer mistake or "optimisation"/refactor, NOT something ordinary use would expose at once: it should need something specific to manifest. Prefer a subtle change over a blatant one. Change Python sources (or data/JSON/npz files) only: Cython is NOT installed, so edits to .pyx/.c files cannot be rebuilt and have no effect.

{prop}

Deliverables (all in {out}):
  1. patch.diff  - output of `git -C {wt} diff` (the change only; do not commit).
  2. demo.py     - a small standalone program, run as `PYTHONPATH=<worktree>/src /venv/bin/python demo.py`, that exits 0 when the property holds for its scenario and exits 1 (printing what went wrong) when it is violated. It must FAIL (exit 1) with your change applied and PASS (exit 0) on the unchanged library. It must import chmpy from PYTHONPATH (do not hard-code your worktree path inside demo.py).
  3. notes.md    - 5-10 lines: what you changed, why the existing tests still pass, what exactly is needed for the breakage to manifest, and the output of demo.py with and without the change.
Verify all three claims yourself (tests unchanged, demo fails with the change, demo passes on the unchanged library). NEVER use `git stash` (it is shared between worktrees). To test the unchanged library: `git -C {wt} diff > {out}/patch.diff; git -C {wt} apply -R {out}/patch.diff; <run demo>; git -C {wt} apply {out}/patch.diff`. Leave the worktree WITH your change applied when you finish. Keep your final answer short: the one-line description of the change and whether all checks were confirmed.


ADDITIONAL GUIDANCE FOR THIS ROUND. Earlier, independent attempts on this property already made these changes (described by what they need to manifest):
{earlier}
Do something of a DIFFERENT KIND from all of them. The harness under evaluation has been extended after every one of those attempts ({rounds} rounds); assume it covers everything in that list and its obvious neighbours. {guidance}
"""


def main():
    wave, gfile, ids = sys.argv[1], sys.argv[2], sys.argv[3:]
    guidance = pathlib.Path(gfile).read_text().strip()
    props = {}
    for line in (VERIF / "properties.jsonl").read_text().splitlines():
        if line.strip():
            p = json.loads(line)
            props[p["id"]] = p
    for pid in ids or sorted(props):
        tf = pathlib.Path(f"/tmp/prop_{pid}.txt")
        prop = tf.read_text().strip() + "\n" if tf.exists() else prop_text(props[pid])
        earlier = []
        for d in sorted((VERIF / "seeded").glob(f"{pid}-*")):
            m = json.loads((d / "meta.json").read_text())
            need = m["needs_to_manifest"].split(". Reported")[0].split(". Caught")[0]
            earlier.append("  * " + need[:260])
        wt, out = f"/tmp/seed{wave}_{pid}", f"/tmp/seedout{wave}_{pid}"
        txt = HEAD.format(wt=wt, out=out, prop=prop, earlier="\n".join(earlier), rounds=len(earlier), guidance=guidance)
        pathlib.Path(f"/tmp/seedprompt{wave}_{pid}.txt").write_text(txt)
        print(pid, len(earlier), "earlier attempts")


if __name__ == "__main__":
    main()

#!/bin/bash
# usage: tools/seeds.sh "<ids>" "<seeds>" [tier]  - runs checks over seeds, prints one line per run
ids=${1:-$(python3 -c "import json;print(' '.join(c['property_id'] for c in json.load(open('/verif/MANIFEST.json'))['checks']))")}
seeds=${2:-"0 1 2 3 4 5 6 7 8 9"}
tier=${3:-quick}
cd "$(dirname "$0")/.."
for id in $ids; do for s in $seeds; do
  out=$(VERIF_SEED=$s ./check $id --tier $tier --no-confirm 2>&1); rc=$?
  echo "$id seed=$s rc=$rc $(echo "$out" | grep -cE '^VIOLATION') violations; $(echo "$out" | tail -1 | cut -c1-150)"
  if [ $rc -ne 0 ]; then echo "$out" | grep -E "what:|HARNESS" | head -5 | cut -c1-300; fi
done; done

#!/bin/bash
# usage: tools/seedtest.sh <dir with patch.diff + demo.py> [check ids...]
# Confirms a seeded change in a scratch worktree (suite still passes, demo fails with / passes without the change), then
# runs the checks against that worktree (VERIF_REPO).  /repo itself is not touched; evidence / replay files of these runs go
# to a scratch directory (VERIF_OUT) that is removed afterwards.
d="$(cd "$1" && pwd)"; shift
ids="$@"
[ -z "$ids" ] && ids=$(python3 -c "import json;print(' '.join(c['property_id'] for c in json.load(open('/verif/MANIFEST.json'))['checks']))")
wt=/tmp/st_$$
/verif/tools/mkwt.sh $wt >/dev/null || exit 2
out=/tmp/st_out_$$; mkdir -p $out/evidence $out/replay
trap 'git -C /repo worktree remove --force '$wt' >/dev/null 2>&1; rm -rf '$out'; echo "scratch worktree removed"' EXIT
echo "== demo on unchanged tree: $(cd /tmp && PYTHONPATH=$wt/src timeout 900 /venv/bin/python "$d/demo.py" >/tmp/demo_base_$$.out 2>&1; echo "rc=$?")"
git -C $wt apply "$d/patch.diff" || { echo "patch does not apply"; exit 2; }
git -C $wt diff --stat | tail -1
echo "== suite with the change: $(cd $wt && PYTHONPATH=$wt/src /venv/bin/python -m pytest -q -p no:cacheprovider --timeout=900 2>&1 | tail -1)"
echo "== demo with the change: $(cd /tmp && PYTHONPATH=$wt/src timeout 900 /venv/bin/python "$d/demo.py" >/tmp/demo_mut_$$.out 2>&1; echo "rc=$?"; tail -2 /tmp/demo_mut_$$.out | cut -c1-200)"
for c in $ids; do
  res=$(cd /verif && VERIF_REPO=$wt VERIF_OUT=$out ./check $c --no-confirm 2>&1); rc=$?
  echo "== $c rc=$rc $(echo "$res" | grep -c '^VIOLATION') violation line(s)"; echo "$res" | grep "what:" | head -2 | cut -c1-260
done
rm -f /tmp/demo_base_$$.out /tmp/demo_mut_$$.out

#!/bin/bash
# usage: tools/seedtest.sh <dir with patch.diff + demo.py> [check ids...]
# Confirms a seeded change (suite still passes, demo fails with / passes without), then runs the checks on it. Always reverts.
d="$1"; shift
ids="$@"
[ -z "$ids" ] && ids=$(python3 -c "import json;print(' '.join(c['property_id'] for c in json.load(open('/verif/MANIFEST.json'))['checks']))")
if [ -n "$(git -C /repo status --porcelain --untracked-files=no | grep -v chmpy_logo)" ]; then echo "repo not clean"; exit 2; fi
echo "== demo on unchanged tree"; (cd /tmp && PYTHONPATH=/repo/src timeout 600 /venv/bin/python "$d/demo.py" >/tmp/demo_base.out 2>&1; echo "demo rc=$?")
git -C /repo apply "$d/patch.diff" || { echo "patch does not apply"; exit 2; }
trap 'git -C /repo checkout -- . ; echo reverted' EXIT
git -C /repo diff --stat | tail -1
echo "== suite with the change"; (cd /repo && /venv/bin/python -m pytest -q -p no:cacheprovider --timeout=900 2>&1 | tail -1)
echo "== demo with the change"; (cd /tmp && PYTHONPATH=/repo/src timeout 600 /venv/bin/python "$d/demo.py" >/tmp/demo_mut.out 2>&1; echo "demo rc=$?"; tail -3 /tmp/demo_mut.out | cut -c1-200)
for c in $ids; do
  out=$(cd /verif && ./check $c --no-confirm 2>&1); rc=$?
  echo "== $c rc=$rc $(echo "$out" | grep -c '^VIOLATION') violation line(s)"; echo "$out" | grep "what:" | head -2 | cut -c1-260
done

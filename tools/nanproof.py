#!/usr/bin/env python3
"""
Rewrites NaN-blind threshold tests in the checks: a scalar test `dev > tol` inside an if / elif / boolean expression is False when
dev is NaN, so a library result that is not-a-number would pass silently.  `not (dev <= tol)` is True for NaN.
Only Compare nodes with a single `>` (or `<`) whose value is used directly as a truth value are rewritten (elementwise array
comparisons such as `(x > tol).any()` are left alone).  Usage: tools/nanproof.py file...   (rewrites in place, prints a count)
"""
import ast
import sys


def truth_positions(tree):
    out = []

    def visit_truth(node):
        if isinstance(node, ast.BoolOp):
            for v in node.values:
                visit_truth(v)
        elif isinstance(node, ast.UnaryOp) and isinstance(node.op, ast.Not):
            return      # already negated forms are written deliberately
        elif isinstance(node, ast.Compare) and len(node.ops) == 1 and isinstance(node.ops[0], (ast.Gt, ast.Lt)):
            out.append(node)

    for n in ast.walk(tree):
        if isinstance(n, (ast.If, ast.While)):
            visit_truth(n.test)
        elif isinstance(n, ast.IfExp):
            visit_truth(n.test)
    return out


def numeric_looking(src):
    import re

    return any(k in src for k in (".max()", "abs(", "relerr(", "norm(", "dev", "err", ".min()", "metric(", "TOL", "REL", "tol", "tau", "bound")) \
        or re.search(r"\d\.\d|\de-\d|\d\.0\b", src) is not None


def main():
    total = 0
    for path in sys.argv[1:]:
        text = open(path).read()
        lines = text.split("\n")
        tree = ast.parse(text)
        nodes = [n for n in truth_positions(tree) if n.lineno == n.end_lineno]
        nodes.sort(key=lambda n: (n.lineno, n.col_offset), reverse=True)
        count = 0
        for n in nodes:
            seg = ast.get_source_segment(text, n)
            left = ast.get_source_segment(text, n.left)
            right = ast.get_source_segment(text, n.comparators[0])
            if seg is None or left is None or right is None or not numeric_looking(seg):
                continue
            if isinstance(n.comparators[0], ast.Constant) and isinstance(n.comparators[0].value, str):
                continue
            # skip integer-looking tests (len(...), counts)
            if left.startswith("len(") or right.startswith("len(") or "count" in left:
                continue
            op = "<=" if isinstance(n.ops[0], ast.Gt) else ">="
            new = "not (%s %s %s)" % (left, op, right)
            line = lines[n.lineno - 1]
            lines[n.lineno - 1] = line[: n.col_offset] + new + line[n.end_col_offset:]
            count += 1
        if count:
            open(path, "w").write("\n".join(lines))
        print(path, count)
        total += count
    print("total", total)


if __name__ == "__main__":
    main()

#!/bin/bash
# runs every check's thorough tier once, one line per check
cd "$(dirname "$0")/.."
for id in $(python3 -c "import json;print(' '.join(c['property_id'] for c in json.load(open('MANIFEST.json'))['checks']))"); do
  s=$(date +%s); out=$(./check $id --tier thorough --no-confirm 2>&1); rc=$?; e=$(date +%s)
  echo "$id rc=$rc $((e-s))s $(echo "$out" | grep -c '^VIOLATION') violations; $(echo "$out" | tail -1 | cut -c1-140)"
  [ $rc -ne 0 ] && echo "$out" | grep -E "what:|HARNESS" | head -5 | cut -c1-300
done
exit 0

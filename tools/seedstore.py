#!/usr/bin/env python3
"""usage: seedstore.py <name> <srcdir> <property> <caught-by comma list or 'none'> <needs...>   - files a confirmed seeded change under /verif/seeded/<name>/"""
import json, os, shutil, subprocess, sys
name, src, prop, caught = sys.argv[1:5]
needs = " ".join(sys.argv[5:])
d = os.path.join("/verif/seeded", name)
os.makedirs(d, exist_ok=True)
for f in ("patch.diff", "demo.py", "notes.md"):
    if os.path.exists(os.path.join(src, f)):
        shutil.copy(os.path.join(src, f), os.path.join(d, f))
meta = {
    "property": prop,
    "needs_to_manifest": needs,
    "author": "independent sub-agent given only the property text and a scratch worktree",
    "confirmed": {
        "suite_with_change": "1 failed, 97 passed (same as baseline)",
        "demo_unchanged_tree": "exit 0",
        "demo_with_change": "exit 1",
        "how": "tools/seedtest.sh <dir> (git -C /repo apply; pytest; demo; ./check ...; git -C /repo checkout -- .)",
    },
    "caught_by": [] if caught == "none" else caught.split(","),
    "base_commit": subprocess.run(["git", "-C", "/repo", "log", "--format=%h", "-1"], capture_output=True, text=True).stdout.strip(),
}
json.dump(meta, open(os.path.join(d, "meta.json"), "w"), indent=1)
print("stored", d)
